//! C10: vectors, queues and string vectors match their standard-library models.
//! M+S cells (histories replayed in the Coq model, incl. drop log, capacity, head/tail):
//!   AutoGrowCircularQueue<El>, FixedCircularQueue<El, N>, FastVec<El>
//! S-only cells (shadow Vec / VecDeque oracle only):
//!   FastVec<u64>, FastVec<u8> (SIMD paths), ValVec32<El>, ValVec32<u64>, CacheAlignedVec<El> (memory::cache),
//!   cache_layout::CacheAlignedVec<u64>, BumpVec<El>, MmapVec<u64>, SortableStrVec, FixedLenStrVec<4/8/16>,
//!   ZoSortedStrVec, BitPackedStringVec32/64, AdvancedStringVec (levels 0..3)
//! `El` is a drop-counting handle: every construction / clone / drop is counted per id, so that after every
//! operation "live instances of id" can be compared with "occurrences of id in the shadow container".
use crate::util::*;
use serde_json::{json, Value};
use std::cell::RefCell;
use std::collections::VecDeque;
use zipora::containers::specialized::{
    AdvancedStringConfig, AdvancedStringVec, AutoGrowCircularQueue, BitPackedConfig, BitPackedStringVec32, BitPackedStringVec64,
    FixedCircularQueue, FixedLenStrVec, SortableStrVec, ValVec32, ZoSortedStrVec,
};
use zipora::containers::FastVec;
use zipora::memory::bump::{BumpAllocator, BumpVec};
use zipora::memory::cache::CacheAlignedVec;
use zipora::memory::{MmapVec, MmapVecConfig, MmapVecConfigBuilder};

#[path = "c10_breadth.rs"]
mod breadth;

const HEADER: &str = r#"From ZV.Common Require Import Base Run.
From ZV.C10 Require Import Model ModelValVec32 ModelArena ModelStrVec ModelFixedLen ModelFastVecCopy ModelCacheVec ModelBitPacked ModelRingBulk ModelCases.
Open Scope N_scope.
"#;

// ---------------------------------------------------------------------------------------------
// drop-counting element
// ---------------------------------------------------------------------------------------------
const PH: u64 = u64::MAX; // placeholder instances owned by the harness itself (not counted)
thread_local! {
    static DROPS: RefCell<Vec<u64>> = RefCell::new(vec![]);
    static LIVE: RefCell<Vec<i64>> = RefCell::new(vec![]);
    static WILD: RefCell<u64> = RefCell::new(0); // drops of ids never created (garbage read as an element)
    static MUTE: RefCell<bool> = RefCell::new(false); // drops performed by the harness itself: counted, not logged
    static PH_LIVE: RefCell<i64> = RefCell::new(0); // live placeholder instances (only compared around an operation that overwrites placeholders)
}
fn ph_live() -> i64 { PH_LIVE.with(|p| *p.borrow()) }
thread_local! { static RISKY_OFF: RefCell<bool> = RefCell::new(false); }
/// operations that abort the process when the repaired checks are missing are left out once the probe has seen an abort
fn risky_off() -> bool { RISKY_OFF.with(|r| *r.borrow()) }
/// run `f` (a drop of something the harness owns) without writing to the drop log of the operation
fn quiet<Rt>(f: impl FnOnce() -> Rt) -> Rt { MUTE.with(|m| *m.borrow_mut() = true); let r = f(); MUTE.with(|m| *m.borrow_mut() = false); r }
struct El { id: u64 }
const MAX_ID: u64 = 1 << 22; // ids are handed out consecutively per history; anything above is garbage read as an element
fn el(id: u64) -> El {
    if id == PH { PH_LIVE.with(|p| *p.borrow_mut() += 1); }
    if id != PH {
        if id >= MAX_ID { WILD.with(|w| *w.borrow_mut() += 1); }
        else { LIVE.with(|l| { let mut l = l.borrow_mut(); let i = id as usize; if l.len() <= i { l.resize(i + 1, 0); } l[i] += 1; }); }
    }
    El { id }
}
impl Clone for El { fn clone(&self) -> El { el(self.id) } }
impl PartialEq for El { fn eq(&self, o: &El) -> bool { self.id == o.id } }
impl std::fmt::Debug for El { fn fmt(&self, f: &mut std::fmt::Formatter<'_>) -> std::fmt::Result { write!(f, "#{}#", self.id) } }
/// the element ids a `Debug` rendering shows, in order, whatever the surrounding punctuation (`#id#` markers of `El`)
fn debug_marked_ids(s: &str) -> Vec<u64> {
    let mut out = vec![]; let b = s.as_bytes(); let mut i = 0;
    while i < b.len() { if b[i] == b'#' { let mut j = i + 1; while j < b.len() && b[j].is_ascii_digit() { j += 1; }
            if j > i + 1 && j < b.len() && b[j] == b'#' { if let Ok(v) = s[i + 1..j].parse::<u64>() { out.push(v); } i = j + 1; continue; } }
        i += 1; }
    out
}
impl Drop for El {
    fn drop(&mut self) {
        if self.id == PH { PH_LIVE.with(|p| *p.borrow_mut() -= 1); return; }
        if self.id >= MAX_ID { WILD.with(|w| *w.borrow_mut() += 1); return; }
        if !MUTE.with(|m| *m.borrow()) { DROPS.with(|d| d.borrow_mut().push(self.id)); }
        LIVE.with(|l| { let mut l = l.borrow_mut(); let i = self.id as usize;
            if i < l.len() { l[i] -= 1; } else { WILD.with(|w| *w.borrow_mut() += 1); } });
    }
}
fn reset_counters() {
    DROPS.with(|d| d.borrow_mut().clear());
    LIVE.with(|l| l.borrow_mut().clear());
    WILD.with(|w| *w.borrow_mut() = 0);
    MUTE.with(|m| *m.borrow_mut() = false);
}
fn take_drops() -> Vec<u64> { DROPS.with(|d| std::mem::take(&mut *d.borrow_mut())) }
/// live instances per id must equal the occurrences in `held` (ids below `next_id`)
fn live_mismatch<'a>(held: impl Iterator<Item = &'a u64>, next_id: u64) -> Option<String> {
    let mut want = vec![0i64; next_id as usize];
    for &x in held { if (x as usize) < want.len() { want[x as usize] += 1; } }
    if WILD.with(|w| *w.borrow()) > 0 { return Some("a value that was never stored (uninitialised or foreign memory) was cloned or dropped as an element".into()); }
    LIVE.with(|l| {
        let l = l.borrow();
        for i in 0..want.len() {
            let have = l.get(i).copied().unwrap_or(0);
            if have != want[i] {
                return Some(if have < want[i] { format!("element {} dropped too often: {} live instances, the model container holds {}", i, have, want[i]) }
                            else { format!("element {} leaked: {} live instances, the model container holds {}", i, have, want[i]) });
            }
        }
        None
    })
}

// ---------------------------------------------------------------------------------------------
// supervision: the whole run happens in a child process. Before a case runs, its JSON is written to a journal file; if
// the child is taken down (abort from an unsafe-precondition check, SIGSEGV, glibc heap check - all of which a broken
// container can cause from its safe API), the supervisor reports the journalled case as a failure of the property
// ("the process was terminated where a value or an error is demanded") and starts the run again with that case left
// out, so that everything else is still evaluated and the failure comes with a concrete replay.
// ---------------------------------------------------------------------------------------------
thread_local! {
    static JOURNAL: RefCell<Option<std::fs::File>> = RefCell::new(None);
    static SKIP: RefCell<Option<Vec<String>>> = RefCell::new(None);
}
/// note the case that is about to run; true = the supervisor has seen the process die in this case: leave it out
fn journal(cj: &Value) -> bool {
    use std::io::{Seek, SeekFrom, Write};
    let line = cj.to_string();
    let skip = SKIP.with(|s| { let mut s = s.borrow_mut();
        if s.is_none() { *s = Some(std::env::var("ZV_C10_SKIP").ok().and_then(|f| std::fs::read_to_string(f).ok()).map(|t| t.lines().map(|l| l.to_string()).collect()).unwrap_or_default()); }
        s.as_ref().map(|v| v.iter().any(|l| *l == line)).unwrap_or(false) });
    if skip { return true; }
    JOURNAL.with(|j| { let mut j = j.borrow_mut();
        if j.is_none() { if let Ok(f) = std::env::var("ZV_C10_JOURNAL") { *j = std::fs::OpenOptions::new().create(true).write(true).open(f).ok(); } }
        if let Some(f) = j.as_mut() { let _ = f.seek(SeekFrom::Start(0)); let _ = f.write_all(line.as_bytes()); let _ = f.set_len(line.len() as u64); } });
    false
}
fn supervise(args: &Args) -> bool {
    let exe = match std::env::current_exe() { Ok(e) => e, Err(_) => return false };
    let journal_f = format!("{}/journal.json", args.out); let skip_f = format!("{}/skip.jsonl", args.out);
    let _ = std::fs::remove_file(format!("{}/summary.json", args.out));   // never mistake the result of an earlier run for this one's
    let mut crashed: Vec<(Value, String)> = vec![];
    let mut unattributed: Option<String> = None;
    for _ in 0..8 {
        if std::fs::write(&skip_f, crashed.iter().map(|(c, _)| c.to_string()).collect::<Vec<_>>().join("\n")).is_err() { return false; }
        let _ = std::fs::remove_file(&journal_f);
        let mut cmd = std::process::Command::new(&exe);
        cmd.args(["C10", "--seed", &args.seed.to_string(), "--tier", if args.thorough { "thorough" } else { "quick" }, "--out", &args.out]);
        if let Some(f) = &args.replay { cmd.args(["--replay", f]); }
        cmd.env("ZV_C10_CHILD", "1").env("ZV_C10_JOURNAL", &journal_f).env("ZV_C10_SKIP", &skip_f);
        match cmd.status() {
            Err(_) => return false,
            Ok(s) if s.success() => break,
            Ok(s) => { let last: Option<Value> = std::fs::read_to_string(&journal_f).ok().and_then(|t| serde_json::from_str(&t).ok());
                       match last { Some(c) if !crashed.iter().any(|(x, _)| *x == c) => crashed.push((c, s.to_string())),
                                    _ => { unattributed = Some(s.to_string()); break; } } }
        }
    }
    let _ = std::fs::remove_file(&journal_f); let _ = std::fs::remove_file(&skip_f);
    if crashed.is_empty() && unattributed.is_none() { return true; }
    // add the cases the process died in to what the last child wrote (or to an empty summary if no child came through)
    let sf = format!("{}/summary.json", args.out);
    let complete = unattributed.is_none() && std::path::Path::new(&sf).exists();
    let mut v: Value = if complete { std::fs::read_to_string(&sf).ok().and_then(|t| serde_json::from_str(&t).ok()).unwrap_or(Value::Null) } else { Value::Null };
    if !v.is_object() { let s = Summary::new("C10", "supervisor: no child process completed the run"); s.write(&args.out, vec![]); v = std::fs::read_to_string(&sf).ok().and_then(|t| serde_json::from_str(&t).ok()).unwrap_or(json!({})); }
    let mut fs: Vec<Value> = v["failures"].as_array().cloned().unwrap_or_default();
    for (c, st) in &crashed {
        let cell = format!("process terminated in a {} case", c["cell"].as_str().unwrap_or("?"));
        fs.push(json!({"cell": cell, "class": Value::Null, "case": c, "detail": format!("the process was terminated ({}) while this case ran, where the property demands a value or an error", st)}));
    }
    if let Some(st) = unattributed { fs.insert(0, json!({"cell": "process terminated", "class": Value::Null, "case": {"cell": "none"}, "detail": format!("the process was terminated ({}) outside of any case / again in a case that was left out", st)})); }
    v["failures"] = json!(fs);
    let _ = std::fs::write(&sf, serde_json::to_string_pretty(&v).unwrap_or_default());
    true
}

#[derive(Clone, Copy, PartialEq)]
enum Coq { Never, Budget, Always }
struct Ctx { sum: Summary, shards: CoqShards, budgets: std::collections::BTreeMap<&'static str, (usize, usize)> }
impl Ctx {
    /// one more Coq case for `cell`, if its share of the Coq budget is not used up
    fn room(&mut self, cell: &'static str) -> bool {
        let e = self.budgets.entry(cell).or_insert((0, 0));
        if e.0 < e.1 { e.0 += 1; true } else { false }
    }
}

fn zlist(xs: &[i128]) -> String { coq_z_list(xs.iter().copied()) }
fn nlist(xs: &[u64]) -> String { coq_n_list(xs.iter().map(|&x| x as u128)) }
fn op_arg(o: &[u64], i: usize) -> u64 { o.get(i).copied().unwrap_or(0) }
fn parse_ops(v: &Value) -> Vec<Vec<u64>> {
    v.as_array().map(|a| a.iter().map(|o| o.as_array().map(|x| x.iter().map(|y| y.as_u64().unwrap_or(0)).collect()).unwrap_or_default()).collect()).unwrap_or_default()
}

// ---------------------------------------------------------------------------------------------
// AutoGrowCircularQueue<El>   ops: [0] push_back  [1] pop_front  [2,k] push_bulk  [3,k] pop_bulk
//                                  [4,n] reserve  [5] clear  [6] front  [7] back  [8] clone, drop original
//                                  [9] push (alias)  [10] pop (alias)  [11,k] == against clone / re-built / differing queues
//                                  [12] Debug       constructor "ctor": 0 with_capacity(cap), 1 new(), 2 Default
// ---------------------------------------------------------------------------------------------
fn enc_opt(o: Option<u64>) -> Vec<i128> { match o { None => vec![1], Some(x) => vec![2, x as i128] } }

/// the ring ids a queue built by `mk` shows when it is drained (harness-owned copies, not logged)
fn ring_same_sequence(q: &AutoGrowCircularQueue<El>, shadow: &VecDeque<u64>, k: u64) -> Option<String> {
    quiet(|| {
        // clone: equal in both directions
        let mut c = q.clone();
        if !(*q == c) || !(c == *q) { return Some("q == q.clone() is false".to_string()); }
        // the same sequence in a ring of another capacity whose head sits at another offset
        let mut d: AutoGrowCircularQueue<El> = AutoGrowCircularQueue::with_capacity(((k % 3) * 7 + 1) as usize);
        for _ in 0..(k % 5) { let _ = d.push_back(el(PH)); let _ = d.pop_front(); }
        for &x in shadow.iter() { let _ = d.push_back(el(x)); }
        if !(*q == d) || !(d == *q) { return Some(format!("== is false for a queue holding the same sequence {:?} at another offset / capacity", shadow.iter().take(8).collect::<Vec<_>>())); }
        // one element more
        let _ = d.push_back(el(PH));
        if *q == d || d == *q { return Some("== is true for queues of different length".to_string()); }
        // same length, one element different (at the front, in the middle or at the back)
        if !shadow.is_empty() {
            let n = shadow.len(); let pos = [0, n / 2, n - 1][(k % 3) as usize];
            let mut e: AutoGrowCircularQueue<El> = AutoGrowCircularQueue::new();
            for (i, &x) in shadow.iter().enumerate() { let _ = e.push_back(if i == pos { el(PH) } else { el(x) }); }
            if *q == e || e == *q { return Some(format!("== is true for queues that differ at position {} of {}", pos, n)); }
            // the clone diverges: rotate it by one
            if let Some(x) = c.pop_front() { let _ = c.push_back(x); }
            if n >= 2 && shadow[0] != shadow[1] && *q == c { return Some("== is true after the clone was rotated by one".to_string()); }
        }
        None
    })
}

fn ring_history(cx: &mut Ctx, cap0: u64, ctor: u64, ops: &[Vec<u64>], coq: Coq) {
    let cell = "AutoGrowCircularQueue";
    cx.sum.eval(cell, &format!("ring {} {} {:?}", cap0, ctor, ops), ops.len() >= 3);
    let cj = if ctor == 0 { json!({"cell": "ring", "cap": cap0, "ops": ops}) } else { json!({"cell": "ring", "cap": cap0, "ctor": ctor, "ops": ops}) };
    if journal(&cj) { return; }
    reset_counters();
    let mut next_id: u64 = 0;
    // ctor 1: new(), 2: Default::default() - both INITIAL_CAPACITY = what with_capacity(4) builds
    let cap0 = if ctor == 0 { cap0 } else { 4 };
    let mut q: AutoGrowCircularQueue<El> = match ctor { 0 => AutoGrowCircularQueue::with_capacity(cap0 as usize), 1 => AutoGrowCircularQueue::new(), _ => Default::default() };
    let mut shadow: VecDeque<u64> = VecDeque::new();
    let mut coq_ops: Vec<String> = vec![];
    let mut expect: Vec<String> = vec![];
    let mut failed = false;
    let mut wrapped_growth = false;
    for o in ops {
        let code = op_arg(o, 0);
        let k = op_arg(o, 1).min(40);
        take_drops();
        let st0 = q.performance_stats();
        let was_wrapped = st0.length > 0 && st0.head_index >= st0.tail_index;
        let mut ret: Vec<i128> = vec![0];
        let mut drops_o: Option<Vec<u64>> = None;
        let mut problem: Option<String> = None;
        let mut observed_only = false;
        let r = match code {
            0 | 9 => { let id = next_id; next_id += 1; coq_ops.push(format!("TQ (PushBack {})", id));
                   let x = el(id);
                   guarded(|| { match if code == 0 { q.push_back(x) } else { q.push(x) } { Ok(()) => { shadow.push_back(id); } Err(e) => problem = Some(format!("push_back refused: {:?}", e)) } }) }
            1 | 10 => { coq_ops.push("TQ PopFront".into());
                   guarded(|| { let got = if code == 1 { q.pop_front() } else { q.pop() }; let gid = got.as_ref().map(|e| e.id); drops_o = Some(take_drops()); drop(got);
                       let want = shadow.pop_front(); ret = enc_opt(gid);
                       if gid != want { problem = Some(format!("pop_front returned {:?}, a VecDeque returns {:?}", gid, want)); } }) }
            // observations outside the mechanism model (the queue is not changed, nothing is pushed to the Coq trace)
            11 => { observed_only = true; guarded(|| { problem = ring_same_sequence(&q, &shadow, k); }) }
            12 => { observed_only = true;
                    guarded(|| { let got = debug_marked_ids(&format!("{:?}", q)); let want: Vec<u64> = shadow.iter().copied().collect();
                        if got != want { problem = Some(format!("Debug shows {:?}, a VecDeque holds {:?}", &got[..got.len().min(12)], &want[..want.len().min(12)])); } }) }
            2 => { let ids: Vec<u64> = (0..k).map(|i| next_id + i).collect(); next_id += k;
                   coq_ops.push(format!("TQ (PushBulk {})", nlist(&ids)));
                   let items: Vec<El> = ids.iter().map(|&i| el(i)).collect();
                   guarded(|| { let r = q.push_bulk(&items); drops_o = Some(take_drops()); drop(items);
                       match r { Ok(n) => { ret = vec![4, n as i128]; if n as u64 != k { problem = Some(format!("push_bulk of {} reported {}", k, n)); } shadow.extend(ids.iter().copied()); }
                                 Err(e) => problem = Some(format!("push_bulk refused: {:?}", e)) } }) }
            3 => { coq_ops.push(format!("TQ (PopBulk {})", k));
                   let ph0 = ph_live();
                   let mut out: Vec<El> = (0..k).map(|_| el(PH)).collect();
                   guarded(|| { let n = q.pop_bulk(&mut out); drops_o = Some(take_drops());
                       // the values the caller's slice held before are overwritten, so each of them is dropped exactly once (as `out[i] = pop_front()` does)
                       let ph_left = ph_live() - ph0;
                       let got: Vec<u64> = out.iter().take(n).map(|e| e.id).collect(); drop(out);
                       if ph_left != k as i64 - n as i64 { problem = Some(format!("pop_bulk({}) wrote {} elements over the caller's slice but dropped {} of the values it held (each overwritten value is dropped once)", k, n, k as i64 - ph_left)); }
                       let m = (k as usize).min(shadow.len()); let want: Vec<u64> = shadow.drain(..m).collect();
                       ret = vec![3]; ret.extend(got.iter().map(|&x| x as i128));
                       if got != want { problem = Some(format!("pop_bulk({}) returned {:?}, a VecDeque drains {:?}", k, got, want)); } }) }
            4 => { coq_ops.push(format!("TQ (Reserve {})", k));
                   guarded(|| { if let Err(e) = q.reserve(k as usize) { problem = Some(format!("reserve refused: {:?}", e)); } }) }
            5 => { coq_ops.push("TQ Clear".into()); guarded(|| { q.clear(); shadow.clear(); }) }
            6 => { coq_ops.push("TQ Front".into());
                   guarded(|| { let g = q.front().map(|e| e.id); ret = enc_opt(g);
                       if g != shadow.front().copied() { problem = Some(format!("front() = {:?}, VecDeque {:?}", g, shadow.front())); } }) }
            7 => { coq_ops.push("TQ Back".into());
                   guarded(|| { let g = q.back().map(|e| e.id); ret = enc_opt(g);
                       if g != shadow.back().copied() { problem = Some(format!("back() = {:?}, VecDeque {:?}", g, shadow.back())); } }) }
            _ => { coq_ops.push("TQClone".into());
                   guarded(|| { let c = q.clone(); let old = std::mem::replace(&mut q, c); drop(old); }) }
        };
        let late = take_drops(); let mut drops = drops_o.unwrap_or(late); drops.sort();
        if let Err(p) = r { cx.sum.fail(cell, None, cj.clone(), &format!("op {:?} panicked: {}", o, p)); failed = true; break; }
        // what a VecDeque shows after the same operations
        let st = q.performance_stats();
        if st.capacity > st0.capacity && was_wrapped { wrapped_growth = true; }
        if problem.is_none() && q.len() != shadow.len() { problem = Some(format!("len() = {} but a VecDeque holds {}", q.len(), shadow.len())); }
        if problem.is_none() && q.is_empty() != shadow.is_empty() { problem = Some("is_empty() disagrees".into()); }
        if problem.is_none() && (q.capacity() < q.len() || q.capacity() != st.capacity) { problem = Some(format!("capacity() = {} with {} elements (performance_stats: {})", q.capacity(), q.len(), st.capacity)); }
        if problem.is_none() { let f = guarded(|| (q.front().map(|e| e.id), q.back().map(|e| e.id)));
            match f { Ok((a, b)) => if a != shadow.front().copied() || b != shadow.back().copied() { problem = Some(format!("front/back = {:?}/{:?}, VecDeque {:?}/{:?}", a, b, shadow.front(), shadow.back())); },
                      Err(p) => problem = Some(format!("front/back panicked: {}", p)) } }
        if problem.is_none() { problem = live_mismatch(shadow.iter(), next_id); }
        if let Some(p) = problem { cx.sum.fail(cell, None, cj.clone(), &format!("after op {:?}: {}", o, p)); failed = true; break; }
        if observed_only { continue; }
        let mut e = ret; e.push(-7); e.extend(drops.iter().map(|&x| x as i128));
        e.extend([-8, st.length as i128, st.capacity as i128, st.head_index as i128, st.tail_index as i128]);
        expect.push(zlist(&e));
    }
    if !failed {
        // drain: the whole sequence, then Drop: nothing may remain alive
        let r = guarded(|| { let mut got = vec![]; let half = shadow.len() / 2;
            for _ in 0..half { if let Some(e) = q.pop_front() { got.push(e.id); } }
            let want: Vec<u64> = shadow.drain(..half).collect(); (got, want) });
        match r { Ok((got, want)) => if got != want { cx.sum.fail(cell, None, cj.clone(), &format!("draining returned {:?}, VecDeque {:?}", got, want)); failed = true; },
                  Err(p) => { cx.sum.fail(cell, None, cj.clone(), &format!("drain panicked: {}", p)); failed = true; } }
        let r = guarded(move || drop(q));
        if let Err(p) = r { cx.sum.fail(cell, None, cj.clone(), &format!("Drop panicked: {}", p)); failed = true; }
        else if let Some(p) = live_mismatch([].iter(), next_id) { cx.sum.fail(cell, None, cj.clone(), &format!("after Drop of the queue: {}", p)); failed = true; }
    } else { std::mem::forget(q); }
    if wrapped_growth { cx.sum.dist("ring_growth_while_wrapped"); }
    if !failed && (coq == Coq::Always || (coq == Coq::Budget && cx.room(cell))) {
        cx.shards.push(format!("C0 (CRing {} [{}] [{}])", cap0, coq_ops.join("; "), expect.join("; ")), cj);
    }
}

/// AutoGrowCircularQueue::pop_bulk into a slice whose values are identified (M+S: coq/C10/ModelRingBulk.v): `rot` push/pop pairs put
/// the head at an offset, `fill` elements are pushed (in bulk when `bulk`), then pop_bulk into a slice of `m` counted values. Compared:
/// the number returned, the slice afterwards, the values destroyed by the call (each overwritten value once, none of the others),
/// len / capacity / head / tail; afterwards everything is dropped and nothing may stay alive.
fn ring_into_case(cx: &mut Ctx, cap0: u64, rot: u64, fill: u64, bulk: bool, m: u64, coq: Coq) {
    let cell = "AutoGrowCircularQueue";
    let (rot, fill, m) = (rot.min(64), fill.min(64), m.min(64));
    cx.sum.eval(cell, &format!("ring_into {} {} {} {} {}", cap0, rot, fill, bulk, m), true);
    let cj = json!({"cell": "ring_into", "cap": cap0, "rot": rot, "fill": fill, "bulk": bulk, "m": m});
    if journal(&cj) { return; }
    reset_counters();
    let mut next_id: u64 = 0;
    let mut coq_ops: Vec<String> = vec![];
    let r = guarded(|| -> Result<String, String> {
        let mut q: AutoGrowCircularQueue<El> = AutoGrowCircularQueue::with_capacity(cap0 as usize);
        let mut shadow: VecDeque<u64> = VecDeque::new();
        for _ in 0..rot { let id = next_id; next_id += 1; coq_ops.push(format!("TQ (PushBack {})", id)); coq_ops.push("TQ PopFront".into());
            q.push_back(el(id)).map_err(|e| format!("push_back refused: {:?}", e))?; if q.pop_front().map(|e| e.id) != Some(id) { return Err("pop_front of the only element differs".into()); } }
        if bulk && fill > 0 { let ids: Vec<u64> = (0..fill).map(|i| next_id + i).collect(); next_id += fill; coq_ops.push(format!("TQ (PushBulk {})", nlist(&ids)));
            let items: Vec<El> = ids.iter().map(|&i| el(i)).collect(); q.push_bulk(&items).map_err(|e| format!("push_bulk refused: {:?}", e))?; shadow.extend(ids); }
        else { for _ in 0..fill { let id = next_id; next_id += 1; coq_ops.push(format!("TQ (PushBack {})", id)); q.push_back(el(id)).map_err(|e| format!("push_back refused: {:?}", e))?; shadow.push_back(id); } }
        let out_ids: Vec<u64> = (0..m).map(|i| next_id + i).collect(); next_id += m;
        let mut out: Vec<El> = out_ids.iter().map(|&i| el(i)).collect();
        take_drops();
        let n = q.pop_bulk(&mut out);
        let mut drops = take_drops(); drops.sort();
        let got: Vec<u64> = out.iter().map(|e| e.id).collect();
        let k = (m as usize).min(shadow.len());
        let mut want: Vec<u64> = shadow.drain(..k).collect(); want.extend(out_ids[k..].iter().copied());
        if n != k { return Err(format!("pop_bulk into {} slots with {} elements queued returned {}", m, k + shadow.len(), n)); }
        if got != want { return Err(format!("the slice holds {:?} after pop_bulk, `out[i] = pop_front()` gives {:?}", got, want)); }
        if drops != out_ids[..k] { return Err(format!("pop_bulk destroyed {:?}; the {} overwritten values of the slice are {:?} (each is dropped exactly once, nothing else)", drops, k, &out_ids[..k])); }
        let st = q.performance_stats();
        if q.len() != shadow.len() || q.front().map(|e| e.id) != shadow.front().copied() { return Err("len / front after pop_bulk differ from a VecDeque".into()); }
        let mut e: Vec<i128> = vec![n as i128]; e.extend(got.iter().map(|&x| x as i128)); e.push(-7); e.extend(drops.iter().map(|&x| x as i128));
        e.extend([-8, st.length as i128, st.capacity as i128, st.head_index as i128, st.tail_index as i128]);
        drop(out); drop(q);
        if let Some(p) = live_mismatch([].iter(), next_id) { return Err(format!("after Drop of the slice and the queue: {}", p)); }
        Ok(zlist(&e))
    });
    match r {
        Err(p) => cx.sum.fail(cell, None, cj, &format!("panicked: {}", p)),
        Ok(Err(d)) => cx.sum.fail(cell, None, cj, &d),
        Ok(Ok(e)) => if coq == Coq::Always || (coq == Coq::Budget && cx.room("AutoGrowCircularQueue/pop_bulk into a slice")) {
            let out_ids: Vec<u64> = (next_id - m..next_id).collect();
            cx.shards.push(format!("CRingInto {} [{}] {} {}", cap0, coq_ops.join("; "), nlist(&out_ids), e), cj); }
    }
}

// ---------------------------------------------------------------------------------------------
// FixedCircularQueue<El, N>   ops: [0] push_back  [1] pop_front  [5] clear  [6] front  [7] back
//                                  [9] push (alias)  [10] pop (alias)  [12] Debug; new() / Default by parity of the history length
// ---------------------------------------------------------------------------------------------
fn fixed_history_n<const N: usize>(cx: &mut Ctx, ops: &[Vec<u64>], coq: Coq) {
    let cell = "FixedCircularQueue";
    cx.sum.eval(cell, &format!("fixed {} {:?}", N, ops), ops.len() >= 3);
    let cj = json!({"cell": "fixed", "cap": N, "ops": ops});
    if journal(&cj) { return; }
    reset_counters();
    let mut next_id: u64 = 0;
    let mut q: FixedCircularQueue<El, N> = if ops.len() % 2 == 0 { FixedCircularQueue::new() } else { Default::default() };
    let mut shadow: VecDeque<u64> = VecDeque::new();
    let mut coq_ops: Vec<String> = vec![];
    let mut expect: Vec<String> = vec![];
    let mut failed = false;
    for o in ops {
        let code = op_arg(o, 0);
        take_drops();
        let mut ret: Vec<i128> = vec![0];
        let mut drops_o: Option<Vec<u64>> = None;
        let mut problem: Option<String> = None;
        let mut observed_only = false;
        let r = match code {
            0 | 9 => { let id = next_id; next_id += 1; coq_ops.push(format!("PushBack {}", id));
                   let x = el(id);
                   guarded(|| { let full = shadow.len() == N;
                       match if code == 0 { q.push_back(x) } else { q.push(x) } {
                           Ok(()) => { if full { problem = Some(format!("push_back accepted element {} beyond the capacity {}", id, N)); } shadow.push_back(id); }
                           Err(_) => { ret = vec![-1]; if !full { problem = Some(format!("push_back refused with {} of {} slots used", shadow.len(), N)); } } } }) }
            1 | 10 => { coq_ops.push("PopFront".into());
                   guarded(|| { let got = if code == 1 { q.pop_front() } else { q.pop() }; let gid = got.as_ref().map(|e| e.id); drops_o = Some(take_drops()); drop(got);
                       let want = shadow.pop_front(); ret = enc_opt(gid);
                       if gid != want { problem = Some(format!("pop_front returned {:?}, a VecDeque returns {:?}", gid, want)); } }) }
            12 => { observed_only = true;
                    guarded(|| { let got = debug_marked_ids(&format!("{:?}", q)); let want: Vec<u64> = shadow.iter().copied().collect();
                        if got != want { problem = Some(format!("Debug shows {:?}, a VecDeque holds {:?}", got, want)); } }) }
            5 => { coq_ops.push("Clear".into()); guarded(|| { q.clear(); shadow.clear(); }) }
            6 => { coq_ops.push("Front".into());
                   guarded(|| { let g = q.front().map(|e| e.id); ret = enc_opt(g);
                       if g != shadow.front().copied() { problem = Some(format!("front() = {:?}, VecDeque {:?}", g, shadow.front())); } }) }
            _ => { coq_ops.push("Back".into());
                   guarded(|| { let g = q.back().map(|e| e.id); ret = enc_opt(g);
                       if g != shadow.back().copied() { problem = Some(format!("back() = {:?}, VecDeque {:?}", g, shadow.back())); } }) }
        };
        let late = take_drops(); let mut drops = drops_o.unwrap_or(late); drops.sort();
        if let Err(p) = r { cx.sum.fail(cell, None, cj.clone(), &format!("op {:?} panicked: {}", o, p)); failed = true; break; }
        if problem.is_none() && q.capacity() != N { problem = Some(format!("capacity() = {} for FixedCircularQueue<_, {}>", q.capacity(), N)); }
        if problem.is_none() && (q.len() != shadow.len() || q.is_empty() != shadow.is_empty() || q.is_full() != (shadow.len() == N)) {
            problem = Some(format!("len() = {} / is_full() = {} but a bounded VecDeque holds {} of {}", q.len(), q.is_full(), shadow.len(), N)); }
        if problem.is_none() { let (a, b) = (q.front().map(|e| e.id), q.back().map(|e| e.id));
            if a != shadow.front().copied() || b != shadow.back().copied() { problem = Some(format!("front/back = {:?}/{:?}, VecDeque {:?}/{:?}", a, b, shadow.front(), shadow.back())); } }
        if problem.is_none() { problem = live_mismatch(shadow.iter(), next_id); }
        if let Some(p) = problem { cx.sum.fail(cell, None, cj.clone(), &format!("after op {:?}: {}", o, p)); failed = true; break; }
        if observed_only { continue; }
        let mut e = ret; e.push(-7); e.extend(drops.iter().map(|&x| x as i128)); e.extend([-8, q.len() as i128]);
        expect.push(zlist(&e));
    }
    if !failed {
        let r = guarded(move || drop(q));
        if let Err(p) = r { cx.sum.fail(cell, None, cj.clone(), &format!("Drop panicked: {}", p)); failed = true; }
        else if let Some(p) = live_mismatch([].iter(), next_id) { cx.sum.fail(cell, None, cj.clone(), &format!("after Drop of the queue: {}", p)); failed = true; }
    } else { std::mem::forget(q); }
    if !failed && (coq == Coq::Always || (coq == Coq::Budget && cx.room(cell))) {
        cx.shards.push(format!("C0 (CFixed {} [{}] [{}])", N, coq_ops.join("; "), expect.join("; ")), cj);
    }
}
fn fixed_history(cx: &mut Ctx, n: u64, ops: &[Vec<u64>], force: Coq) {
    match n { 1 => fixed_history_n::<1>(cx, ops, force), 2 => fixed_history_n::<2>(cx, ops, force), 3 => fixed_history_n::<3>(cx, ops, force),
              4 => fixed_history_n::<4>(cx, ops, force), 7 => fixed_history_n::<7>(cx, ops, force), 8 => fixed_history_n::<8>(cx, ops, force),
              9 => fixed_history_n::<9>(cx, ops, force), _ => fixed_history_n::<16>(cx, ops, force) }
}

// ---------------------------------------------------------------------------------------------
// vector operation vocabulary (all vector cells)
//  [0] push  [1] pop  [2,i] insert  [3,i] remove  [4,n] resize  [5] clear  [6] shrink_to_fit  [7,k] extend
//  [8,n] reserve  [9,i] get  [10] clone, drop original  [11,i] set  [12,n] truncate  [13,a,b] fill_range
//  [14,k] pop_bulk  [15,k] copy_from (replace contents by k new values)  [16,k] push_n  [17,n] ensure_capacity  [18,n] resize_with
//  [19,n] replace by with_size(n, x)  [20,i,acc] read through a secondary accessor  [21,i,acc] write through one
//  [22,k] == / compare_range  [23] Debug  [24,it] iterators  [25] unchecked push  [26,k] k pushes  [27] sync + open
//  case fields: "ctor" (other constructor / preset, 0 = with_capacity(cap)), "big" (amounts up to 2^21 instead of 400)
// ---------------------------------------------------------------------------------------------
fn fastvec_history(cx: &mut Ctx, cap0: u64, ops: &[Vec<u64>], coq: Coq) {
    let cell = "FastVec<El>";
    cx.sum.eval(cell, &format!("fastvec {} {:?}", cap0, ops), ops.len() >= 3);
    let cj = json!({"cell": "fastvec", "cap": cap0, "ops": ops});
    if journal(&cj) { return; }
    reset_counters();
    let mut next_id: u64 = 0;
    let mut v: FastVec<El> = if cap0 == 0 { FastVec::new() } else { FastVec::with_capacity(cap0 as usize).expect("with_capacity") };
    let mut shadow: Vec<u64> = vec![];
    let mut coq_ops: Vec<String> = vec![];
    let mut expect: Vec<String> = vec![];
    let mut failed = false;
    for o in ops {
        let code = op_arg(o, 0);
        let a = op_arg(o, 1).min(200);
        take_drops();
        let mut ret: Vec<i128> = vec![0];
        let mut drops_o: Option<Vec<u64>> = None;
        let mut problem: Option<String> = None;
        let r = match code {
            0 => { let id = next_id; next_id += 1; coq_ops.push(format!("TV (VPush {})", id)); let x = el(id);
                   guarded(|| match v.push(x) { Ok(()) => shadow.push(id), Err(e) => problem = Some(format!("push refused: {:?}", e)) }) }
            1 => { coq_ops.push("TV VPop".into());
                   guarded(|| { let got = v.pop(); let gid = got.as_ref().map(|e| e.id); drops_o = Some(take_drops()); drop(got);
                       let want = shadow.pop(); ret = enc_opt(gid);
                       if gid != want { problem = Some(format!("pop returned {:?}, a Vec returns {:?}", gid, want)); } }) }
            2 => { let id = next_id; next_id += 1; coq_ops.push(format!("TV (VInsert {} {})", a, id)); let x = el(id);
                   guarded(|| match v.insert(a as usize, x) {
                       Ok(()) => { if a as usize > shadow.len() { problem = Some(format!("insert at {} accepted with len {}", a, shadow.len())); } else { shadow.insert(a as usize, id); } }
                       Err(_) => { ret = vec![-1]; if a as usize <= shadow.len() { problem = Some(format!("insert at {} refused with len {}", a, shadow.len())); } } }) }
            3 => { coq_ops.push(format!("TV (VRemove {})", a));
                   guarded(|| { let got = v.remove(a as usize); let gid = got.as_ref().ok().map(|e| e.id); drops_o = Some(take_drops()); drop(got);
                       let want = if (a as usize) < shadow.len() { Some(shadow.remove(a as usize)) } else { None };
                       ret = match gid { Some(x) => vec![2, x as i128], None => vec![-1] };
                       if gid != want { problem = Some(format!("remove({}) returned {:?}, a Vec returns {:?}", a, gid, want)); } }) }
            4 => { let id = next_id; next_id += 1; coq_ops.push(format!("TV (VResize {} {})", a, id)); let x = el(id);
                   guarded(|| match v.resize(a as usize, x) { Ok(()) => shadow.resize(a as usize, id), Err(e) => problem = Some(format!("resize refused: {:?}", e)) }) }
            5 => { coq_ops.push("TV VClear".into()); guarded(|| { v.clear(); shadow.clear(); }) }
            6 => { coq_ops.push("TV VShrink".into()); guarded(|| if let Err(e) = v.shrink_to_fit() { problem = Some(format!("shrink_to_fit refused: {:?}", e)); }) }
            7 => { let k = a.min(40); let ids: Vec<u64> = (0..k).map(|i| next_id + i).collect(); next_id += k;
                   coq_ops.push(format!("TV (VExtend {})", nlist(&ids)));
                   let items: Vec<El> = ids.iter().map(|&i| el(i)).collect();
                   guarded(|| match v.extend(items) { Ok(()) => shadow.extend(ids.iter().copied()), Err(e) => problem = Some(format!("extend refused: {:?}", e)) }) }
            8 => { coq_ops.push(format!("TV (VReserve {})", a)); guarded(|| if let Err(e) = v.reserve(a as usize) { problem = Some(format!("reserve refused: {:?}", e)); }) }
            9 => { coq_ops.push(format!("TV (VGet {})", a));
                   guarded(|| { let g = v.as_slice().get(a as usize).map(|e| e.id); ret = enc_opt(g);
                       if g != shadow.get(a as usize).copied() { problem = Some(format!("get({}) = {:?}, Vec {:?}", a, g, shadow.get(a as usize))); } }) }
            _ => { coq_ops.push("TVClone".into());
                   guarded(|| { let c = v.clone(); let old = std::mem::replace(&mut v, c); drop(old); }) }
        };
        let late = take_drops(); let mut drops = drops_o.unwrap_or(late); drops.sort();
        if let Err(p) = r { cx.sum.fail(cell, None, cj.clone(), &format!("op {:?} panicked: {}", o, p)); failed = true; break; }
        if problem.is_none() { let got: Vec<u64> = v.as_slice().iter().map(|e| e.id).collect();
            if v.len() != shadow.len() || got != shadow { problem = Some(format!("holds {:?} (len {}), a Vec holds {:?}", got, v.len(), shadow)); } }
        if problem.is_none() && v.capacity() < v.len() { problem = Some("capacity below length".into()); }
        if problem.is_none() { problem = live_mismatch(shadow.iter(), next_id); }
        if let Some(p) = problem { cx.sum.fail(cell, None, cj.clone(), &format!("after op {:?}: {}", o, p)); failed = true; break; }
        let mut e = ret; e.push(-7); e.extend(drops.iter().map(|&x| x as i128)); e.extend([-8, v.len() as i128, v.capacity() as i128]);
        expect.push(zlist(&e));
    }
    if !failed {
        let r = guarded(move || drop(v));
        if let Err(p) = r { cx.sum.fail(cell, None, cj.clone(), &format!("Drop panicked: {}", p)); failed = true; }
        else if let Some(p) = live_mismatch([].iter(), next_id) { cx.sum.fail(cell, None, cj.clone(), &format!("after Drop of the vector: {}", p)); failed = true; }
    } else { std::mem::forget(v); }
    if !failed && (coq == Coq::Always || (coq == Coq::Budget && cx.room(cell))) {
        cx.shards.push(format!("C0 (CVec {} [{}] [{}])", cap0, coq_ops.join("; "), expect.join("; ")), cj);
    }
}

// ----- S-only vector cells behind one small interface -----
trait Elem: Sized {
    const COUNTED: bool;
    /// false for zero-sized elements (all values are equal)
    const DISTINCT: bool = true;
    fn make(id: u64) -> Self;
    fn id(&self) -> u64;
    /// a value whose id is not `cur` (owned by the harness, never counted)
    fn other_than(cur: u64) -> Self { let mut k = 0; loop { let x = Self::make(k); if x.id() != cur { return x; } k += 1; } }
    /// the ids a Debug rendering of a list of such elements shows, in order - only element types that mark their ids
    /// (`El`) are compared: how a container lays out its Debug text is its own business
    fn parse_debug(_s: &str) -> Vec<u64> { vec![] }
}
impl Elem for El { const COUNTED: bool = true; fn make(id: u64) -> El { el(id) } fn id(&self) -> u64 { self.id }
    fn other_than(_cur: u64) -> El { el(PH) } fn parse_debug(s: &str) -> Vec<u64> { debug_marked_ids(s) } }
impl Elem for u64 { const COUNTED: bool = false; fn make(id: u64) -> u64 { id.wrapping_mul(0x9E3779B97F4A7C15) ^ 0x5555 } fn id(&self) -> u64 { *self } }
impl Elem for u8 { const COUNTED: bool = false; fn make(id: u64) -> u8 { (id * 7 + 1) as u8 } fn id(&self) -> u64 { *self as u64 } }
/// signed 2-byte elements (the 64-byte SIMD switch sits at 32 elements)
impl Elem for i16 { const COUNTED: bool = false; fn make(id: u64) -> i16 { (id as i64 * 12345 - 20000) as i16 } fn id(&self) -> u64 { *self as u16 as u64 } }
/// 16-byte elements with 16-byte alignment (4 elements per 64 bytes)
impl Elem for u128 { const COUNTED: bool = false; fn make(id: u64) -> u128 { (id as u128) | (((id ^ 0x5A5A) as u128) << 64) } fn id(&self) -> u64 { *self as u64 } }
/// 24-byte elements: the size is not a power of two and does not divide a cache line
#[derive(Clone, Copy, PartialEq, Debug)]
struct Wide(u64, u64, u64);
impl Elem for Wide { const COUNTED: bool = false; fn make(id: u64) -> Wide { Wide(id * 3 + 1, !id, id ^ 7) } fn id(&self) -> u64 { self.0 } }
/// zero-sized elements
impl Elem for () { const COUNTED: bool = false; const DISTINCT: bool = false; fn make(_id: u64) {} fn id(&self) -> u64 { 0 } fn other_than(_cur: u64) {} }

enum R<T> { Unsup, Unit, Refused, Val(Option<T>), List(Vec<T>) }
trait VecApi<T: Elem>: Sized {
    fn create(cap: usize) -> Self;
    /// the other constructors / presets of the cell ("ctor" of the case; 0 = `create`)
    fn create_alt(cap: usize, _alt: u64) -> Self { Self::create(cap) }
    fn fixed_capacity(&self) -> Option<usize> { None }
    fn len(&self) -> usize;
    fn ids(&self) -> Vec<u64>;
    fn get(&self, i: usize) -> Option<u64>;
    fn push(&mut self, _x: T) -> R<T> { R::Unsup }
    fn pop(&mut self) -> R<T> { R::Unsup }
    fn insert(&mut self, _i: usize, _x: T) -> R<T> { R::Unsup }
    fn remove(&mut self, _i: usize) -> R<T> { R::Unsup }
    fn resize(&mut self, _n: usize, _x: T) -> R<T> { R::Unsup }
    fn clear(&mut self) -> R<T> { R::Unsup }
    fn shrink(&mut self) -> R<T> { R::Unsup }
    fn extend(&mut self, _xs: Vec<T>) -> R<T> { R::Unsup }
    fn reserve(&mut self, _n: usize) -> R<T> { R::Unsup }
    fn clone_self(&self) -> Option<Self> { None }
    fn set(&mut self, _i: usize, _x: T) -> R<T> { R::Unsup }
    fn truncate(&mut self, _n: usize) -> R<T> { R::Unsup }
    fn fill_range(&mut self, _a: usize, _b: usize, _x: T) -> R<T> { R::Unsup }
    fn pop_bulk(&mut self, _k: usize) -> R<T> { R::Unsup }
    fn copy_from(&mut self, _xs: Vec<T>) -> R<T> { R::Unsup }
    fn push_n(&mut self, _k: usize, _x: T) -> R<T> { R::Unsup }
    fn ensure(&mut self, _n: usize) -> R<T> { R::Unsup }
    fn resize_with(&mut self, _n: usize, _mk: &mut dyn FnMut() -> T) -> R<T> { R::Unsup }
    /// [19] a new vector from the filling constructor
    fn with_size(_n: usize, _x: T) -> Option<Self> { None }
    /// [20] the secondary read accessors (Index, Deref, iterators, unchecked) - outer None: the cell has none
    fn read_alt(&self, _i: usize, _variant: u64) -> Option<Option<u64>> { None }
    /// [21] write through the secondary accessors (IndexMut, get_mut, as_mut_slice, iter_mut); Refused = index reported as out of range
    fn write_alt(&mut self, _i: usize, _x: T, _variant: u64) -> R<T> { R::Unsup }
    /// [22] PartialEq / range comparison against a clone, against differing contents and lengths; Some(Some(d)) = wrong answer
    fn eq_probe(&self, _k: u64) -> Option<Option<String>> { None }
    /// [23] the elements Debug shows
    fn debug_ids(&self) -> Option<Vec<u64>> { None }
    /// [24] the elements the iterators yield
    fn iter_ids(&self, _variant: u64) -> Option<Vec<u64>> { None }
    /// [25] push without the capacity check where the capacity is there, checked push otherwise
    fn push_unchecked(&mut self, _x: T) -> R<T> { R::Unsup }
    /// [27] write to the backing store, drop, open again
    fn reopen(&mut self) -> R<T> { R::Unsup }
    /// accessors that must agree with each other (len / len_usize / is_empty ...), after every operation
    fn aux(&self) -> Option<String> { None }
    fn capacity(&self) -> usize { 0 }
    /// M+S cells: the cell name under which Coq cases are budgeted, the head of the Coq case (constructor + initial
    /// parameters) and the Coq term of one operation (`vals` = the values created for it, `cap_after` = capacity after
    /// the operation); None = no mechanism model for this cell / operation
    fn coq_cell() -> Option<&'static str> { None }
    fn coq_head(_cap0: usize, _cap_init: usize) -> String { String::new() }
    fn coq_op(_code: u64, _a: usize, _b: usize, _vals: &[u64], _cap_after: usize) -> Option<String> { None }
}
fn enc_r<T: Elem>(r: &R<T>) -> Vec<i128> {
    match r { R::Unsup => vec![], R::Unit => vec![0], R::Refused => vec![-1], R::Val(None) => vec![1], R::Val(Some(x)) => vec![2, x.id() as i128],
              R::List(l) => { let mut v = vec![3]; v.extend(l.iter().map(|x| x.id() as i128)); v } }
}
fn unit<T, E>(r: Result<(), E>) -> R<T> { match r { Ok(()) => R::Unit, Err(_) => R::Refused } }

/// `==` of a container type against: its clone (both directions), a clone that differs in exactly one element (first,
/// middle, last, k-th) and a clone that is one element shorter. Everything built here is owned by the harness.
fn eq_probe_generic<C: PartialEq, T: Elem>(v: &C, len: usize, k: u64, clone: impl Fn(&C) -> C, id_at: impl Fn(&C, usize) -> u64,
                                           set: impl Fn(&mut C, usize, T), shorten: impl Fn(&mut C)) -> Option<String> {
    quiet(|| {
        let c = clone(v);
        if !(*v == c) || !(c == *v) || *v != c { return Some(format!("v == v.clone() is false ({} elements)", len)); }
        if len == 0 { return None; }
        if T::DISTINCT {
            let mut seen = vec![];
            for pos in [0, len / 2, len - 1, (k as usize) % len] {
                if seen.contains(&pos) { continue; } seen.push(pos);
                let mut d = clone(v);
                let cur = id_at(&d, pos);
                set(&mut d, pos, T::other_than(cur));
                if *v == d || d == *v { return Some(format!("== is true for two vectors of {} elements that differ at index {}", len, pos)); }
            }
        }
        let mut s = clone(v); shorten(&mut s);
        if *v == s || s == *v { return Some(format!("== is true for vectors of {} and {} elements", len, len - 1)); }
        None
    })
}

// ----- FastVec -----
fn fv_read_alt<T: Elem>(v: &FastVec<T>, i: usize, variant: u64) -> Option<u64> {
    if i >= v.len() { return if variant % 2 == 0 { v.as_slice().get(i).map(|x| x.id()) } else { (**v).get(i).map(|x| x.id()) }; }
    Some(match variant % 5 { 0 => v[i].id(), 1 => unsafe { v.get_unchecked(i) }.id(), 2 => (**v)[i].id(),
                             3 => v.iter().nth(i).map(|x| x.id()).unwrap_or(u64::MAX), _ => v.as_slice()[i].id() })
}
fn fv_write_alt<T: Elem>(v: &mut FastVec<T>, i: usize, x: T, variant: u64) -> R<T> {
    if i >= v.len() { return if v.as_mut_slice().get_mut(i).is_none() { R::Refused } else { R::Unit }; }
    match variant % 4 { 0 => v[i] = x, 1 => v.as_mut_slice()[i] = x, 2 => unsafe { *v.get_unchecked_mut(i) = x },
                        _ => { if let Some(s) = v.iter_mut().nth(i) { *s = x; } } }
    R::Unit
}
fn fv_eq_probe<T: Elem + Clone + PartialEq>(v: &FastVec<T>, k: u64) -> Option<String> {
    eq_probe_generic::<FastVec<T>, T>(v, v.len(), k, |c| c.clone(), |c, i| c.as_slice()[i].id(), |c, i, x| c.as_mut_slice()[i] = x, |c| { c.pop(); })
}
fn fv_iter_ids<T: Elem>(v: &FastVec<T>, variant: u64) -> Vec<u64> {
    match variant % 3 { 0 => v.iter().map(|x| x.id()).collect(), 1 => (&**v).into_iter().map(|x| x.id()).collect(), _ => { let mut o = vec![]; for i in 0..v.len() { o.push(v[i].id()); } o } }
}
fn fv_aux<T>(v: &FastVec<T>) -> Option<String> {
    if v.is_empty() != (v.len() == 0) { return Some("is_empty() disagrees with len()".into()); }
    if v.len() > 0 && (v.as_ptr().is_null() || v.as_ptr() != v.as_slice().as_ptr()) { return Some("as_ptr() is not where as_slice() starts".into()); }
    None
}

/// FastVec over the drop-counting element type, through the generic (oracle-only) history runner: the operations the
/// Coq-traced FastVec<El> cell does not have (resize_with, with_size, the secondary accessors, ==, Debug), with every
/// element construction and destruction counted.
struct FvEl(FastVec<El>);
impl VecApi<El> for FvEl {
    fn create(cap: usize) -> Self { FvEl(if cap == 0 { FastVec::new() } else { FastVec::with_capacity(cap).unwrap() }) }
    fn create_alt(cap: usize, alt: u64) -> Self { if alt == 1 { FvEl(Default::default()) } else { Self::create(cap) } }
    fn len(&self) -> usize { self.0.len() }
    fn ids(&self) -> Vec<u64> { self.0.as_slice().iter().map(|x| x.id()).collect() }
    fn get(&self, i: usize) -> Option<u64> { self.0.as_slice().get(i).map(|x| x.id()) }
    fn push(&mut self, x: El) -> R<El> { unit(self.0.push(x)) }
    fn pop(&mut self) -> R<El> { R::Val(self.0.pop()) }
    fn insert(&mut self, i: usize, x: El) -> R<El> { unit(self.0.insert(i, x)) }
    fn remove(&mut self, i: usize) -> R<El> { match self.0.remove(i) { Ok(x) => R::Val(Some(x)), Err(_) => R::Refused } }
    fn resize(&mut self, n: usize, x: El) -> R<El> { unit(self.0.resize(n, x)) }
    fn clear(&mut self) -> R<El> { self.0.clear(); R::Unit }
    fn shrink(&mut self) -> R<El> { unit(self.0.shrink_to_fit()) }
    fn extend(&mut self, xs: Vec<El>) -> R<El> { unit(self.0.extend(xs)) }
    fn reserve(&mut self, n: usize) -> R<El> { unit(self.0.reserve(n)) }
    fn clone_self(&self) -> Option<Self> { Some(FvEl(self.0.clone())) }
    fn resize_with(&mut self, n: usize, mk: &mut dyn FnMut() -> El) -> R<El> { unit(self.0.resize_with(n, || mk())) }
    fn with_size(n: usize, x: El) -> Option<Self> { FastVec::with_size(n, x).ok().map(FvEl) }
    fn read_alt(&self, i: usize, variant: u64) -> Option<Option<u64>> { Some(fv_read_alt(&self.0, i, variant)) }
    fn write_alt(&mut self, i: usize, x: El, variant: u64) -> R<El> { fv_write_alt(&mut self.0, i, x, variant) }
    fn eq_probe(&self, k: u64) -> Option<Option<String>> { Some(fv_eq_probe(&self.0, k)) }
    fn debug_ids(&self) -> Option<Vec<u64>> { Some(El::parse_debug(&format!("{:?}", self.0))) }
    fn iter_ids(&self, variant: u64) -> Option<Vec<u64>> { Some(fv_iter_ids(&self.0, variant)) }
    fn aux(&self) -> Option<String> { fv_aux(&self.0) }
    fn capacity(&self) -> usize { self.0.capacity() }
}

impl<T: Elem + Clone + Copy + PartialEq + std::fmt::Debug> VecApi<T> for FastVec<T> {
    fn create(cap: usize) -> Self { if cap == 0 { FastVec::new() } else { FastVec::with_capacity(cap).unwrap() } }
    fn create_alt(cap: usize, alt: u64) -> Self { if alt == 1 { Default::default() } else { Self::create(cap) } }
    fn len(&self) -> usize { FastVec::len(self) }
    fn ids(&self) -> Vec<u64> { self.as_slice().iter().map(|x| x.id()).collect() }
    fn get(&self, i: usize) -> Option<u64> { self.as_slice().get(i).map(|x| x.id()) }
    fn push(&mut self, x: T) -> R<T> { unit(FastVec::push(self, x)) }
    fn pop(&mut self) -> R<T> { R::Val(FastVec::pop(self)) }
    fn insert(&mut self, i: usize, x: T) -> R<T> { unit(FastVec::insert(self, i, x)) }
    fn remove(&mut self, i: usize) -> R<T> { match FastVec::remove(self, i) { Ok(x) => R::Val(Some(x)), Err(_) => R::Refused } }
    fn resize(&mut self, n: usize, x: T) -> R<T> { unit(FastVec::resize(self, n, x)) }
    fn clear(&mut self) -> R<T> { FastVec::clear(self); R::Unit }
    fn shrink(&mut self) -> R<T> { unit(self.shrink_to_fit()) }
    fn extend(&mut self, xs: Vec<T>) -> R<T> { if xs.len() % 2 == 0 { unit(FastVec::extend(self, xs)) } else { unit(self.extend_from_slice_fast(&xs)) } }
    fn reserve(&mut self, n: usize) -> R<T> { unit(FastVec::reserve(self, n)) }
    fn clone_self(&self) -> Option<Self> { let c = self.clone(); if c != *self { return Some(FastVec::new()); } Some(c) }
    fn fill_range(&mut self, a: usize, b: usize, x: T) -> R<T> { unit(self.fill_range_fast(a, b, x)) }
    fn copy_from(&mut self, xs: Vec<T>) -> R<T> { if risky_off() { R::Unsup } else { unit(self.copy_from_slice_fast(&xs)) } }
    fn ensure(&mut self, n: usize) -> R<T> { if risky_off() { R::Unsup } else { unit(self.ensure_capacity(n)) } }
    fn resize_with(&mut self, n: usize, mk: &mut dyn FnMut() -> T) -> R<T> { unit(FastVec::resize_with(self, n, || mk())) }
    fn with_size(n: usize, x: T) -> Option<Self> { FastVec::with_size(n, x).ok() }
    fn read_alt(&self, i: usize, variant: u64) -> Option<Option<u64>> { Some(fv_read_alt(self, i, variant)) }
    fn write_alt(&mut self, i: usize, x: T, variant: u64) -> R<T> { fv_write_alt(self, i, x, variant) }
    fn eq_probe(&self, k: u64) -> Option<Option<String>> { Some(fv_eq_probe(self, k)) }
    fn debug_ids(&self) -> Option<Vec<u64>> { let s = format!("{:?}", self); if T::COUNTED { Some(T::parse_debug(&s)) } else { None } }
    fn iter_ids(&self, variant: u64) -> Option<Vec<u64>> { Some(fv_iter_ids(self, variant)) }
    fn aux(&self) -> Option<String> { fv_aux(self) }
    fn capacity(&self) -> usize { FastVec::capacity(self) }
    fn coq_cell() -> Option<&'static str> { match std::mem::size_of::<T>() { 1 => Some("FastVec<u8>"), 8 => Some("FastVec<u64>"), _ => None } }
    fn coq_head(cap0: usize, _cap_init: usize) -> String { format!("CVecC {} {}", std::mem::size_of::<T>(), cap0) }
    fn coq_op(code: u64, a: usize, b: usize, vals: &[u64], _cap_after: usize) -> Option<String> {
        Some(match code { 0 => format!("TC (CPush {})", vals[0]), 1 => "TC CPop".into(), 2 => format!("TC (CInsert {} {})", a, vals[0]), 3 => format!("TC (CRemove {})", a),
                          4 => format!("TC (CResize {} {})", a, vals[0]), 5 => "TC CClear".into(), 6 => "TC CShrink".into(),
                          7 => format!("TC ({} {})", if vals.len() % 2 == 0 { "CExtend" } else { "CExtendFast" }, nlist(vals)),
                          8 => format!("TC (CReserve {})", a), 9 => format!("TC (CGet {})", a), 10 => "TCClone".into(), 13 => format!("TC (CFill {} {} {})", a, b, vals[0]),
                          15 => format!("TC (CCopyFrom {})", nlist(vals)), 17 => format!("TC (CEnsure {})", a), _ => return None })
    }
}

// ----- ValVec32 -----
fn vv_create_alt<T>(cap: usize, alt: u64) -> ValVec32<T> {
    match alt { 1 => ValVec32::new(), 2 => Default::default(),
                3 => { let pool = zipora::memory::SecureMemoryPool::new(zipora::memory::SecurePoolConfig::small_secure()).expect("secure pool");
                       ValVec32::with_secure_pool(cap as u32, pool).unwrap() }
                _ => ValVec32::with_capacity(cap as u32).unwrap() }
}
fn vv_read_alt<T: Elem>(v: &ValVec32<T>, i: usize, variant: u64) -> Option<u64> {
    if i >= v.len() as usize { return if variant % 2 == 0 { v.as_slice().get(i).map(|x| x.id()) } else { v.iter().nth(i).map(|x| x.id()) }; }
    Some(match variant % 5 { 0 => v[i].id(), 1 => v[i as u32].id(), 2 => v.as_slice()[i].id(), 3 => v.iter().nth(i).map(|x| x.id()).unwrap_or(u64::MAX),
                             _ => v.into_iter().nth(i).map(|x| x.id()).unwrap_or(u64::MAX) })
}
fn vv_write_alt<T: Elem>(v: &mut ValVec32<T>, i: usize, x: T, variant: u64) -> R<T> {
    if i >= v.len() as usize { return if v.get_mut(i as u32).is_none() && v.as_mut_slice().get_mut(i).is_none() { R::Refused } else { R::Unit }; }
    match variant % 6 { 0 => v[i] = x, 1 => v[i as u32] = x, 2 => { if let Some(s) = v.get_mut(i as u32) { *s = x; } else { return R::Refused; } }
                        3 => v.as_mut_slice()[i] = x, 4 => { if let Some(s) = v.iter_mut().nth(i) { *s = x; } }
                        _ => { if let Some(s) = (&mut *v).into_iter().nth(i) { *s = x; } } }
    R::Unit
}
fn vv_eq_probe<T: Elem + Clone + PartialEq>(v: &ValVec32<T>, k: u64) -> Option<String> {
    eq_probe_generic::<ValVec32<T>, T>(v, v.len() as usize, k, |c| c.clone(), |c, i| c.get(i as u32).map(|x| x.id()).unwrap_or(u64::MAX),
                                      |c, i, x| { let _ = c.set(i as u32, x); }, |c| { c.pop(); })
}
fn vv_iter_ids<T: Elem>(v: &ValVec32<T>, variant: u64) -> Vec<u64> {
    match variant % 3 { 0 => v.iter().map(|x| x.id()).collect(), 1 => v.into_iter().map(|x| x.id()).collect(), _ => { let mut o = vec![]; for i in 0..v.len() { o.push(v[i].id()); } o } }
}
fn vv_aux<T>(v: &ValVec32<T>) -> Option<String> {
    if v.len_usize() != v.len() as usize || v.capacity_usize() != v.capacity() as usize || v.is_empty() != (v.len() == 0) { return Some("len_usize / capacity_usize / is_empty disagree with len / capacity".into()); }
    if v.capacity() < v.len() { return Some("capacity below length".into()); }
    None
}
fn vv_push_unchecked<T>(v: &mut ValVec32<T>, x: T) -> R<T> { if v.len() < v.capacity() { unsafe { v.unchecked_push(x); } R::Unit } else { unit(v.push(x)) } }
impl<T: Elem + Clone + PartialEq + std::fmt::Debug> VecApi<T> for ValVec32<T> {
    fn create(cap: usize) -> Self { ValVec32::with_capacity(cap as u32).unwrap() }
    fn create_alt(cap: usize, alt: u64) -> Self { vv_create_alt(cap, alt) }
    fn len(&self) -> usize { ValVec32::len(self) as usize }
    fn ids(&self) -> Vec<u64> { self.iter().map(|x| x.id()).collect() }
    fn get(&self, i: usize) -> Option<u64> { ValVec32::get(self, i as u32).map(|x| x.id()) }
    fn push(&mut self, x: T) -> R<T> { unit(ValVec32::push(self, x)) }
    fn pop(&mut self) -> R<T> { R::Val(ValVec32::pop(self)) }
    fn clear(&mut self) -> R<T> { ValVec32::clear(self); R::Unit }
    fn extend(&mut self, xs: Vec<T>) -> R<T> { let r = unit(self.extend_from_slice(&xs)); quiet(move || drop(xs)); r }
    fn reserve(&mut self, n: usize) -> R<T> { unit(ValVec32::reserve(self, n as u32)) }
    fn clone_self(&self) -> Option<Self> { Some(self.clone()) }
    fn set(&mut self, i: usize, x: T) -> R<T> { unit(ValVec32::set(self, i as u32, x)) }
    fn read_alt(&self, i: usize, variant: u64) -> Option<Option<u64>> { Some(vv_read_alt(self, i, variant)) }
    fn write_alt(&mut self, i: usize, x: T, variant: u64) -> R<T> { vv_write_alt(self, i, x, variant) }
    fn eq_probe(&self, k: u64) -> Option<Option<String>> { Some(vv_eq_probe(self, k)) }
    fn debug_ids(&self) -> Option<Vec<u64>> { let s = format!("{:?}", self); if T::COUNTED { Some(T::parse_debug(&s)) } else { None } }
    fn iter_ids(&self, variant: u64) -> Option<Vec<u64>> { Some(vv_iter_ids(self, variant)) }
    fn push_unchecked(&mut self, x: T) -> R<T> { vv_push_unchecked(self, x) }
    fn aux(&self) -> Option<String> { vv_aux(self) }
    fn capacity(&self) -> usize { ValVec32::capacity(self) as usize }
    fn coq_cell() -> Option<&'static str> { if T::COUNTED { Some("ValVec32<El>") } else { None } }
    fn coq_head(cap0: usize, cap_init: usize) -> String { format!("CVV {} {} {}", coq_bool(T::COUNTED), cap0, cap_init) }
    fn coq_op(code: u64, a: usize, _b: usize, vals: &[u64], cap_after: usize) -> Option<String> {
        Some(match code { 0 | 25 => format!("TW (WPush {})", vals[0]), 1 => "TW WPop".into(), 5 => "TW WClear".into(), 7 => format!("TW (WExtend {})", nlist(vals)),
                          8 => format!("TW (WReserve {})", a), 9 => format!("TW (WGet {})", a), 10 => format!("TWClone {}", cap_after),
                          11 => format!("TW (WSet {} {})", a, vals[0]), _ => return None })
    }
}
/// ValVec32 through its Copy-only entry points (push_panic, extend_from_slice_copy, push_n_copy, unchecked_push_copy)
struct VVC<T>(ValVec32<T>);
impl<T: Elem + Copy + PartialEq + std::fmt::Debug> VecApi<T> for VVC<T> {
    fn create(cap: usize) -> Self { VVC(ValVec32::with_capacity(cap as u32).unwrap()) }
    fn create_alt(cap: usize, alt: u64) -> Self { VVC(vv_create_alt(cap, alt)) }
    fn len(&self) -> usize { self.0.len() as usize }
    fn ids(&self) -> Vec<u64> { self.0.as_slice().iter().map(|x| x.id()).collect() }
    fn get(&self, i: usize) -> Option<u64> { self.0.get(i as u32).map(|x| x.id()) }
    fn push(&mut self, x: T) -> R<T> { self.0.push_panic(x); R::Unit }
    fn pop(&mut self) -> R<T> { R::Val(self.0.pop()) }
    fn clear(&mut self) -> R<T> { self.0.clear(); R::Unit }
    fn extend(&mut self, xs: Vec<T>) -> R<T> { unit(self.0.extend_from_slice_copy(&xs)) }
    fn reserve(&mut self, n: usize) -> R<T> { unit(self.0.reserve(n as u32)) }
    fn clone_self(&self) -> Option<Self> { Some(VVC(self.0.clone())) }
    fn set(&mut self, i: usize, x: T) -> R<T> { unit(self.0.set(i as u32, x)) }
    fn push_n(&mut self, k: usize, x: T) -> R<T> { unit(self.0.push_n_copy(k as u32, x)) }
    fn read_alt(&self, i: usize, variant: u64) -> Option<Option<u64>> { Some(vv_read_alt(&self.0, i, variant)) }
    fn write_alt(&mut self, i: usize, x: T, variant: u64) -> R<T> { vv_write_alt(&mut self.0, i, x, variant) }
    fn eq_probe(&self, k: u64) -> Option<Option<String>> { Some(vv_eq_probe(&self.0, k)) }
    fn debug_ids(&self) -> Option<Vec<u64>> { let _ = format!("{:?}", self.0); None }
    fn iter_ids(&self, variant: u64) -> Option<Vec<u64>> { Some(vv_iter_ids(&self.0, variant)) }
    fn push_unchecked(&mut self, x: T) -> R<T> { if self.0.len() < self.0.capacity() { unsafe { self.0.unchecked_push_copy(x); } R::Unit } else { self.0.push_panic(x); R::Unit } }
    fn aux(&self) -> Option<String> { vv_aux(&self.0) }
    fn capacity(&self) -> usize { self.0.capacity() as usize }
    fn coq_cell() -> Option<&'static str> { if std::mem::size_of::<T>() == 8 { Some("ValVec32<u64>") } else { None } }
    fn coq_head(cap0: usize, cap_init: usize) -> String { format!("CVV false {} {}", cap0, cap_init) }
    fn coq_op(code: u64, a: usize, _b: usize, vals: &[u64], cap_after: usize) -> Option<String> {
        Some(match code { 0 | 25 => format!("TW (WPushPanic {})", vals[0]), 1 => "TW WPop".into(), 5 => "TW WClear".into(), 7 => format!("TW (WExtendCopy {})", nlist(vals)),
                          8 => format!("TW (WReserve {})", a), 9 => format!("TW (WGet {})", a), 10 => format!("TWClone {}", cap_after),
                          11 => format!("TW (WSet {} {})", a, vals[0]), 16 => format!("TW (WPushN {} {})", a.min(200), vals[0]), _ => return None })
    }
}
type VV64 = VVC<u64>;

// ----- memory::cache::CacheAlignedVec -----
impl<T: Elem> VecApi<T> for CacheAlignedVec<T> {
    fn create(cap: usize) -> Self { if cap == 0 { CacheAlignedVec::new() } else { CacheAlignedVec::with_capacity(cap).unwrap() } }
    fn create_alt(cap: usize, alt: u64) -> Self { match alt { 1 => CacheAlignedVec::with_numa_node(0), 2 => Default::default(), _ => Self::create(cap) } }
    fn len(&self) -> usize { CacheAlignedVec::len(self) }
    fn ids(&self) -> Vec<u64> { self.as_slice().iter().map(|x| x.id()).collect() }
    fn get(&self, i: usize) -> Option<u64> { CacheAlignedVec::get(self, i).map(|x| x.id()) }
    fn push(&mut self, x: T) -> R<T> { unit(CacheAlignedVec::push(self, x)) }
    fn pop(&mut self) -> R<T> { R::Val(CacheAlignedVec::pop(self)) }
    fn clear(&mut self) -> R<T> { CacheAlignedVec::clear(self); R::Unit }
    fn reserve(&mut self, n: usize) -> R<T> { unit(CacheAlignedVec::reserve(self, n)) }
    fn truncate(&mut self, n: usize) -> R<T> { CacheAlignedVec::truncate(self, n); R::Unit }
    fn read_alt(&self, i: usize, _variant: u64) -> Option<Option<u64>> { Some(self.as_slice().get(i).map(|x| x.id())) }
    fn write_alt(&mut self, i: usize, x: T, variant: u64) -> R<T> {
        if variant % 2 == 0 { match self.get_mut(i) { Some(s) => { *s = x; R::Unit } None => R::Refused } }
        else { match self.as_mut_slice().get_mut(i) { Some(s) => { *s = x; R::Unit } None => R::Refused } } }
    fn aux(&self) -> Option<String> { if self.is_empty() != (CacheAlignedVec::len(self) == 0) || CacheAlignedVec::capacity(self) < CacheAlignedVec::len(self) { Some("is_empty / capacity disagree with len".into()) } else { None } }
    fn capacity(&self) -> usize { CacheAlignedVec::capacity(self) }
    // mechanism model: coq/C10/ModelCacheVec.v (drop-counting elements and one-byte elements)
    fn coq_cell() -> Option<&'static str> { if T::COUNTED { Some("CacheAlignedVec<El>") } else if std::mem::size_of::<T>() == 1 { Some("CacheAlignedVec<u8>") } else { None } }
    fn coq_head(cap0: usize, _cap_init: usize) -> String { format!("CCav {} {} {}", T::COUNTED, std::mem::size_of::<T>(), cap0) }
    fn coq_op(code: u64, a: usize, _b: usize, vals: &[u64], _cap_after: usize) -> Option<String> {
        Some(match code { 0 => format!("APush {}", vals[0]), 1 => "APop".into(), 5 => "AClear".into(), 8 => format!("AReserve {}", a), 9 => format!("AGet {}", a),
                          12 => format!("ATruncate {}", a), _ => return None })
    }
}
struct Layout64(zipora::memory::cache_layout::CacheAlignedVec<u64>);
impl VecApi<u64> for Layout64 {
    fn create(cap: usize) -> Self {
        use zipora::memory::cache_layout::AccessPattern as P;
        if cap % 7 == 5 { return Layout64(zipora::memory::cache_layout::CacheAlignedVec::new()); }
        if cap % 7 == 6 { return Layout64(Default::default()); }
        let p = [P::Sequential, P::Random, P::WriteHeavy, P::ReadHeavy, P::Mixed][cap % 5];
        Layout64(zipora::memory::cache_layout::CacheAlignedVec::with_access_pattern(p)) }
    fn len(&self) -> usize { self.0.len() }
    fn ids(&self) -> Vec<u64> { self.0.as_slice().to_vec() }
    fn get(&self, i: usize) -> Option<u64> { self.0.get(i).copied() }
    fn push(&mut self, x: u64) -> R<u64> { self.0.push(x); R::Unit }
    /// slice(range): the range ending one past `i`, of length 1, (variant mod 4) or everything
    fn read_alt(&self, i: usize, variant: u64) -> Option<Option<u64>> {
        let w = match variant % 3 { 0 => 1, 1 => (variant as usize % 4 + 1).min(i + 1), _ => i + 1 };
        Some(self.0.slice(i + 1 - w..i + 1).and_then(|s| s.last().copied())) }
    fn aux(&self) -> Option<String> { if self.0.is_empty() != (self.0.len() == 0) { Some("is_empty() disagrees with len()".into()) } else { None } }
}

// ----- BumpVec -----
struct Bump(BumpVec<'static, El>, usize);
impl VecApi<El> for Bump {
    fn create(cap: usize) -> Self {
        let cap = cap.max(1);
        let a: &'static BumpAllocator = Box::leak(Box::new(BumpAllocator::new(cap * 8 + 64).unwrap()));
        Bump(BumpVec::new_in(a, cap).unwrap(), cap) }
    fn fixed_capacity(&self) -> Option<usize> { Some(self.1) }
    fn len(&self) -> usize { self.0.len() }
    fn ids(&self) -> Vec<u64> { self.0.as_slice().iter().map(|x| x.id).collect() }
    fn get(&self, i: usize) -> Option<u64> { self.0.as_slice().get(i).map(|x| x.id) }
    fn push(&mut self, x: El) -> R<El> { unit(self.0.push(x)) }
    fn pop(&mut self) -> R<El> { R::Val(self.0.pop()) }
    fn write_alt(&mut self, i: usize, x: El, _variant: u64) -> R<El> { match self.0.as_mut_slice().get_mut(i) { Some(s) => { *s = x; R::Unit } None => R::Refused } }
    fn aux(&self) -> Option<String> { if self.0.capacity() != self.1 || self.0.is_empty() != (self.0.len() == 0) { Some(format!("capacity() = {} for a BumpVec of capacity {}", self.0.capacity(), self.1)) } else { None } }
    fn capacity(&self) -> usize { self.0.capacity() }
    // mechanism model: coq/C10/ModelCacheVec.v
    fn coq_cell() -> Option<&'static str> { Some("BumpVec<El>") }
    fn coq_head(cap0: usize, _cap_init: usize) -> String { format!("CBump {}", cap0.max(1)) }
    fn coq_op(code: u64, a: usize, _b: usize, vals: &[u64], _cap_after: usize) -> Option<String> {
        Some(match code { 0 => format!("BPush {}", vals[0]), 1 => "BPop".into(), 9 => format!("BGet {}", a), _ => return None })
    }
}

// ----- MmapVec -----
struct Mm<T: Copy + 'static> { v: Option<MmapVec<T>>, path: std::path::PathBuf, cfg: MmapVecConfig, temp: bool }
impl<T: Copy + 'static> Drop for Mm<T> { fn drop(&mut self) { self.v = None; let _ = std::fs::remove_file(&self.path); } }
thread_local! { static MM_N: RefCell<u64> = RefCell::new(0); }
fn mm_path() -> std::path::PathBuf {
    let n = MM_N.with(|c| { *c.borrow_mut() += 1; *c.borrow() });
    mm_dir().join(format!("zv_c10_{}_{}.dat", std::process::id(), n))
}
/// where the backing files of the MmapVec cells live: a memory file system if there is one (every growth of an MmapVec
/// rewrites and fsyncs its file; what reaches the disk is C19's subject, not this property's)
fn mm_dir() -> std::path::PathBuf {
    let shm = std::path::Path::new("/dev/shm");
    if shm.is_dir() && std::fs::metadata(shm).map(|m| !m.permissions().readonly()).unwrap_or(false) { shm.to_path_buf() } else { std::env::temp_dir() }
}
/// "ctor" of the MmapVec cells: 0 builder with the initial capacity of the case, 1..5 the presets (persistent_cache with a
/// small initial capacity so that its sync-on-write stays cheap), 6/7/11 growth factors 1.0 / 3.0 / 0.5, 8 with_capacity_simd,
/// 9 every builder switch on, 10 Default, 12 persistent_cache as it is
fn mm_config(cap: usize, alt: u64) -> MmapVecConfig {
    match alt {
        1 => MmapVecConfig::performance_optimized(), 2 => MmapVecConfig::memory_optimized(), 3 => MmapVecConfig::realtime(),
        4 => MmapVecConfig { initial_capacity: cap.max(1), ..MmapVecConfig::persistent_cache() }, 5 => MmapVecConfig::large_dataset(),
        6 => MmapVecConfig::builder().with_initial_capacity(cap).with_growth_factor(1.0).build(),
        7 => MmapVecConfig::builder().with_initial_capacity(cap).with_growth_factor(3.0).build(),
        9 => MmapVecConfigBuilder::default().with_initial_capacity(cap).with_sync_on_write(true).with_populate_pages(true).with_huge_pages(true).with_read_only(false).build(),
        10 => MmapVecConfig::default(),
        11 => MmapVecConfigBuilder::new().with_initial_capacity(cap).with_growth_factor(0.5).build(),
        12 => MmapVecConfig::persistent_cache(),
        _ => MmapVecConfig::builder().with_initial_capacity(cap).build(),
    }
}
impl<T: Copy + 'static> Mm<T> {
    fn r(&self) -> &MmapVec<T> { self.v.as_ref().expect("mmap vec") }
    fn m(&mut self) -> &mut MmapVec<T> { self.v.as_mut().expect("mmap vec") }
    fn scratch(xs: &[T]) -> Option<Mm<T>> {
        let p = mm_path();
        let mut o = MmapVec::<T>::create(&p, MmapVecConfig::builder().with_initial_capacity(1).build()).ok()?;
        if xs.len() % 2 == 0 { o.extend(xs.iter().copied()).ok()?; } else { o.push_bulk_simd(xs).ok()?; }
        Some(Mm { v: Some(o), path: p, cfg: MmapVecConfig::default(), temp: false })
    }
}
impl<T: Elem + Copy + PartialEq + 'static> VecApi<T> for Mm<T> {
    fn create(cap: usize) -> Self { Self::create_alt(cap, 0) }
    fn create_alt(cap: usize, alt: u64) -> Self {
        if alt == 8 { let v = MmapVec::<T>::with_capacity_simd(cap).unwrap(); let p = v.path().to_path_buf(); return Mm { v: Some(v), path: p, cfg: MmapVecConfig::default(), temp: true }; }
        let p = mm_path(); let cfg = mm_config(cap, alt);
        Mm { v: Some(MmapVec::create(&p, cfg.clone()).unwrap()), path: p, cfg, temp: false } }
    fn len(&self) -> usize { self.r().len() }
    fn ids(&self) -> Vec<u64> { self.r().as_slice().iter().map(|x| x.id()).collect() }
    fn get(&self, i: usize) -> Option<u64> { self.r().get(i).map(|x| x.id()) }
    fn push(&mut self, x: T) -> R<T> { unit(self.m().push(x)) }
    fn pop(&mut self) -> R<T> { R::Val(self.m().pop()) }
    fn resize(&mut self, n: usize, x: T) -> R<T> { unit(self.m().resize(n, x)) }
    fn clear(&mut self) -> R<T> { unit(self.m().clear()) }
    fn shrink(&mut self) -> R<T> { unit(self.m().shrink_to_fit()) }
    fn extend(&mut self, xs: Vec<T>) -> R<T> {
        // extend with an exact size hint, extend with none (no reservation up front), push_bulk_simd
        match xs.len() % 4 { 0 => unit(self.m().extend(xs)), 2 => unit(self.m().extend(xs.into_iter().filter(|_| true))), _ => unit(self.m().push_bulk_simd(&xs)) } }
    fn reserve(&mut self, n: usize) -> R<T> { unit(self.m().reserve(n)) }
    fn truncate(&mut self, n: usize) -> R<T> { unit(self.m().truncate(n)) }
    fn fill_range(&mut self, a: usize, b: usize, x: T) -> R<T> { unit(self.m().fill_range_simd(a..b, x)) }
    fn pop_bulk(&mut self, k: usize) -> R<T> { match self.m().pop_bulk_simd(k) { Ok(v) => R::List(v), Err(_) => R::Refused } }
    fn copy_from(&mut self, xs: Vec<T>) -> R<T> {
        match Mm::<T>::scratch(&xs) { Some(o) => unit(self.m().copy_from_simd(o.r())), None => R::Refused } }
    fn read_alt(&self, i: usize, variant: u64) -> Option<Option<u64>> {
        Some(match variant % 3 { 0 => self.r().as_slice().get(i).map(|x| x.id()),
                                 1 => { let it = self.r().into_iter(); if it.len() != self.r().len() { return Some(Some(u64::MAX)); } let mut it = it; it.nth(i).map(|x| x.id()) }
                                 _ => self.r().into_iter().skip(i).next().map(|x| x.id()) }) }
    fn write_alt(&mut self, i: usize, x: T, variant: u64) -> R<T> {
        if variant % 2 == 0 { match self.m().get_mut(i) { Some(s) => { *s = x; R::Unit } None => R::Refused } }
        else { match self.m().as_mut_slice().get_mut(i) { Some(s) => { *s = x; R::Unit } None => R::Refused } } }
    /// compare_range_simd: a range of this vector against a second vector that starts with the same elements, with one
    /// of them changed, that is too short; and a range that ends beyond the length
    fn eq_probe(&self, k: u64) -> Option<Option<String>> {
        let v = self.r(); let n = v.len(); let all = v.as_slice().to_vec();
        let a = (k as usize) % (n + 1); let b = a + ((k / 7) as usize) % (n - a + 1);
        let mut other: Vec<T> = all[a..b].to_vec(); other.extend(all.iter().take((k % 3) as usize).copied());
        let o = match Mm::<T>::scratch(&other) { Some(o) => o, None => return Some(Some("cannot build the vector to compare with".into())) };
        match v.compare_range_simd(a..b, o.r()) { Ok(true) => {}, r => return Some(Some(format!("compare_range_simd({}..{}) against the same {} elements = {:?}", a, b, b - a, r.ok()))) }
        if v.compare_range_simd(a..n + 1, o.r()).is_ok() { return Some(Some(format!("compare_range_simd with a range ending at {} accepted with len {}", n + 1, n))); }
        if b > a && T::DISTINCT {
            for pos in [0, (b - a) / 2, b - a - 1, ((k / 3) as usize) % (b - a)] {
                let mut ch = other.clone(); ch[pos] = T::other_than(ch[pos].id());
                let o2 = match Mm::<T>::scratch(&ch) { Some(o) => o, None => return Some(Some("cannot build the vector to compare with".into())) };
                match v.compare_range_simd(a..b, o2.r()) { Ok(false) => {}, r => return Some(Some(format!("compare_range_simd({}..{}) = {:?} against elements that differ at offset {}", a, b, r.ok(), pos))) }
            }
            let short = match Mm::<T>::scratch(&all[a..b - 1]) { Some(o) => o, None => return Some(None) };
            if let Ok(true) = v.compare_range_simd(a..b, short.r()) { return Some(Some(format!("compare_range_simd({}..{}) = true against a vector of {} elements", a, b, b - a - 1))); }
        }
        Some(None) }
    fn iter_ids(&self, variant: u64) -> Option<Vec<u64>> {
        Some(if variant % 2 == 0 { self.r().into_iter().map(|x| x.id()).collect() } else { let mut o = vec![]; for x in self.r() { o.push(x.id()); } o }) }
    fn reopen(&mut self) -> R<T> {
        if self.temp { return R::Unsup; }
        if self.m().sync().is_err() { return R::Refused; }
        self.v = None;
        match MmapVec::<T>::open(&self.path, self.cfg.clone()) { Ok(v) => { self.v = Some(v); R::Unit }
            Err(_) => { self.v = MmapVec::create(&self.path, self.cfg.clone()).ok(); R::Refused } } }
    fn aux(&self) -> Option<String> {
        let v = self.r(); let st = v.stats();
        if v.is_empty() != (v.len() == 0) || st.len != v.len() || st.capacity != v.capacity() || v.capacity() < v.len() { return Some(format!("len {} / capacity {} / is_empty / stats disagree", v.len(), v.capacity())); }
        None }
    fn capacity(&self) -> usize { self.r().capacity() }
}

fn generic_history<T: Elem, V: VecApi<T>>(cx: &mut Ctx, cell: &str, tag: &str, cap0: u64, opt: (u64, bool), ops: &[Vec<u64>], coq: Coq) {
    let (alt, big) = opt;
    cx.sum.eval(cell, &format!("{} {} {:?} {:?}", tag, cap0, opt, ops), ops.len() >= 3);
    cx.sum.cell_status(cell, if V::coq_cell().is_some() { "M+S" } else { "S-only" });
    let mut cj = json!({"cell": tag, "cap": cap0, "ops": ops});
    if alt != 0 { cj["ctor"] = json!(alt); }
    if big { cj["big"] = json!(true); }
    if journal(&cj) { return; }
    // amounts and indices: small histories stay small whatever the case says; "big" cases carry sizes up to 2^21 as numbers
    let lim: usize = if big { 1 << 21 } else { 400 };
    let lim_k: usize = if big { 1 << 21 } else { 200 };
    reset_counters();
    let mut next_id: u64 = 0;
    let mut v = match guarded(|| V::create_alt(cap0 as usize, alt)) { Ok(v) => v, Err(p) => { cx.sum.fail(cell, None, cj, &format!("constructor panicked: {}", p)); return; } };
    let cap_init = v.capacity();
    let mut shadow: Vec<u64> = vec![];
    let mut failed = false;
    // the history as the mechanism model sees it (M+S cells only; the other constructors are outside the model)
    let mut coq_ok = V::coq_cell().is_some() && alt == 0 && !big;
    let mut coq_ops: Vec<String> = vec![];
    let mut expect: Vec<String> = vec![];
    for o in ops {
        let code = op_arg(o, 0);
        let a = (op_arg(o, 1) as usize).min(lim);
        let b = (op_arg(o, 2) as usize).min(lim);
        let mut problem: Option<String> = None;
        let mut fresh = || { let id = next_id; next_id += 1; id };
        let mut vals: Vec<u64> = vec![];        // values created for this operation
        let mut ret: Vec<i128> = vec![];        // the return value in the encoding of Model.enc_ret ([] = not supported)
        let mut drops_o: Option<Vec<u64>> = None; // destructors run by the operation itself
        let mut replaced: Option<V> = None;
        take_drops();
        let r = guarded(|| {
            macro_rules! expect_unit { ($r:expr, $what:expr, $then:expr) => {{ let r = $r; drops_o = Some(take_drops()); ret = enc_r(&r);
                match r { R::Unsup => {}, R::Unit => { $then; }, _ => problem = Some(format!("{} refused", $what)) } }} }
            match code {
                0 | 25 => { let id = fresh(); let x = T::make(id); let idv = x.id(); vals.push(idv);
                       let full = v.fixed_capacity().map(|c| shadow.len() >= c).unwrap_or(false);
                       let r = if code == 0 { v.push(x) } else { v.push_unchecked(x) }; drops_o = Some(take_drops()); ret = enc_r(&r);
                       match r { R::Unsup => {}, R::Unit => { if full { problem = Some("push beyond the fixed capacity accepted".into()); } shadow.push(idv); }
                                 _ => if !full { problem = Some("push refused".into()); } } }
                1 => { let r = v.pop(); drops_o = Some(take_drops()); ret = enc_r(&r);
                       match r { R::Unsup => {}, R::Val(g) => { let g = quiet(move || g.map(|x| x.id())); let w = shadow.pop(); if g != w { problem = Some(format!("pop returned {:?}, a Vec returns {:?}", g, w)); } }, _ => problem = Some("pop refused".into()) } }
                2 => { let id = fresh(); let x = T::make(id); let idv = x.id(); vals.push(idv);
                       let r = v.insert(a, x); drops_o = Some(take_drops()); ret = enc_r(&r);
                       match r { R::Unsup => {}, R::Unit => { if a > shadow.len() { problem = Some(format!("insert at {} accepted with len {}", a, shadow.len())); } else { shadow.insert(a, idv); } }
                                 _ => if a <= shadow.len() { problem = Some(format!("insert at {} refused with len {}", a, shadow.len())); } } }
                3 => { let r = v.remove(a); drops_o = Some(take_drops()); ret = enc_r(&r);
                       match r { R::Unsup => {}, R::Val(g) => { let g = quiet(move || g.map(|x| x.id())); let w = if a < shadow.len() { Some(shadow.remove(a)) } else { None }; if g != w { problem = Some(format!("remove({}) returned {:?}, a Vec returns {:?}", a, g, w)); } }
                                 _ => if a < shadow.len() { problem = Some(format!("remove({}) refused with len {}", a, shadow.len())); } } }
                4 => { let id = fresh(); let x = T::make(id); let idv = x.id(); vals.push(idv); expect_unit!(v.resize(a, x), "resize", shadow.resize(a, idv)) }
                5 => expect_unit!(v.clear(), "clear", shadow.clear()),
                6 => expect_unit!(v.shrink(), "shrink_to_fit", ()),
                7 => { let k = a.min(lim_k); let xs: Vec<T> = (0..k).map(|_| T::make(fresh())).collect(); let idv: Vec<u64> = xs.iter().map(|x| x.id()).collect(); vals = idv.clone();
                       expect_unit!(v.extend(xs), "extend", shadow.extend(idv)) }
                8 => expect_unit!(v.reserve(a), "reserve", ()),
                9 => { let g = v.get(a); ret = enc_opt(g); if g != shadow.get(a).copied() { problem = Some(format!("get({}) = {:?}, a Vec has {:?}", a, g, shadow.get(a))); } }
                10 => { if let Some(c) = v.clone_self() { replaced = Some(c); ret = vec![0]; } }
                11 => { let id = fresh(); let x = T::make(id); let idv = x.id(); vals.push(idv);
                        let r = v.set(a, x); drops_o = Some(take_drops()); ret = enc_r(&r);
                        match r { R::Unsup => {}, R::Unit => { if a >= shadow.len() { problem = Some(format!("set({}) accepted with len {}", a, shadow.len())); } else { shadow[a] = idv; } }
                                  _ => if a < shadow.len() { problem = Some(format!("set({}) refused with len {}", a, shadow.len())); } } }
                12 => expect_unit!(v.truncate(a), "truncate", shadow.truncate(a)),
                13 => { let id = fresh(); let x = T::make(id); let idv = x.id(); vals.push(idv);
                        let r = v.fill_range(a, b, x); drops_o = Some(take_drops()); ret = enc_r(&r);
                        match r { R::Unsup => {}, R::Unit => { if b > shadow.len() { problem = Some(format!("fill_range({}, {}) accepted with len {}", a, b, shadow.len())); } else if a < b { for s in &mut shadow[a..b] { *s = idv; } } }
                                  _ => if a <= b && b <= shadow.len() { problem = Some(format!("fill_range({}, {}) refused with len {}", a, b, shadow.len())); } } }
                14 => { let r = v.pop_bulk(a); drops_o = Some(take_drops()); ret = enc_r(&r);
                        match r { R::Unsup => {}, R::List(g) => { let g: Vec<u64> = g.iter().map(|x| x.id()).collect();
                                                if a > shadow.len() { problem = Some(format!("pop_bulk({}) accepted with len {}", a, shadow.len())); } else { let w = shadow.split_off(shadow.len() - a); if g != w { problem = Some(format!("pop_bulk({}) returned {:?}, the tail of a Vec is {:?}", a, &g[..g.len().min(12)], &w[..w.len().min(12)])); } } }
                                  _ => if a <= shadow.len() { problem = Some(format!("pop_bulk({}) refused with len {}", a, shadow.len())); } } }
                15 => { let k = a.min(lim_k); let xs: Vec<T> = (0..k).map(|_| T::make(fresh())).collect(); let idv: Vec<u64> = xs.iter().map(|x| x.id()).collect(); vals = idv.clone();
                        expect_unit!(v.copy_from(xs), "copy_from", shadow = idv) }
                16 => { let k = a.min(lim_k); let id = fresh(); let x = T::make(id); let idv = x.id(); vals.push(idv);
                        expect_unit!(v.push_n(k, x), "push_n", shadow.extend(std::iter::repeat(idv).take(k))) }
                17 => expect_unit!(v.ensure(a), "ensure_capacity", ()),
                18 => { let mut made: Vec<u64> = vec![];
                        let r = v.resize_with(a, &mut || { let x = T::make(fresh()); made.push(x.id()); x });
                        expect_unit!(r, "resize_with", { if a <= shadow.len() { shadow.truncate(a); } else { shadow.extend(made.iter().copied()); } }) }
                19 => { let k = a.min(lim_k); let id = fresh(); let x = T::make(id); let idv = x.id();
                        if let Some(c) = V::with_size(k, x) { replaced = Some(c); shadow = vec![idv; k]; } }
                20 => { if let Some(g) = v.read_alt(a, op_arg(o, 2)) { if g != shadow.get(a).copied() { problem = Some(format!("element {} read through accessor {} = {:?}, a Vec has {:?}", a, op_arg(o, 2), g, shadow.get(a))); } } }
                21 => { let id = fresh(); let x = T::make(id); let idv = x.id();
                        match v.write_alt(a, x, op_arg(o, 2)) { R::Unsup => {}, R::Unit => { if a >= shadow.len() { problem = Some(format!("write at {} through accessor {} accepted with len {}", a, op_arg(o, 2), shadow.len())); } else { shadow[a] = idv; } }
                                                                 _ => if a < shadow.len() { problem = Some(format!("write at {} through accessor {} refused with len {}", a, op_arg(o, 2), shadow.len())); } } }
                22 => { if let Some(Some(d)) = v.eq_probe(op_arg(o, 1)) { problem = Some(d); } }
                23 => { if let Some(g) = v.debug_ids() { if g != shadow { problem = Some(format!("Debug shows {:?}, a Vec holds {:?}", &g[..g.len().min(12)], &shadow[..shadow.len().min(12)])); } } }
                24 => { if let Some(g) = v.iter_ids(op_arg(o, 1)) { if g != shadow { problem = Some(format!("iterator {} yields {} elements {:?}, a Vec holds {} {:?}", op_arg(o, 1), g.len(), &g[..g.len().min(12)], shadow.len(), &shadow[..shadow.len().min(12)])); } } }
                26 => { for _ in 0..a.min(lim_k) { let x = T::make(fresh()); let idv = x.id();
                            match v.push(x) { R::Unit => shadow.push(idv), R::Unsup => break, _ => { problem = Some(format!("push #{} of a run refused", shadow.len())); break; } } } }
                27 => expect_unit!(v.reopen(), "sync + open", ()),
                _ => {}
            }
        });
        if let Some(c) = replaced { let old = std::mem::replace(&mut v, c); if let Err(p) = guarded(move || drop(old)) { problem = Some(format!("Drop of the replaced vector panicked: {}", p)); } }
        let late = take_drops(); let mut drops = drops_o.unwrap_or(late); drops.sort();
        if let Err(p) = r { cx.sum.fail(cell, None, cj.clone(), &format!("op {:?} panicked: {}", o, p)); failed = true; break; }
        if problem.is_none() { match guarded(|| (v.len(), v.ids(), v.get(shadow.len()), v.get(shadow.len() + 9), v.aux())) {
            Err(p) => problem = Some(format!("reading back panicked: {}", p)),
            Ok((n, got, past, past9, aux)) => { if n != shadow.len() || got != shadow { let d = got.iter().zip(shadow.iter()).position(|(x, y)| x != y).unwrap_or(got.len().min(shadow.len())); let lo = d.saturating_sub(2);
                                                    problem = Some(format!("holds {:?} (len {}), a Vec holds {:?} (len {}) - from index {}", &got[lo.min(got.len())..(lo + 10).min(got.len())], n, &shadow[lo.min(shadow.len())..(lo + 10).min(shadow.len())], shadow.len(), lo)); }
                                           else if past.is_some() || past9.is_some() { problem = Some("an index past the end was not refused".into()); }
                                           else if let Some(d) = aux { problem = Some(d); } } } }
        if problem.is_none() && T::COUNTED { problem = live_mismatch(shadow.iter(), next_id); }
        if let Some(p) = problem { cx.sum.fail(cell, None, cj.clone(), &format!("after op {:?}: {}", o, p)); failed = true; break; }
        if coq_ok && !matches!(code, 20 | 22 | 23 | 24) {   // observations through secondary accessors leave the model state alone
            let cap_now = v.capacity();
            match (ret.is_empty(), V::coq_op(code, a, b, &vals, cap_now)) {
                (false, Some(t)) => { coq_ops.push(t);
                    let mut e = ret; e.push(-7); if T::COUNTED { e.extend(drops.iter().map(|&x| x as i128)); }
                    e.extend([-8, v.len() as i128, cap_now as i128]); expect.push(zlist(&e)); }
                _ => coq_ok = false,   // an operation outside the model: this history is not replayed in Coq
            }
        }
    }
    if failed { std::mem::forget(v); return; }
    let r = guarded(move || drop(v));
    if let Err(p) = r { cx.sum.fail(cell, None, cj, &format!("Drop panicked: {}", p)); return; }
    else if T::COUNTED { if let Some(p) = live_mismatch([].iter(), next_id) { cx.sum.fail(cell, None, cj, &format!("after Drop of the vector: {}", p)); return; } }
    if let (true, Some(bc)) = (coq_ok, V::coq_cell()) {
        if coq == Coq::Always || (coq == Coq::Budget && cx.room(bc)) {
            cx.shards.push(format!("{} [{}] [{}]", V::coq_head(cap0 as usize, cap_init), coq_ops.join("; "), expect.join("; ")), cj);
        }
    }
}

fn vec_cell(cx: &mut Ctx, tag: &str, cap0: u64, opt: (u64, bool), ops: &[Vec<u64>], coq: Coq) {
    match tag {
        "fastvec_u64" => generic_history::<u64, FastVec<u64>>(cx, "FastVec<u64>", tag, cap0, opt, ops, coq),
        "fastvec_u8" => generic_history::<u8, FastVec<u8>>(cx, "FastVec<u8>", tag, cap0, opt, ops, coq),
        "fastvec_i16" => generic_history::<i16, FastVec<i16>>(cx, "FastVec<i16>", tag, cap0, opt, ops, coq),
        "fastvec_u128" => generic_history::<u128, FastVec<u128>>(cx, "FastVec<u128>", tag, cap0, opt, ops, coq),
        "fastvec_w3" => generic_history::<Wide, FastVec<Wide>>(cx, "FastVec<24-byte struct>", tag, cap0, opt, ops, coq),
        "fastvec_zst" => generic_history::<(), FastVec<()>>(cx, "FastVec<()>", tag, cap0, opt, ops, coq),
        "fastvec_el" => generic_history::<El, FvEl>(cx, "FastVec<El>/secondary entry points", tag, cap0, opt, ops, coq),
        "valvec32_el" => generic_history::<El, ValVec32<El>>(cx, "ValVec32<El>", tag, cap0, opt, ops, coq),
        "valvec32_u64" => generic_history::<u64, VV64>(cx, "ValVec32<u64>", tag, cap0, opt, ops, coq),
        "valvec32_u8" => generic_history::<u8, VVC<u8>>(cx, "ValVec32<u8>", tag, cap0, opt, ops, coq),
        "valvec32_i16" => generic_history::<i16, ValVec32<i16>>(cx, "ValVec32<i16>", tag, cap0, opt, ops, coq),
        "valvec32_w3" => generic_history::<Wide, VVC<Wide>>(cx, "ValVec32<24-byte struct>", tag, cap0, opt, ops, coq),
        "valvec32_zst" => generic_history::<(), ValVec32<()>>(cx, "ValVec32<()>", tag, cap0, opt, ops, coq),
        "cachevec_el" => generic_history::<El, CacheAlignedVec<El>>(cx, "CacheAlignedVec<El>", tag, cap0, opt, ops, coq),
        "cachevec_u8" => generic_history::<u8, CacheAlignedVec<u8>>(cx, "CacheAlignedVec<u8>", tag, cap0, opt, ops, coq),
        "cachevec_u64" => generic_history::<u64, CacheAlignedVec<u64>>(cx, "CacheAlignedVec<u64>", tag, cap0, opt, ops, coq),
        "cachevec_w3" => generic_history::<Wide, CacheAlignedVec<Wide>>(cx, "CacheAlignedVec<24-byte struct>", tag, cap0, opt, ops, coq),
        "cachevec_zst" => generic_history::<(), CacheAlignedVec<()>>(cx, "CacheAlignedVec<()>", tag, cap0, opt, ops, coq),
        "layoutvec_u64" => generic_history::<u64, Layout64>(cx, "cache_layout::CacheAlignedVec<u64>", tag, cap0, opt, ops, coq),
        "bumpvec_el" => generic_history::<El, Bump>(cx, "BumpVec<El>", tag, cap0, opt, ops, coq),
        "mmapvec_u64" => generic_history::<u64, Mm<u64>>(cx, "MmapVec<u64>", tag, cap0, opt, ops, coq),
        "mmapvec_u8" => generic_history::<u8, Mm<u8>>(cx, "MmapVec<u8>", tag, cap0, opt, ops, coq),
        "mmapvec_i16" => generic_history::<i16, Mm<i16>>(cx, "MmapVec<i16>", tag, cap0, opt, ops, coq),
        "mmapvec_w3" => generic_history::<Wide, Mm<Wide>>(cx, "MmapVec<24-byte struct>", tag, cap0, opt, ops, coq),
        _ => {}
    }
}

/// ValVec32 at the u32 limits, on zero-sized elements (no memory needed): a slice longer than u32::MAX must be refused
/// (the pinned tree truncated its length with `as u32`: heap overflow for sized elements, wrong len for ZSTs), and at
/// len == u32::MAX push / reserve / extend must report an error while pop still works.
fn valvec32_limits(cx: &mut Ctx) {
    let cell = "ValVec32<()> at u32::MAX";
    cx.sum.eval(cell, "valvec32_limits", true);
    cx.sum.cell_status(cell, "S-only");
    let cj = json!({"cell": "valvec32_limits"});
    if journal(&cj) { return; }
    let r = guarded(|| -> Option<String> {
        let n: usize = (1usize << 32) + 3;
        // a slice of zero-sized elements occupies no memory, whatever its length
        let big: &[()] = unsafe { std::slice::from_raw_parts(std::ptr::NonNull::<()>::dangling().as_ptr(), n) };
        let mut v: ValVec32<()> = ValVec32::new();
        if v.extend_from_slice_copy(big).is_ok() { return Some(format!("extend_from_slice_copy of a slice of {} elements returned Ok, len() = {} (a Vec holds {})", n, v.len(), n)); }
        if v.len() != 0 { return Some(format!("a refused extend_from_slice_copy changed len() to {}", v.len())); }
        if v.extend_from_slice(big).is_ok() { return Some(format!("extend_from_slice of a slice of {} elements returned Ok, len() = {}", n, v.len())); }
        if v.len() != 0 { return Some(format!("a refused extend_from_slice changed len() to {}", v.len())); }
        let exact: &[()] = &big[..u32::MAX as usize];
        if v.push(()).is_err() || v.len() != 1 { return Some("push of a zero-sized element refused".into()); }
        if v.extend_from_slice_copy(exact).is_ok() { return Some(format!("1 + u32::MAX elements accepted, len() = {}", v.len())); }
        if v.pop() != Some(()) { return Some("pop() lost the element".into()); }
        if v.extend_from_slice_copy(exact).is_err() || v.len() != u32::MAX { return Some(format!("extend by exactly u32::MAX elements: len() = {}", v.len())); }
        if v.push(()).is_ok() { return Some(format!("push at len == u32::MAX accepted, len() = {}", v.len())); }
        if v.reserve(1).is_ok() { return Some("reserve(1) at len == u32::MAX accepted".into()); }
        if v.reserve(0).is_err() { return Some("reserve(0) at len == u32::MAX refused".into()); }
        if v.extend_from_slice_copy(&[()]).is_ok() || v.push_n_copy(1, ()).is_ok() { return Some("extend / push_n_copy at len == u32::MAX accepted".into()); }
        if v.len() != u32::MAX || v.get(u32::MAX - 1).is_none() || v.get(u32::MAX).is_some() { return Some("len()/get() at len == u32::MAX disagree with a Vec".into()); }
        if v.pop() != Some(()) || v.len() != u32::MAX - 1 { return Some("pop at len == u32::MAX".into()); }
        if v.push(()).is_err() || v.len() != u32::MAX { return Some("push at len == u32::MAX - 1 refused".into()); }
        v.clear(); if !v.is_empty() { return Some("clear()".into()); }
        for _ in 0..3 { if v.push(()).is_err() { return Some("push of a zero-sized element refused".into()); } }
        let c = v.clone(); if c.len() != 3 { return Some(format!("clone() of 3 zero-sized elements holds {}", c.len())); }
        v.clear();
        if v.push_n_copy(u32::MAX, ()).is_err() || v.len() != u32::MAX || v.push_n_copy(1, ()).is_ok() { return Some("push_n_copy to u32::MAX".into()); }
        None
    });
    match r { Err(p) => cx.sum.fail(cell, None, cj, &format!("panicked: {}", p)), Ok(Some(d)) => cx.sum.fail(cell, None, cj, &d), Ok(None) => {} }
}

/// FastVec operations that abort the *process* on the pinned tree (zipora_verify! -> std::process::abort): each is run
/// in a child process, so that an abort is a reported failure with a replay instead of the end of the harness.
/// mode 0: ensure_capacity below len; 1: copy_from_slice_fast with a source shorter than the vector; 2: with an empty source
fn fastvec_probe_child(mode: u64) {
    let mut v: FastVec<u64> = FastVec::new();
    v.push(1).unwrap(); v.push(2).unwrap();
    let ok = match mode {
        0 => v.ensure_capacity(1).is_ok() && v.as_slice() == [1, 2] && v.ensure_capacity(0).is_ok() && v.ensure_capacity(2).is_ok() && v.as_slice() == [1, 2],
        1 => v.copy_from_slice_fast(&[9]).is_ok() && v.as_slice() == [9],
        _ => v.copy_from_slice_fast(&[]).is_ok() && v.as_slice().is_empty(),
    };
    std::process::exit(if ok { 0 } else { 3 });
}
fn fastvec_probe(cx: &mut Ctx, args: &Args, mode: u64) {
    let cell = "FastVec<u64>";
    cx.sum.eval(cell, &format!("fastvec_probe {}", mode), true);
    let cj = json!({"cell": "fastvec_probe", "mode": mode});
    if journal(&cj) { return; }
    let dir = format!("{}/probe_{}", args.out, mode);
    std::fs::create_dir_all(&dir).ok();
    let f = format!("{}/spec.json", dir);
    std::fs::write(&f, json!({"case": {"cell": "fastvec_probe_child", "mode": mode}}).to_string()).ok();
    let st = std::process::Command::new(std::env::current_exe().expect("current_exe"))
        .args(["C10", "--seed", "0", "--tier", "quick", "--out", &dir, "--replay", &f])
        .env("ZV_C10_CHILD", "1").env_remove("ZV_C10_JOURNAL").env_remove("ZV_C10_SKIP")
        .stdout(std::process::Stdio::null()).stderr(std::process::Stdio::null()).status();
    std::fs::remove_dir_all(&dir).ok();
    let what = ["ensure_capacity(1) on a vector of 2 elements", "copy_from_slice_fast(&[9]) on [1, 2]", "copy_from_slice_fast(&[]) on [1, 2]"][(mode as usize).min(2)];
    match st {
        Ok(s) if s.success() => {}
        Ok(s) if s.code() == Some(3) => cx.sum.fail(cell, None, cj, &format!("{}: the result is not what a Vec holds after the same operation", what)),
        Ok(s) => { RISKY_OFF.with(|r| *r.borrow_mut() = true); cx.sum.fail(cell, None, cj, &format!("{}: the process was terminated ({}) where a value or an error is demanded", what, s)); }
        Err(e) => cx.sum.notes.push(format!("fastvec_probe: cannot start the child process: {}", e)),
    }
}

// ---------------------------------------------------------------------------------------------
// string vectors
// ---------------------------------------------------------------------------------------------
/// binary search over a sorted sequence: a hit must point at an equal string, a miss at a position where the needle could
/// be inserted (everything before is smaller, everything from there on is larger) - which of several equal strings is hit
/// is not constrained
fn check_binary_search(sorted: &[String], probes: usize, search: impl Fn(&str) -> std::result::Result<usize, usize>, at: impl Fn(usize) -> Option<String>) -> Option<String> {
    let n = sorted.len();
    let step = (n / probes.max(1)).max(1);
    let mut needles: Vec<String> = vec!["".into(), "~~~~".into(), "\u{0}".into(), "m".into()];
    for s in sorted.iter().step_by(step) {
        needles.push(s.clone()); needles.push(format!("{}\u{1}", s));
        let mut h = s.len().saturating_sub(1); while h > 0 && !s.is_char_boundary(h) { h -= 1; } needles.push(s[..h].to_string());
    }
    if n > 0 { needles.push(sorted[0].clone()); needles.push(sorted[n - 1].clone()); needles.push(format!("{}z", sorted[n - 1])); }
    for q in needles {
        match search(&q) {
            Ok(i) => { if at(i).as_deref() != Some(q.as_str()) { return Some(format!("binary_search({:?}) = Ok({}), but position {} holds {:?}", trunc(&q), i, i, at(i).as_deref().map(trunc))); } }
            Err(i) => { if sorted.binary_search(&q).is_ok() { return Some(format!("binary_search({:?}) = Err({}), but the string is held ({} strings)", trunc(&q), i, n)); }
                        if i > n || (i > 0 && sorted[i - 1].as_str() >= q.as_str()) || (i < n && sorted[i].as_str() <= q.as_str()) { return Some(format!("binary_search({:?}) = Err({}) is not where the string would be inserted ({} strings)", trunc(&q), i, n)); } }
        }
    }
    None
}
fn first_diff(got: &[Option<String>], want: &[String]) -> Option<String> {
    if got.len() != want.len() { return Some(format!("{} elements, a Vec<String> holds {}", got.len(), want.len())); }
    for (i, w) in want.iter().enumerate() {
        if got[i].as_deref() != Some(w.as_str()) { return Some(format!("element {} reads {:?}, a Vec<String> holds {:?}", i, got[i].as_ref().map(|s| trunc(s)), trunc(w))); }
    }
    None
}
fn trunc(s: &str) -> String { if s.len() > 40 { format!("{}..({} bytes)", s.chars().take(24).collect::<String>(), s.len()) } else { s.to_string() } }

/// kind: 0 SortableStrVec, 1/2/3 FixedLenStrVec<4/8/16>, 4 ZoSortedStrVec::from_strings, 5 from_sorted_strings,
/// 6 from_sortable_str_vec, 7/8 BitPackedStringVec32/64, 9..12 AdvancedStringVec level 0..3, 13 a level above 3,
/// 14/15 FixedLenStrVec<32/64>; `mode` selects constructor / preset, bulk or single pushes, the sort, clone points
fn str_case(cx: &mut Ctx, kind: u64, strs: &[String], mode: u64) {
    let cj = json!({"cell": "str", "kind": kind, "mode": mode, "strs": strs});
    str_case_on(cx, kind, strs, mode, cj, &format!("{:?}", strs));
}
const STR_KINDS: u64 = 16;
/// the same checks on a string set that the case describes by (kind, n, seed) instead of spelling it out
fn str_case_on(cx: &mut Ctx, kind: u64, strs: &[String], mode: u64, cj: Value, key: &str) {
    let names = ["SortableStrVec", "FixedLenStrVec<4>", "FixedLenStrVec<8>", "FixedLenStrVec<16>", "ZoSortedStrVec/from_strings",
        "ZoSortedStrVec/from_sorted_strings", "ZoSortedStrVec/from_sortable_str_vec", "BitPackedStringVec32", "BitPackedStringVec64",
        "AdvancedStringVec/level0", "AdvancedStringVec/level1", "AdvancedStringVec/level2", "AdvancedStringVec/level3",
        "AdvancedStringVec/level>3", "FixedLenStrVec<32>", "FixedLenStrVec<64>"];
    let cell = names[(kind as usize).min(15)];
    if journal(&cj) { return; }
    cx.sum.eval(cell, &format!("{} {} {}", cell, mode, key), strs.len() >= 2);
    cx.sum.cell_status(cell, if kind <= 3 || kind >= 14 { "M+S" } else { "S-only" });
    let r: Result<Option<(Option<&'static str>, String)>, String> = guarded(|| -> Option<(Option<&'static str>, String)> {
        match kind {
            0 => {
                // the tuning knobs SortableStrVec reads from the environment when it is built: a cache block of 1, 2, 3 or 7
                // strings makes binary_search take its block search from 3 strings on (default: above 512), no prefetch
                let knobs = mode % 3 == 2;
                if knobs { std::env::set_var("SORTABLE_CACHE_BLOCK", ["1", "2", "3", "7"][(mode / 3 % 4) as usize]); std::env::set_var("SORTABLE_PREFETCH", "0"); }
                struct Unset(bool); impl Drop for Unset { fn drop(&mut self) { if self.0 { std::env::remove_var("SORTABLE_CACHE_BLOCK"); std::env::remove_var("SORTABLE_PREFETCH"); } } }
                let _unset = Unset(knobs);
                // constructor: new / with_capacity / from_iter (bulk) / Default
                let ctor = (mode / 7) % 4;
                let bulk = ctor == 2 && strs.iter().all(|s| s.len() < (1 << 20));
                let mut v = match ctor { 1 => SortableStrVec::with_capacity(strs.len()), 3 => Default::default(),
                                         2 if bulk => match SortableStrVec::from_iter(strs.iter()) { Ok(v) => v, Err(e) => return Some((None, format!("from_iter refused: {:?}", e))) },
                                         _ => SortableStrVec::new() };
                let mut want: Vec<String> = if bulk { strs.to_vec() } else { vec![] };
                for (i, s) in strs.iter().enumerate() {
                    if bulk { break; }
                    let r = if i % 2 == 0 { v.push_str(s) } else { v.push(s.clone()) };
                    match r { Ok(id) => { if id != want.len() { return Some((None, format!("push returned id {} for element {}", id, want.len()))); } want.push(s.clone()); }
                              Err(_) => { if s.len() < (1 << 20) { return Some((None, format!("push of a {}-byte string refused", s.len()))); } } }
                    if mode == 5 && i == strs.len() / 2 { v.clear(); want.clear(); }
                    // housekeeping between the pushes must not change what is held
                    if i == strs.len() / 3 { v.reserve(17); }
                    if i == 2 * strs.len() / 3 { v.shrink_to_fit(); }
                }
                let v = if mode == 6 { let c = v.clone(); drop(v); c } else { v };
                let mut v = v;
                let got: Vec<Option<String>> = (0..v.len()).map(|i| v.get(i).map(|s| s.to_string())).collect();
                if let Some(d) = first_diff(&got, &want) { return Some((None, d)); }
                if v.get(want.len()).is_some() || v.get_by_id(want.len() + 3).is_some() { return Some((None, "get past the end was not refused".into())); }
                let it: Vec<Option<String>> = v.iter().map(|s| Some(s.to_string())).collect();
                if let Some(d) = first_diff(&it, &want) { return Some((None, format!("iter(): {}", d))); }
                let mut sorted = want.clone();
                match mode % 5 {
                    0 => { v.sort_lexicographic().ok()?; sorted.sort(); }
                    1 => { v.radix_sort().ok()?; sorted.sort(); }
                    2 => { v.sort_by(|a, b| b.cmp(a)).ok()?; sorted.sort(); sorted.reverse(); }
                    3 => { v.sort_by_length().ok()?;
                           let gs: Vec<String> = (0..v.len()).filter_map(|i| v.get_sorted(i).map(|s| s.to_string())).collect();
                           if gs.len() != want.len() || gs.windows(2).any(|w| w[0].len() > w[1].len()) { return Some((None, "sort_by_length: not ordered by length".into())); }
                           let mut a = gs.clone(); a.sort(); sorted.sort();
                           if a != sorted { return Some((None, "sort_by_length: not a permutation of the pushed strings".into())); }
                           sorted = gs; }
                    _ => { v.sort().ok()?; sorted.sort(); }
                }
                let gs: Vec<Option<String>> = (0..v.len()).map(|i| v.get_sorted(i).map(|s| s.to_string())).collect();
                if let Some(d) = first_diff(&gs, &sorted) { return Some((None, format!("sorted view: {}", d))); }
                let it: Vec<Option<String>> = v.iter_sorted().map(|s| Some(s.to_string())).collect();
                if let Some(d) = first_diff(&it, &sorted) { return Some((None, format!("iter_sorted(): {}", d))); }
                if v.get_sorted(want.len()).is_some() { return Some((None, "get_sorted past the end was not refused".into())); }
                // binary search over the lexicographically sorted view (linear below 513 strings, block search above)
                if matches!(mode % 5, 0 | 1 | 4) {
                    if let Some(d) = check_binary_search(&sorted, 300, |n| v.binary_search(n), |i| v.get_sorted(i).map(|x| x.to_string())) { return Some((None, d)); }
                }
                v.shrink_to_fit();
                // insertion order is untouched by sorting
                let got: Vec<Option<String>> = (0..v.len()).map(|i| v.get(i).map(|s| s.to_string())).collect();
                if let Some(d) = first_diff(&got, &want) { return Some((None, format!("after sort, get(): {}", d))); }
                None
            }
            1 | 2 | 3 | 14 | 15 => {
                fn go<const N: usize>(strs: &[String]) -> Option<(Option<&'static str>, String)> {
                    let mut v: FixedLenStrVec<N> = match strs.len() % 3 { 0 => FixedLenStrVec::new(), 1 => FixedLenStrVec::with_capacity(strs.len()), _ => Default::default() };
                    let mut want: Vec<String> = vec![];
                    for s in strs {
                        match v.push(s) { Ok(()) => { if s.len() > N { return Some((None, format!("a {}-byte string was accepted by FixedLenStrVec<{}>", s.len(), N))); } want.push(s.clone()); }
                                          Err(_) => if s.len() <= N { return Some((None, format!("push of a {}-byte string refused by FixedLenStrVec<{}>", s.len(), N))); } }
                    }
                    let got: Vec<Option<String>> = (0..v.len()).map(|i| v.get(i).map(|s| s.to_string())).collect();
                    if let Some(d) = first_diff(&got, &want) { return Some((None, d)); }
                    let gb: Vec<Option<String>> = (0..v.len()).map(|i| v.get_bytes(i).map(|s| String::from_utf8_lossy(s).to_string())).collect();
                    if let Some(d) = first_diff(&gb, &want) { return Some((None, format!("get_bytes: {}", d))); }
                    if v.get(want.len()).is_some() || v.get_bytes(want.len() + 1).is_some() { return Some((None, "get past the end was not refused".into())); }
                    if v.is_empty() != want.is_empty() { return Some((None, "is_empty() disagrees".into())); }
                    // searches: every pushed or refused string, its prefixes, and strings that are not there
                    for (j, q) in strs.iter().enumerate().take(if strs.len() > 2000 { 25 } else { 200 }) {
                        let w = want.iter().position(|x| x == q);
                        if v.find_exact(q) != w { return Some((None, format!("find_exact({:?}) = {:?}, the first occurrence is {:?}", trunc(q), v.find_exact(q), w))); }
                        let mut h = q.len() / 2 + j % 2; while h > 0 && !q.is_char_boundary(h.min(q.len())) { h -= 1; } let pre = &q[..h.min(q.len())];
                        let mut t = q.len().saturating_sub(1); while t > 0 && !q.is_char_boundary(t) { t -= 1; }
                        for probe in [pre.to_string(), format!("{}~", q), format!("{}~", &q[..t])] {
                            let c = want.iter().filter(|x| x.starts_with(probe.as_str())).count();
                            if v.count_prefix(&probe) != c { return Some((None, format!("count_prefix({:?}) = {}, {} of the held strings start with it", trunc(&probe), v.count_prefix(&probe), c))); }
                            let w = want.iter().position(|x| *x == probe);
                            if v.find_exact(&probe) != w { return Some((None, format!("find_exact({:?}) = {:?}, the first occurrence is {:?}", trunc(&probe), v.find_exact(&probe), w))); }
                        }
                    }
                    None
                }
                match kind { 1 => go::<4>(strs), 2 => go::<8>(strs), 3 => go::<16>(strs), 14 => go::<32>(strs), _ => go::<64>(strs) }
            }
            4 | 5 | 6 => {
                let mut want: Vec<String> = strs.to_vec(); want.sort();
                let class = if strs.iter().any(|s| s.as_bytes().contains(&0)) { Some("zo_embedded_nul") } else { None };
                let built = match kind {
                    4 => { want.dedup(); ZoSortedStrVec::from_strings(strs.to_vec()) }
                    5 => ZoSortedStrVec::from_sorted_strings(want.clone()),
                    _ => { let mut sv = SortableStrVec::new(); for s in strs { sv.push_str(s).ok()?; } ZoSortedStrVec::from_sortable_str_vec(sv) }
                };
                let v = match built { Ok(v) => v, Err(e) => { if class.is_some() { return None; } return Some((None, format!("construction refused: {:?}", e))); } };
                let got: Vec<Option<String>> = (0..v.len()).map(|i| v.get(i).map(|s| s.to_string())).collect();
                if let Some(d) = first_diff(&got, &want) { return Some((class, d)); }
                let it: Vec<Option<String>> = v.iter().map(|s| Some(s.to_string())).collect();
                if let Some(d) = first_diff(&it, &want) { return Some((class, format!("iter(): {}", d))); }
                if v.get(want.len()).is_some() { return Some((None, "get past the end was not refused".into())); }
                if class.is_some() { return None; }
                let v = if mode % 2 == 1 { let c = v.clone(); drop(v); c } else { v };
                if v.iter().len() != want.len() || v.is_empty() != want.is_empty() { return Some((None, format!("iter().len() = {}, {} strings held", v.iter().len(), want.len()))); }
                if let Some(d) = check_binary_search(&want, if want.len() > 400 { 40 } else { 300 }, |n| v.binary_search(n), |i| v.get(i).map(|x| x.to_string())) { return Some((None, d)); }
                for (j, q) in strs.iter().enumerate().take(if strs.len() > 400 { 3 } else { 120 }) {
                    let absent = format!("{}\u{1}", q);
                    if !v.contains(q) || v.contains(&absent) != want.contains(&absent) { return Some((None, format!("contains({:?}) = {}, contains({:?}) = {}", trunc(q), v.contains(q), trunc(&absent), v.contains(&absent)))); }
                    // range [lo, hi): every pair of a pushed string with its successor in the input, and with itself
                    let other = &strs[(j * 7 + 1) % strs.len()];
                    for (lo, hi) in [(q, other), (other, q), (q, q), (q, &absent)] {
                        let got: Vec<String> = v.range(lo, hi).map(|x| x.to_string()).collect();
                        let exp: Vec<String> = want.iter().filter(|x| x.as_str() >= lo.as_str() && x.as_str() < hi.as_str()).cloned().collect();
                        if got != exp || v.range(lo, hi).len() != exp.len() { return Some((None, format!("range({:?}, {:?}) yields {} strings {:?}.., the sorted sequence has {} there", trunc(lo), trunc(hi), got.len(), got.iter().take(3).map(|x| trunc(x)).collect::<Vec<_>>(), exp.len()))); }
                    }
                }
                None
            }
            7 | 8 => {
                macro_rules! go { ($t:ty) => {{
                    // constructor / preset: new, with_capacity, the three presets, Default, a configuration with nothing pre-allocated
                    let mut v: $t = match mode % 7 { 0 => <$t>::new(), 1 => <$t>::with_capacity(strs.len()), 2 => <$t>::with_config(BitPackedConfig::performance_optimized()),
                        3 => <$t>::with_config(BitPackedConfig::memory_optimized()), 4 => <$t>::with_config(BitPackedConfig::large_dataset()), 5 => Default::default(),
                        _ => <$t>::with_config(BitPackedConfig { initial_arena_capacity: 0, initial_index_capacity: 0, enable_hardware_acceleration: false, use_memory_mapping: false, simd_alignment: mode as usize % 2 }) };
                    let mut want: Vec<String> = vec![];
                    if mode % 3 == 0 { let idx = v.extend(strs.iter()).ok()?; if idx != (0..strs.len()).collect::<Vec<_>>() { return Some((None, "extend returned wrong indices".into())); } want = strs.to_vec(); }
                    else { for s in strs { match v.push(s) { Ok(id) => { if id != want.len() { return Some((None, format!("push returned index {} for element {}", id, want.len()))); } want.push(s.clone()); }
                                                              Err(e) => { if s.len() < (1 << 24) { return Some((None, format!("push of a {}-byte string refused: {:?}", s.len(), e))); } } } } }
                    // clone, then the clone diverges
                    let v = if mode % 5 == 1 { let mut c = v.clone();
                        for extra in ["divergent tail", "", "0123456789abcdef0123456789abcdef!"] { let id = c.push(extra).ok()?; if id != want.len() { return Some((None, format!("push into the clone returned index {} for element {}", id, want.len()))); } want.push(extra.to_string()); }
                        if v.len() + 3 != c.len() { return Some((None, "pushing into the clone changed the original".into())); }
                        c } else { v };
                    for (j, q) in want.iter().enumerate().take(if want.len() > 2000 { 25 } else { 150 }) {
                        if v.get_bytes(j) != Some(q.as_bytes()) { return Some((None, format!("get_bytes({}) differs from the pushed string", j))); }
                        let w = want.iter().position(|x| x == q);
                        if v.find_simd(q) != w { return Some((None, format!("find_simd({:?}) = {:?}, the first occurrence is {:?}", trunc(q), v.find_simd(q), w))); }
                        // a needle of the same length that differs in the last / first byte, and one that is longer
                        let mut h = q.len().saturating_sub(1); while h > 0 && !q.is_char_boundary(h) { h -= 1; }
                        for absent in [format!("{}~", &q[..h]), format!("~{}", q), format!("{}~", q)] {
                            let w = want.iter().position(|x| *x == absent);
                            if v.find_simd(&absent) != w { return Some((None, format!("find_simd({:?}) = {:?}, the first occurrence is {:?}", trunc(&absent), v.find_simd(&absent), w))); }
                        }
                    }
                    let got: Vec<Option<String>> = (0..v.len()).map(|i| v.get(i).map(|s| s.to_string())).collect();
                    if let Some(d) = first_diff(&got, &want) { return Some((None, d)); }
                    let it: Vec<Option<String>> = v.iter().map(|s| Some(s.to_string())).collect();
                    if let Some(d) = first_diff(&it, &want) { return Some((None, format!("iter(): {}", d))); }
                    if v.get(want.len()).is_some() || v.get_bytes(want.len()).is_some() { return Some((None, "get past the end was not refused".into())); }
                    None
                }}; }
                if kind == 7 { go!(BitPackedStringVec32) } else { go!(BitPackedStringVec64) }
            }
            _ => {
                // kind 13: a compression level above 3 (falls back to level 1)
                let level = if kind >= 13 { 4 + (mode % 200) as u8 } else { (kind - 9).min(3) as u8 };
                let mut cfg = match mode % 4 { 0 => AdvancedStringConfig::default(), 1 => AdvancedStringConfig::performance_optimized(), 2 => AdvancedStringConfig::memory_optimized(), _ => AdvancedStringConfig::balanced() };
                cfg.compression_level = level;
                if mode % 5 == 2 { cfg.min_overlap_length = [0usize, 1, 2, 5][(mode / 5 % 4) as usize]; cfg.hash_table_size = 1; cfg.enable_hardware_acceleration = false; }
                // level 1 is what new() / with_capacity() / Default build
                let mut v = if level == 1 && mode % 7 >= 4 { match mode % 7 { 4 => AdvancedStringVec::new(), 5 => AdvancedStringVec::with_capacity(strs.len()), _ => Default::default() } } else { AdvancedStringVec::with_config(cfg) };
                let mut idx: Vec<usize> = vec![];
                let mut acc: Vec<String> = vec![];   // the accepted strings (a string beyond the 24-bit length field may be refused)
                let every = if strs.len() > 600 { 64 } else { 4 };
                for (i, s) in strs.iter().enumerate() {
                    // clone in the middle of the history: the later pushes go into the clone
                    if mode % 3 == 2 && i == strs.len() / 2 { let c = v.clone(); drop(v); v = c; }
                    match v.push(s) { Ok(id) => { idx.push(id); acc.push(s.clone()); }
                                      Err(e) => { if s.len() < (1 << 24) { return Some((None, format!("push of a {}-byte string refused: {:?}", s.len(), e))); } } }
                    // every index handed out so far must still read back the string that was pushed
                    if i % every == every - 1 || i + 1 == strs.len() {
                        for (j, &id) in idx.iter().enumerate() { if v.get(id) != Some(acc[j].as_str()) {
                            return Some((None, format!("after push #{}, index {} (returned for accepted push #{}) reads {:?}, pushed {:?}", i, id, j, v.get(id).map(trunc), trunc(&acc[j])))); } }
                    }
                }
                let strs: &[String] = &acc;
                let v = if mode % 3 == 1 { v.clone() } else { v };
                for (j, &id) in idx.iter().enumerate() { if v.get(id) != Some(strs[j].as_str()) { return Some((None, format!("index {} reads {:?}, pushed {:?}", id, v.get(id).map(trunc), trunc(&strs[j])))); }
                                                         if v.get_bytes(id) != Some(strs[j].as_bytes()) { return Some((None, format!("get_bytes({}) differs from the pushed string", id))); } }
                if v.is_empty() != (v.len() == 0) || v.get_bytes(v.len()).is_some() { return Some((None, "is_empty / get_bytes past the end".into())); }
                // the element sequence of a Vec<String>
                let got: Vec<Option<String>> = v.iter().map(|s| Some(s.to_string())).collect();
                if let Some(d) = first_diff(&got, strs) {
                    // known class: at levels >= 1 an exact duplicate is not appended (push returns the earlier index)
                    // i.e. what is held is the pushed sequence with only later duplicates missing
                    let mut gi = 0usize; let mut dedup_only = level >= 1;
                    for (j, s) in strs.iter().enumerate() {
                        if gi < got.len() && got[gi].as_deref() == Some(s.as_str()) { gi += 1; }
                        else if !strs[..j].contains(s) { dedup_only = false; break; }
                    }
                    if gi != got.len() { dedup_only = false; }
                    return Some((if dedup_only { Some("advanced_dedup_collapses_duplicates") } else { None }, d));
                }
                if v.get(v.len()).is_some() { return Some((None, "get past the end was not refused".into())); }
                None
            }
        }
    });
    match r {
        Err(p) => cx.sum.fail(cell, None, cj, &format!("panicked: {}", p)),
        Ok(Some((class, d))) => cx.sum.fail(cell, class, cj, &d),
        Ok(None) => {}
    }
}

// ---------------------------------------------------------------------------------------------
// string-vector histories (M+S): SortableStrVec and FixedLenStrVec<N>
//   an operation is [code, arg]: the argument is a string, an index, or [byte, count] for a run of one byte
// ---------------------------------------------------------------------------------------------
fn enc_str(e: &mut Vec<i128>, s: &[u8]) { e.push(s.len() as i128); e.extend(s.iter().map(|&b| b as i128)); }
fn sop_str(o: &Value) -> String {
    match &o[1] { Value::String(s) => s.clone(),
                  Value::Array(a) => { let b = a.get(0).and_then(|x| x.as_u64()).unwrap_or(120).min(127) as u8; let n = a.get(1).and_then(|x| x.as_u64()).unwrap_or(0).min(1 << 21) as usize;
                                       String::from_utf8(vec![b; n]).unwrap_or_default() }
                  _ => String::new() }
}
fn sop_coq_str(o: &Value) -> String {
    match &o[1] { Value::Array(a) => format!("(repeat {} (N.to_nat {}))", a.get(0).and_then(|x| x.as_u64()).unwrap_or(120).min(127), a.get(1).and_then(|x| x.as_u64()).unwrap_or(0).min(1 << 21)),
                  _ => coq_bytes(sop_str(o).as_bytes()) }
}

/// SortableStrVec: [0,s] push_str  [1,i] get  [2] len  [3] iter  [4] clear  [5] sort_lexicographic  [6] sort_by_length
/// [7] sort_by(reverse)  [8,i] get_sorted  [9] iter_sorted  [10] clone  [11] radix_sort  [12] sort  [13,s] push(String)
/// outside the mechanism model: [14,s] binary_search  [15,n] reserve  [16] shrink_to_fit, stats  [17] re-build with from_iter
/// [18] sort_by(length, then reverse lexicographic)
fn strvec_history(cx: &mut Ctx, ops: &[Value], coq: Coq) {
    let cell = "SortableStrVec";
    cx.sum.eval(cell, &format!("strvec {:?}", ops), ops.len() >= 3);
    let cj = json!({"cell": "strvec", "ops": ops});
    if journal(&cj) { return; }
    #[derive(PartialEq, Clone, Copy)] enum Mode { Unsorted, Exact, ByLen }
    // every third history runs with the environment knobs of SortableStrVec set: cache block of 1 / 2 / 3 / 7 strings
    // (binary_search then takes its block search from 3 strings on), no prefetch
    let knobs = ops.len() % 3 == 0;
    if knobs { std::env::set_var("SORTABLE_CACHE_BLOCK", ["1", "2", "3", "7"][ops.len() / 3 % 4]); std::env::set_var("SORTABLE_PREFETCH", "0"); }
    let r = guarded(|| -> Result<(Vec<String>, Vec<String>, bool), String> {
        let mut v = SortableStrVec::new();
        let mut want: Vec<String> = vec![];
        let mut view: Vec<String> = vec![];   // what the sorted view must show (Exact), or a sorted-by-length reference (ByLen)
        let mut mode = Mode::Unsorted;
        let mut lex = false;   // the sorted view is the lexicographic one (binary_search answers only then)
        let mut coq_ops: Vec<String> = vec![]; let mut expect: Vec<String> = vec![]; let mut coq_ok = true;
        for o in ops {
            let code = o[0].as_u64().unwrap_or(0);
            let i = o[1].as_u64().unwrap_or(0) as usize;
            let mut e: Vec<i128> = vec![];
            let mut cop: Option<String> = None;
            let mut refused = false;
            match code {
                0 | 13 => { let st = sop_str(o);
                    let r = if code == 0 { v.push_str(&st) } else { v.push(st.clone()) };
                    cop = Some(format!("TS (SPush {})", sop_coq_str(o)));
                    match r { Ok(id) => { if id != want.len() { return Err(format!("push returned id {} for element {}", id, want.len())); }
                                          e = vec![5, id as i128]; want.push(st); mode = Mode::Unsorted; }
                              Err(_) => { if st.len() < (1 << 20) { return Err(format!("push of a {}-byte string refused", st.len())); } e = vec![-1]; refused = true; } } }
                1 => { let g = v.get(i).map(|x| x.to_string()); if g != want.get(i).cloned() { return Err(format!("get({}) = {:?}, a Vec<String> holds {:?}", i, g.as_deref().map(trunc), want.get(i).map(|x| trunc(x)))); }
                       if v.get_by_id(i).map(|x| x.to_string()) != g { return Err(format!("get_by_id({}) differs from get", i)); }
                       match &g { None => e = vec![1], Some(x) => { e = vec![2]; enc_str(&mut e, x.as_bytes()); } }
                       if g.as_ref().map(|x| x.len()).unwrap_or(0) <= 4096 { cop = Some(format!("TS (SGet {})", i)); } else { e.clear(); } }
                2 => { if v.len() != want.len() || v.is_empty() != want.is_empty() { return Err(format!("len() = {}, a Vec<String> holds {}", v.len(), want.len())); } e = vec![4, v.len() as i128]; cop = Some("TS SLen".into()); }
                3 => { let g: Vec<String> = v.iter().map(|x| x.to_string()).collect(); if g != want { return Err(format!("iter() yields {} strings {:?}.., a Vec<String> holds {}", g.len(), g.iter().take(4).map(|x| trunc(x)).collect::<Vec<_>>(), want.len())); }
                       if g.iter().map(|x| x.len()).sum::<usize>() <= 8192 { e = vec![3, g.len() as i128]; for x in &g { enc_str(&mut e, x.as_bytes()); } cop = Some("TS SIter".into()); } }
                4 => { v.clear(); want.clear(); mode = Mode::Unsorted; e = vec![0]; cop = Some("TS SClear".into()); }
                5 | 11 | 12 => { let r = match code { 5 => v.sort_lexicographic(), 11 => v.radix_sort(), _ => v.sort() };
                       if r.is_err() { return Err("sort refused".into()); }
                       view = want.clone(); view.sort(); mode = Mode::Exact; lex = true; e = vec![0];
                       cop = Some(if code == 11 { "TS SRadix" } else { "TS SSortLex" }.into()); }
                14 => { let st = sop_str(o); let g = v.binary_search(&st);
                        if mode == Mode::Exact && lex {
                            match g { Ok(i) => if view.get(i) != Some(&st) { return Err(format!("binary_search({:?}) = Ok({}), the sorted sequence has {:?} there", trunc(&st), i, view.get(i).map(|x| trunc(x)))); },
                                      Err(i) => if view.binary_search(&st).is_ok() || i > view.len() || (i > 0 && view[i - 1] >= st) || (i < view.len() && view[i] <= st) {
                                          return Err(format!("binary_search({:?}) = Err({}) with {} strings held (held: {})", trunc(&st), i, view.len(), view.binary_search(&st).is_ok())); } } } }
                15 => { v.reserve(i.min(5000)); }
                16 => { v.shrink_to_fit(); let _ = v.stats(); let _ = v.memory_savings_vs_vec_string(); }
                18 => { if v.sort_by(|a, b| a.len().cmp(&b.len()).then(b.cmp(a))).is_err() { return Err("sort_by refused".into()); }
                        view = want.clone(); view.sort_by(|a, b| a.len().cmp(&b.len()).then(b.cmp(a))); mode = Mode::Exact; lex = false; coq_ok = false; }
                17 => { match SortableStrVec::from_iter(want.iter()) { Ok(n) => { v = n; mode = Mode::Unsorted; coq_ok = false; } Err(e) => return Err(format!("from_iter of the held strings refused: {:?}", e)) } }
                6 => { if v.sort_by_length().is_err() { return Err("sort_by_length refused".into()); } view = want.clone(); view.sort(); mode = Mode::ByLen; lex = false; e = vec![0]; cop = Some("TS SSortByLen".into()); }
                7 => { if v.sort_by(|a, b| b.cmp(a)).is_err() { return Err("sort_by refused".into()); } view = want.clone(); view.sort(); view.reverse(); mode = Mode::Exact; lex = false; e = vec![0]; cop = Some("TS (SSortBy rev_lex)".into()); }
                8 => { let g = v.get_sorted(i).map(|x| x.to_string());
                       match mode { Mode::Exact => if g != view.get(i).cloned() { return Err(format!("get_sorted({}) = {:?}, the sorted sequence has {:?}", i, g.as_deref().map(trunc), view.get(i).map(|x| trunc(x)))); },
                                    Mode::ByLen => { let mut lens: Vec<usize> = want.iter().map(|x| x.len()).collect(); lens.sort();
                                                     if g.as_ref().map(|x| x.len()) != lens.get(i).copied() || g.as_ref().map(|x| !want.contains(x)).unwrap_or(false) { return Err(format!("get_sorted({}) after sort_by_length = {:?}", i, g.as_deref().map(trunc))); } }
                                    Mode::Unsorted => {} }
                       if mode != Mode::ByLen && g.as_ref().map(|x| x.len()).unwrap_or(0) <= 4096 {
                           match &g { None => e = vec![1], Some(x) => { e = vec![2]; enc_str(&mut e, x.as_bytes()); } } cop = Some(format!("TS (SGetSorted {})", i)); } }
                9 => { let g: Vec<String> = v.iter_sorted().map(|x| x.to_string()).collect();
                       match mode { Mode::Exact => if g != view { return Err(format!("iter_sorted() yields {:?}.., the sorted sequence is {:?}..", g.iter().take(4).map(|x| trunc(x)).collect::<Vec<_>>(), view.iter().take(4).map(|x| trunc(x)).collect::<Vec<_>>())); },
                                    Mode::ByLen => { if g.len() != want.len() || g.windows(2).any(|w| w[0].len() > w[1].len()) { return Err("iter_sorted() after sort_by_length is not ordered by length".into()); }
                                                     let mut a = g.clone(); a.sort(); if a != view { return Err("iter_sorted() after sort_by_length is not a permutation of the pushed strings".into()); } }
                                    Mode::Unsorted => {} }
                       if g.iter().map(|x| x.len()).sum::<usize>() <= 8192 {
                           if mode == Mode::ByLen { let mut a = g.clone(); a.sort(); e = vec![3, 2 * g.len() as i128]; for x in &g { e.push(1); e.push(x.len() as i128); } for x in &a { enc_str(&mut e, x.as_bytes()); } cop = Some("TSViewCanon".into()); }
                           else { e = vec![3, g.len() as i128]; for x in &g { enc_str(&mut e, x.as_bytes()); } cop = Some("TS SIterSorted".into()); } } }
                _ => { let c = v.clone(); drop(v); v = c; e = vec![0]; cop = Some("TSClone".into()); }
            }
            // what the property demands after every operation: the pushed sequence, in insertion order
            if v.len() != want.len() { return Err(format!("after op {:?}: len() = {}, a Vec<String> holds {}", o[0], v.len(), want.len())); }
            let n = want.len();
            for j in [0usize, n / 2, n.wrapping_sub(1)] { if j < n && v.get(j) != Some(want[j].as_str()) { return Err(format!("after op {:?}: get({}) = {:?}, pushed {:?}", o[0], j, v.get(j).map(trunc), trunc(&want[j]))); } }
            if v.get(n).is_some() || v.get(n + 7).is_some() { return Err("get past the end was not refused".into()); }
            if mode != Mode::Unsorted && v.get_sorted(n).is_some() { return Err("get_sorted past the end was not refused".into()); }
            if refused { for j in 0..n { if v.get(j) != Some(want[j].as_str()) { return Err(format!("after the refused op {:?}: get({}) = {:?}, pushed {:?}", o[0], j, v.get(j).map(trunc), trunc(&want[j]))); } }
                         if mode == Mode::Exact { let g: Vec<String> = v.iter_sorted().map(|x| x.to_string()).collect(); if g != view { return Err(format!("after the refused op {:?}: the sorted view changed", o[0])); } } }
            if let (Some(t), false) = (cop, e.is_empty()) { coq_ops.push(t); expect.push(zlist(&e)); }
        }
        Ok((coq_ops, expect, coq_ok))
    });
    if knobs { std::env::remove_var("SORTABLE_CACHE_BLOCK"); std::env::remove_var("SORTABLE_PREFETCH"); }
    match r {
        Err(p) => cx.sum.fail(cell, None, cj, &format!("panicked: {}", p)),
        Ok(Err(d)) => cx.sum.fail(cell, None, cj, &d),
        Ok(Ok((coq_ops, expect, coq_ok))) => if coq_ok && (coq == Coq::Always || (coq == Coq::Budget && cx.room(cell))) {
            cx.shards.push(format!("CStr [{}] [{}]", coq_ops.join("; "), expect.join("; ")), cj); }
    }
}

/// FixedLenStrVec<N>: [0,s] push  [1,i] get  [2,i] get_bytes  [3] len  [4,s] find_exact  [5,s] count_prefix
fn fixedlen_history_n<const N: usize>(cx: &mut Ctx, ops: &[Value], coq: Coq) {
    let cell: &'static str = match N { 4 => "FixedLenStrVec<4>", 8 => "FixedLenStrVec<8>", 16 => "FixedLenStrVec<16>", 32 => "FixedLenStrVec<32>", 64 => "FixedLenStrVec<64>", _ => "FixedLenStrVec<300>" };
    cx.sum.eval(cell, &format!("fixedlen {} {:?}", N, ops), ops.len() >= 3);
    cx.sum.cell_status(cell, "M+S");
    let cj = json!({"cell": "fixedlen", "cap": N, "ops": ops});
    if journal(&cj) { return; }
    let r = guarded(|| -> Result<(Vec<String>, Vec<String>), String> {
        let mut v: FixedLenStrVec<N> = match ops.len() % 3 { 0 => FixedLenStrVec::new(), 1 => FixedLenStrVec::with_capacity(ops.len()), _ => Default::default() };
        let mut want: Vec<String> = vec![];
        let mut coq_ops: Vec<String> = vec![]; let mut expect: Vec<String> = vec![];
        for o in ops {
            let code = o[0].as_u64().unwrap_or(0);
            let i = o[1].as_u64().unwrap_or(0) as usize;
            let mut e: Vec<i128> = vec![];
            let mut refused = false;   // the operation was refused: the whole content is read back, not a sample
            match code {
                0 => { let st = sop_str(o);
                       match v.push(&st) { Ok(()) => { if st.len() > N { return Err(format!("a {}-byte string was accepted by FixedLenStrVec<{}>", st.len(), N)); } want.push(st); e = vec![0]; }
                                           Err(_) => { if st.len() <= N && st.len() <= 255 { return Err(format!("push of a {}-byte string refused by FixedLenStrVec<{}>", st.len(), N)); } e = vec![-1]; refused = true; } }
                       coq_ops.push(format!("FPush {}", sop_coq_str(o))); }
                1 => { let g = v.get(i).map(|x| x.to_string()); if g != want.get(i).cloned() { return Err(format!("get({}) = {:?}, a Vec<String> holds {:?}", i, g, want.get(i))); }
                       match &g { None => e = vec![1], Some(x) => { e = vec![2]; enc_str(&mut e, x.as_bytes()); } } coq_ops.push(format!("FGet {}", i)); }
                2 => { let g = v.get_bytes(i).map(|x| x.to_vec()); if g.as_deref() != want.get(i).map(|x| x.as_bytes()) { return Err(format!("get_bytes({}) = {:?}, a Vec<String> holds {:?}", i, g, want.get(i))); }
                       match &g { None => e = vec![1], Some(x) => { e = vec![2]; enc_str(&mut e, x); } } coq_ops.push(format!("FGetBytes {}", i)); }
                3 => { if v.len() != want.len() || v.is_empty() != want.is_empty() { return Err(format!("len() = {}, a Vec<String> holds {}", v.len(), want.len())); } e = vec![4, v.len() as i128]; coq_ops.push("FLen".into()); }
                4 => { let st = sop_str(o); let g = v.find_exact(&st); let w = want.iter().position(|x| *x == st);
                       if g != w { return Err(format!("find_exact({:?}) = {:?}, the first occurrence is {:?}", st, g, w)); }
                       e = match g { None => vec![6], Some(k) => vec![7, k as i128] }; coq_ops.push(format!("FFind {}", sop_coq_str(o))); }
                _ => { let st = sop_str(o); let g = v.count_prefix(&st); let w = want.iter().filter(|x| x.starts_with(st.as_str())).count();
                       if g != w { return Err(format!("count_prefix({:?}) = {}, {} of the pushed strings start with it", st, g, w)); }
                       e = vec![4, g as i128]; coq_ops.push(format!("FCount {}", sop_coq_str(o))); }
            }
            let n = want.len();
            if v.len() != n { return Err(format!("after op {:?}: len() = {}, a Vec<String> holds {}", o[0], v.len(), n)); }
            for j in [0usize, n / 2, n.wrapping_sub(1)] { if j < n && v.get(j) != Some(want[j].as_str()) { return Err(format!("after op {:?}: get({}) = {:?}, pushed {:?}", o[0], j, v.get(j), want[j])); } }
            if v.get(n).is_some() || v.get_bytes(n + 1).is_some() { return Err("get past the end was not refused".into()); }
            if refused { for j in 0..n { if v.get(j) != Some(want[j].as_str()) || v.get_bytes(j) != Some(want[j].as_bytes()) { return Err(format!("after the refused op {:?}: get({}) = {:?}, pushed {:?}", o[0], j, v.get(j), want[j])); } } }
            expect.push(zlist(&e));
        }
        Ok((coq_ops, expect))
    });
    match r {
        Err(p) => cx.sum.fail(cell, None, cj, &format!("panicked: {}", p)),
        Ok(Err(d)) => cx.sum.fail(cell, None, cj, &d),
        Ok(Ok((coq_ops, expect))) => if coq == Coq::Always || (coq == Coq::Budget && cx.room("FixedLenStrVec")) {
            cx.shards.push(format!("CFix {} [{}] [{}]", N, coq_ops.join("; "), expect.join("; ")), cj); }
    }
}
fn fixedlen_history(cx: &mut Ctx, n: u64, ops: &[Value], coq: Coq) {
    match n { 4 => fixedlen_history_n::<4>(cx, ops, coq), 8 => fixedlen_history_n::<8>(cx, ops, coq), 16 => fixedlen_history_n::<16>(cx, ops, coq),
              32 => fixedlen_history_n::<32>(cx, ops, coq), 64 => fixedlen_history_n::<64>(cx, ops, coq), _ => fixedlen_history_n::<300>(cx, ops, coq) }
}

/// BitPackedStringVec32 / 64 as histories of push / get / get_bytes / len (M+S: coq/C10/ModelBitPacked.v); find_simd and iter() are
/// observed against the shadow only
fn bitpacked_history(cx: &mut Ctx, w64: bool, ops: &[Value], coq: Coq) {
    let cell: &'static str = if w64 { "BitPackedStringVec64" } else { "BitPackedStringVec32" };
    cx.sum.eval(cell, &format!("bitpacked {} {:?}", w64, ops), ops.len() >= 3);
    cx.sum.cell_status(cell, "M+S");
    let cj = json!({"cell": "bitpacked", "cap": if w64 { 64 } else { 32 }, "ops": ops});
    if journal(&cj) { return; }
    macro_rules! go { ($ty:ty) => {{
        guarded(|| -> Result<(Vec<String>, Vec<String>), String> {
            let mut v: $ty = match ops.len() % 3 { 0 => <$ty>::new(), 1 => <$ty>::with_capacity(ops.len()), _ => Default::default() };
            let mut want: Vec<String> = vec![];
            let mut coq_ops: Vec<String> = vec![]; let mut expect: Vec<String> = vec![];
            for o in ops {
                let code = o[0].as_u64().unwrap_or(0);
                let i = o[1].as_u64().unwrap_or(0) as usize;
                let mut e: Vec<i128> = vec![];
                let mut refused = false;
                match code {
                    0 => { let st = sop_str(o);
                           match v.push(&st) { Ok(k) => { if k != want.len() { return Err(format!("push returned index {}, a Vec<String> holds {} strings", k, want.len())); } want.push(st); e = vec![7, k as i128]; }
                                               Err(_) => { if st.len() < (1 << 24) { return Err(format!("push of a {}-byte string refused", st.len())); } e = vec![-1]; refused = true; } }
                           coq_ops.push(format!("PPush {}", sop_coq_str(o))); }
                    1 => { let g = v.get(i).map(|x| x.to_string()); if g != want.get(i).cloned() { return Err(format!("get({}) = {:?}, a Vec<String> holds {:?}", i, g, want.get(i))); }
                           match &g { None => e = vec![1], Some(x) => { e = vec![2]; enc_str(&mut e, x.as_bytes()); } } coq_ops.push(format!("PGet {}", i)); }
                    2 => { let g = v.get_bytes(i).map(|x| x.to_vec()); if g.as_deref() != want.get(i).map(|x| x.as_bytes()) { return Err(format!("get_bytes({}) = {:?}, a Vec<String> holds {:?}", i, g, want.get(i))); }
                           match &g { None => e = vec![1], Some(x) => { e = vec![2]; enc_str(&mut e, x); } } coq_ops.push(format!("PGetBytes {}", i)); }
                    3 => { if v.len() != want.len() || v.is_empty() != want.is_empty() { return Err(format!("len() = {}, a Vec<String> holds {}", v.len(), want.len())); } e = vec![4, v.len() as i128]; coq_ops.push("PLen".into()); }
                    4 => { let st = sop_str(o); let g = v.find_simd(&st); let w = want.iter().position(|x| *x == st);
                           if g != w { return Err(format!("find_simd({:?}) = {:?}, the first occurrence is {:?}", st, g, w)); } }
                    _ => { let g: Vec<String> = v.iter().map(|x| x.to_string()).collect(); if g != want { return Err(format!("iter() yields {} strings, a Vec<String> holds {}", g.len(), want.len())); } }
                }
                let n = want.len();
                if v.len() != n { return Err(format!("after op {:?}: len() = {}, a Vec<String> holds {}", o[0], v.len(), n)); }
                for j in [0usize, n / 2, n.wrapping_sub(1)] { if j < n && v.get(j) != Some(want[j].as_str()) { return Err(format!("after op {:?}: get({}) = {:?}, pushed {:?}", o[0], j, v.get(j), want[j])); } }
                if v.get(n).is_some() || v.get_bytes(n + 1).is_some() { return Err("get past the end was not refused".into()); }
                if refused { for j in 0..n { if v.get(j) != Some(want[j].as_str()) { return Err(format!("after the refused op {:?}: get({}) differs from the string pushed", o[0], j)); } } }
                if !e.is_empty() { expect.push(zlist(&e)); }
            }
            Ok((coq_ops, expect))
        })
    }} }
    let r = if w64 { go!(BitPackedStringVec64) } else { go!(BitPackedStringVec32) };
    match r {
        Err(p) => cx.sum.fail(cell, None, cj, &format!("panicked: {}", p)),
        Ok(Err(d)) => cx.sum.fail(cell, None, cj, &d),
        Ok(Ok((coq_ops, expect))) => if coq == Coq::Always || (coq == Coq::Budget && cx.room(cell)) {
            cx.shards.push(format!("CBitP {} [{}] [{}]", w64, coq_ops.join("; "), expect.join("; ")), cj); }
    }
}

/// FixedLenStrVec at the 24-bit arena limit (oracle only: 65 793 pushes of 255 bytes fill the arena to 2^24 - 1 bytes)
fn fixedlen_limit(cx: &mut Ctx) {
    let cell = "FixedLenStrVec<300>";
    cx.sum.eval(cell, "fixedlen_limit", true);
    let cj = json!({"cell": "fixedlen_limit"});
    if journal(&cj) { return; }
    let r = guarded(|| -> Option<String> {
        let mut v: FixedLenStrVec<300> = FixedLenStrVec::new();
        let block: String = (0..255u32).map(|i| (b'a' + (i % 26) as u8) as char).collect();
        for k in 0..65793u32 { if v.push(&block).is_err() { return Some(format!("push #{} of 255 bytes refused at {} bytes (limit 2^24 - 1)", k, k as usize * 255)); } }
        if v.push("").is_err() { return Some("an empty string was refused with 2^24 - 1 bytes stored".into()); }
        // where exactly the container stops accepting is its own business; whatever it accepts must read back
        let mut want: Vec<String> = vec![];
        for s in ["a", "", "bc", "", "d"] { if v.push(s).is_ok() { want.push(s.to_string()); } }
        if v.len() != 65794 + want.len() { return Some(format!("len() = {} after {} accepted pushes", v.len(), 65794 + want.len())); }
        if v.get(65792) != Some(block.as_str()) || v.get(65793) != Some("") || v.get(0) != Some(block.as_str()) || v.get(v.len()).is_some() { return Some("read-back at the arena limit differs from a Vec<String>".into()); }
        for (k, w) in want.iter().enumerate() { if v.get(65794 + k) != Some(w.as_str()) { return Some(format!("string #{} pushed at the arena limit ({:?}) reads back {:?}", 65794 + k, w, v.get(65794 + k))); } }
        if v.find_exact("") != Some(65793) || v.count_prefix("abc") != 65793 { return Some("find_exact / count_prefix at the arena limit".into()); }
        None
    });
    match r { Err(p) => cx.sum.fail(cell, None, cj, &format!("panicked: {}", p)), Ok(Some(d)) => cx.sum.fail(cell, None, cj, &d), Ok(None) => {} }
}

fn gen_str_ops(r: &mut Rng, fixed_n: Option<usize>) -> Vec<Value> {
    let kind = match fixed_n { Some(4) => 1, Some(8) => 2, Some(16) => 3, Some(32) => 14, Some(64) => 15, _ => 0 };
    let mut pool = gen_strings(r, kind);
    if pool.is_empty() { pool.push("a".into()); }
    if let Some(n) = fixed_n { if n > 255 { let l = *r.pick(&[254usize, 255, 256, 300, 301]); pool.push("q".repeat(l)); pool.push("é".repeat(127)); pool.push(format!("{}x", "é".repeat(127))); } }
    let cnt = r.range(4, 40);
    let mut ops: Vec<Value> = vec![];
    let mut len: u64 = 0;
    // every fifth SortableStrVec history starts with 32..48 pushes, so that radix_sort leaves its small-input branch
    if fixed_n.is_none() && r.chance(1, 5) { for _ in 0..r.range(32, 48) { let s = r.pick(&pool).clone(); len += 1; ops.push(json!([0, s])); } }
    for _ in 0..cnt {
        let c = r.below(100);
        let s = r.pick(&pool).clone();
        let idx = |r: &mut Rng, len: u64| { let rb = r.below(len + 1); *r.pick(&[0, len, len.saturating_sub(1), len + 1, rb]) };
        let sub = |r: &mut Rng, s: &str| { let mut h = (r.below(s.len() as u64 + 1)) as usize; while !s.is_char_boundary(h) { h -= 1; } s[..h].to_string() };
        ops.push(if fixed_n.is_some() {
            if c < 50 { len += 1; json!([0, s]) } else if c < 65 { json!([1, idx(r, len)]) } else if c < 72 { json!([2, idx(r, len)]) } else if c < 78 { json!([3]) }
            else if c < 90 { let q = if r.chance(1, 3) { sub(r, &s) } else { s }; json!([4, q]) } else { json!([5, sub(r, &s)]) }
        } else {
            if c < 38 { len += 1; json!([if c % 2 == 0 { 0 } else { 13 }, s]) } else if c < 50 { json!([1, idx(r, len)]) } else if c < 53 { json!([2]) } else if c < 58 { json!([3]) }
            else if c < 61 { len = 0; json!([4]) } else if c < 68 { json!([5]) } else if c < 73 { json!([6]) } else if c < 78 { json!([7]) } else if c < 86 { json!([8, idx(r, len)]) }
            else if c < 91 { json!([9]) } else if c < 93 { json!([10]) } else if c < 96 { json!([11]) } else if c < 97 { json!([12]) }
            else { let q = if r.chance(1, 2) { sub(r, &s) } else { s }; let k = r.below(40); r.pick(&[json!([14, q]), json!([14, q]), json!([15, k]), json!([16]), json!([17]), json!([18])]).clone() }
        });
    }
    ops
}

// ---------------------------------------------------------------------------------------------
// generators
// ---------------------------------------------------------------------------------------------
const CAPS: [u64; 9] = [0, 1, 2, 3, 4, 7, 8, 9, 16];

fn gen_ring_ops(r: &mut Rng, cap0: u64) -> Vec<Vec<u64>> {
    let n = r.range(4, 60);
    let mut ops = vec![];
    let mut len: u64 = 0;
    let mut cap = cap0.max(1).next_power_of_two().max(if cap0 == 0 { 4 } else { 1 });
    // phase 0: rotate the ring so that head sits at a chosen offset
    let off = r.below(cap.max(1) + 1);
    for _ in 0..off { ops.push(vec![0]); ops.push(vec![1]); }
    for _ in 0..n {
        let free = cap.saturating_sub(len);
        let c = r.below(100);
        let o: Vec<u64> = if c < 26 { len += 1; vec![0] }
            else if c < 44 { len = len.saturating_sub(1); vec![1] }
            else if c < 60 { // bulk push: exactly fill, one short of / one past the free space, or random
                let rb = r.below(12); let k = *r.pick(&[free, free.saturating_sub(1), free + 1, 1, 2, rb]); len += k.min(40); vec![2, k.min(40)] }
            else if c < 74 { let rb = r.below(10); let k = *r.pick(&[len, len / 2, len + 1, 1, rb, cap]); len = len.saturating_sub(k.min(40)); vec![3, k.min(40)] }
            else if c < 80 { let rb = r.below(20); vec![4, *r.pick(&[0, 1, free, free + 1, rb])] }
            else if c < 84 { len = 0; vec![5] }
            else if c < 88 { vec![6] }
            else if c < 91 { vec![7] }
            else if c < 94 { vec![8] }
            else if c < 96 { vec![11, r.below(1000)] }
            else if c < 97 { vec![12] }
            else if c < 99 { len += 1; vec![9] }
            else { len = len.saturating_sub(1); vec![10] };
        while cap < len { cap *= 2; }
        ops.push(o);
    }
    ops
}

fn gen_fixed_ops(r: &mut Rng, n: u64) -> Vec<Vec<u64>> {
    let cnt = r.range(4, 50);
    let mut ops = vec![];
    let burst = r.chance(1, 2);
    for i in 0..cnt {
        let c = r.below(100);
        let push_bias = if burst && (i / (n + 1)) % 2 == 0 { 75 } else { 40 };
        ops.push(if c < push_bias { vec![if c % 7 == 3 { 9 } else { 0 }] } else if c < 88 { vec![if c % 7 == 3 { 10 } else { 1 }] } else if c < 91 { vec![5] } else if c < 95 { vec![6] } else if c < 98 { vec![7] } else { vec![12] });
    }
    ops
}

/// Refused operations inside a history (deterministic family): every operation of the cell's vocabulary `allowed` that can be
/// refused - pop / remove / set / pop_bulk / write on the empty vector, insert past len, remove / set / write at len and beyond,
/// fill_range and pop_bulk reaching past len, push beyond a fixed capacity (`fixed` = Some(capacity)) - each in the middle of
/// accepted operations; generic_history reads the whole content back after every step and carries on after a refusal.
fn refusal_script(n: u64, allowed: &[u64], fixed: Option<u64>) -> Vec<Vec<u64>> {
    let mut ops: Vec<Vec<u64>> = vec![];
    let mut add = |o: Vec<u64>| { if allowed.contains(&o[0]) { ops.push(o); } };
    let refusals = |add: &mut dyn FnMut(Vec<u64>), len: u64, w: u64| {
        add(vec![2, len + 1]); add(vec![9, 0]); add(vec![3, len]); add(vec![11, len]); add(vec![21, len, w]); add(vec![13, 0, len + 1]); add(vec![14, len + 1]);
        add(vec![20, len, w]); add(vec![2, len + 5]); add(vec![3, len + 4]); add(vec![11, len + 7]); add(vec![21, len + 1, w + 1]); add(vec![13, len, len + 2]); add(vec![12, len + 3]);
        add(vec![9, len]); add(vec![23]);
    };
    add(vec![1]); refusals(&mut add, 0, 0);
    for _ in 0..n { add(vec![0]); }
    let mut len = n;
    refusals(&mut add, len, 1);
    if fixed.map(|c| len < c).unwrap_or(true) { add(vec![0]); len += 1; }
    refusals(&mut add, len, 2);
    if let Some(c) = fixed { while len < c { add(vec![0]); len += 1; } add(vec![0]); add(vec![9, len - 1]); add(vec![0]); add(vec![25]); }
    if len > 0 { add(vec![1]); len -= 1; }
    add(vec![0]); len += 1;
    if fixed.is_some() { add(vec![0]); }
    refusals(&mut add, len, 3);
    add(vec![5]); len = 0; add(vec![1]); refusals(&mut add, len, 4);
    add(vec![0]); add(vec![0]); add(vec![24, 0]); add(vec![22, 3]); add(vec![10]); add(vec![9, 0]); add(vec![9, 2]);
    ops
}
/// the refusal scripts on every vector cell (vocabularies as in the breadth families), and over-long strings in the middle of
/// FixedLenStrVec histories
fn refused_families(cx: &mut Ctx) {
    let fv_copy: &[u64] = &[0, 1, 2, 3, 4, 5, 6, 7, 8, 9, 10, 13, 15, 17, 18, 19, 20, 21, 22, 23, 24];
    let fv_el: &[u64] = &[0, 1, 2, 3, 4, 5, 6, 7, 8, 9, 10, 18, 19, 20, 21, 22, 23, 24];
    let vv_copy: &[u64] = &[0, 1, 5, 7, 8, 9, 10, 11, 16, 20, 21, 22, 23, 24, 25];
    let vv_clone: &[u64] = &[0, 1, 5, 7, 8, 9, 10, 11, 20, 21, 22, 23, 24, 25];
    let cache: &[u64] = &[0, 1, 5, 8, 9, 12, 20, 21];
    let mm: &[u64] = &[0, 1, 4, 5, 6, 7, 8, 9, 12, 13, 14, 15, 20, 21, 22, 24, 27];
    let bump: &[u64] = &[0, 1, 9, 20, 21]; let layout: &[u64] = &[0, 9, 20];
    let cells: [(&str, &[u64]); 21] = [
        ("fastvec_u64", fv_copy), ("fastvec_u8", fv_copy), ("fastvec_i16", fv_copy), ("fastvec_u128", fv_copy), ("fastvec_w3", fv_copy), ("fastvec_el", fv_el),
        ("valvec32_el", vv_clone), ("valvec32_i16", vv_clone), ("valvec32_u64", vv_copy), ("valvec32_u8", vv_copy), ("valvec32_w3", vv_copy),
        ("cachevec_el", cache), ("cachevec_u8", cache), ("cachevec_u64", cache), ("cachevec_w3", cache), ("bumpvec_el", bump), ("layoutvec_u64", layout),
        ("mmapvec_u64", mm), ("mmapvec_u8", mm), ("mmapvec_i16", mm), ("mmapvec_w3", mm),
    ];
    for (tag, allowed) in cells.iter() {
        for n in [0u64, 1, 4, 9] {
            if *tag == "bumpvec_el" { vec_cell(cx, tag, n + 2, (0, false), &refusal_script(n, allowed, Some(n + 2)), Coq::Budget); }
            else { for cap0 in [0u64, 3] { vec_cell(cx, tag, cap0, (0, false), &refusal_script(n, allowed, None), Coq::Budget); } }
            cx.sum.dist("refusal_script_histories");
        }
    }
    // the M+S FastVec<El> cell (insert / remove past the end) and the fixed queue (push on the full queue), through their own runners
    for n in [0u64, 1, 4, 9] { for cap0 in [0u64, 3] {
        fastvec_history(cx, cap0, &refusal_script(n, &[0, 1, 2, 3, 5, 9, 10], None), Coq::Budget);
    } }
    for n in [1u64, 2, 3, 4, 7, 8] {
        let mut ops: Vec<Vec<u64>> = vec![vec![1], vec![10]];
        for _ in 0..n { ops.push(vec![0]); }
        ops.extend([vec![0], vec![6], vec![7], vec![9], vec![12], vec![1], vec![0], vec![9], vec![0], vec![12]]);
        for _ in 0..n { ops.push(vec![1]); }
        ops.extend([vec![1], vec![10], vec![0], vec![7], vec![5], vec![1], vec![9], vec![12]]);
        fixed_history(cx, n, &ops, Coq::Budget);
    }
    // FixedLenStrVec<N>: over-long strings (N + 1, N + 40 bytes, N bytes + 1) between accepted pushes and lookups; the three constructors
    for n in [4usize, 8, 16, 32, 64, 300] {
        for extra in 0..3 {
            let z = "z".repeat(n);
            let mut ops: Vec<Value> = vec![json!([0, "x".repeat(n + 1)]), json!([3]), json!([0, "ab"]), json!([0, "x".repeat(n + 1)]), json!([1, 0]), json!([1, 1]), json!([3]), json!([0, "cd"]),
                json!([0, "y".repeat(n + 40)]), json!([4, "cd"]), json!([5, "c"]), json!([2, 1]), json!([0, z.clone()]), json!([0, format!("{}!", z)]), json!([3]), json!([1, 2]), json!([1, 3]), json!([2, 2]),
                json!([4, z.clone()]), json!([5, "z"]), json!([4, format!("{}!", z)]), json!([0, "e"]), json!([0, "w".repeat(n + 2)]), json!([1, 3]), json!([1, 4]), json!([4, "e"]), json!([5, ""])];
            for _ in 0..extra { ops.push(json!([3])); }
            fixedlen_history(cx, n as u64, &ops, Coq::Budget);
            cx.sum.dist("refusal_script_histories");
        }
    }
}

fn gen_vec_ops(r: &mut Rng, allowed: &[u64], big: bool) -> Vec<Vec<u64>> {
    let n = r.range(4, 45);
    let mut ops = vec![];
    let mut len: u64 = 0;
    for _ in 0..n {
        let code = *r.pick(allowed);
        let idx = |r: &mut Rng, len: u64| { let rb = r.below(len + 1); *r.pick(&[0, len, len.saturating_sub(1), len + 1, rb, len / 2]) };
        // amounts around the 64-byte switch of every element size in use: 64 / 8 / 4 / 3 (24-byte) / 32 (2-byte) elements
        let amount = |r: &mut Rng| if big { *r.pick(&[0u64, 1, 2, 3, 4, 5, 7, 8, 9, 31, 32, 33, 63, 64, 65, 70, 130]) } else { *r.pick(&[0u64, 1, 2, 3, 5, 9, 17]) };
        let o = match code {
            0 => { len += 1; vec![0] }
            1 => { len = len.saturating_sub(1); vec![1] }
            2 => { let i = idx(r, len); if i <= len { len += 1; } vec![2, i] }
            3 => { let i = idx(r, len); if i < len { len -= 1; } vec![3, i] }
            4 => { let am = amount(r); let m = *r.pick(&[0, len, len.saturating_sub(1), len / 2, len + 1, len + am]); len = m; vec![4, m] }
            5 => { len = 0; vec![5] }
            6 => vec![6],
            7 => { let k = amount(r); len += k; vec![7, k] }
            8 => vec![8, amount(r)],
            9 => vec![9, idx(r, len)],
            10 => vec![10],
            11 => vec![11, idx(r, len)],
            12 => { let m = *r.pick(&[0, len, len.saturating_sub(1), len / 2, len + 3]); len = len.min(m); vec![12, m] }
            13 => { let a = idx(r, len); let b = idx(r, len); vec![13, a.min(b), a.max(b)] }
            14 => { let am = amount(r); let k = *r.pick(&[0, 1, len, len / 2, len + 1, am]); if k <= len { len -= k; } vec![14, k] }
            15 => { let k = amount(r); len = k; vec![15, k] }
            17 => { let am = amount(r); vec![17, *r.pick(&[0, 1, len, len.saturating_sub(1), len + 1, len + am])] }
            18 => { let am = amount(r); let m = *r.pick(&[0, len, len.saturating_sub(1), len / 2, len + 1, len + am]); len = m; vec![18, m] }
            19 => { let k = amount(r); len = k; vec![19, k] }
            20 => vec![20, idx(r, len), r.below(16)],
            21 => vec![21, idx(r, len), r.below(16)],
            22 => vec![22, r.below(1000)],
            23 => vec![23],
            24 => vec![24, r.below(6)],
            25 => { len += 1; vec![25] }
            27 => vec![27],
            _ => { let k = *r.pick(&[0u64, 1, 15, 16, 17, 33, 64]); len += k; vec![16, k] }
        };
        ops.push(o);
    }
    ops
}

fn gen_strings(r: &mut Rng, kind: u64) -> Vec<String> {
    let n = *r.pick(&[0usize, 1, 2, 3, 5, 8, 17, 33, 40]);
    let style = r.below(6);
    let maxlen: usize = match kind { 1 => 6, 2 => 10, 3 => 18, 14 => 34, 15 => 66, _ => *r.pick(&[3usize, 8, 9, 16, 40, 70]) };
    let alpha: &[u8] = match style { 0 => b"ab", 1 => b"abc", 2 => b"abcdefgh", 3 => b"ab\0", _ => b"abcdefghijklmnopqrstuvwxyz0123456789" };
    let mut out: Vec<String> = vec![];
    for _ in 0..n {
        let s = if !out.is_empty() && r.chance(1, 4) {
            // duplicate, prefix, suffix or extension of an earlier string
            let b = r.pick(&out).clone();
            let mut h = b.len() / 2; while !b.is_char_boundary(h) { h -= 1; }
            match r.below(5) { 0 => b, 1 => b[..h].to_string(), 2 => b[h..].to_string(),
                               3 => format!("{}{}", &b[h..], "xy"), _ => format!("{}{}", b, (b'a' + r.below(3) as u8) as char) }
        } else if style == 5 && r.chance(1, 3) {
            ["", "é", "日本", "a\u{7f}", "\u{10348}z"][r.below(5) as usize].to_string()
        } else {
            let l = if r.chance(1, 5) { maxlen } else { r.below(maxlen as u64 + 1) as usize };
            (0..l).map(|_| *r.pick(alpha) as char).collect()
        };
        out.push(s);
    }
    out
}

fn run_one(cx: &mut Ctx, c: &Value, args: &Args) {
    let cap = c["cap"].as_u64().unwrap_or(0);
    match c["cell"].as_str().unwrap_or("") {
        "ring" => ring_history(cx, cap, c["ctor"].as_u64().unwrap_or(0), &parse_ops(&c["ops"]), Coq::Always),
        "fixed" => fixed_history(cx, cap, &parse_ops(&c["ops"]), Coq::Always),
        "fastvec" => fastvec_history(cx, cap, &parse_ops(&c["ops"]), Coq::Always),
        "valvec32_limits" => valvec32_limits(cx),
        "fastvec_probe_child" => { let m = c["mode"].as_u64().unwrap_or(0); if m >= 3 { breadth::probe_child(m, &args.out) } else { fastvec_probe_child(m) } }
        "fastvec_probe" => fastvec_probe(cx, args, c["mode"].as_u64().unwrap_or(0)),
        "strvec" => strvec_history(cx, c["ops"].as_array().map(|a| a.as_slice()).unwrap_or(&[]), Coq::Always),
        "fixedlen" => fixedlen_history(cx, cap, c["ops"].as_array().map(|a| a.as_slice()).unwrap_or(&[]), Coq::Always),
        "ring_into" => ring_into_case(cx, cap, c["rot"].as_u64().unwrap_or(0), c["fill"].as_u64().unwrap_or(0), c["bulk"].as_bool().unwrap_or(false), c["m"].as_u64().unwrap_or(0), Coq::Always),
        "bitpacked" => bitpacked_history(cx, cap == 64, c["ops"].as_array().map(|a| a.as_slice()).unwrap_or(&[]), Coq::Always),
        "fixedlen_limit" => fixedlen_limit(cx),
        "str" => { let strs: Vec<String> = c["strs"].as_array().map(|a| a.iter().map(|s| s.as_str().unwrap_or("").to_string()).collect()).unwrap_or_default();
                   str_case(cx, c["kind"].as_u64().unwrap_or(0), &strs, c["mode"].as_u64().unwrap_or(0)) }
        t => if !breadth::run_one(cx, c, args) { vec_cell(cx, t, cap, (c["ctor"].as_u64().unwrap_or(0), c["big"].as_bool().unwrap_or(false)), &parse_ops(&c["ops"]), Coq::Always) },
    }
}

pub fn run(args: &Args) {
    if std::env::var_os("ZV_C10_CHILD").is_none() && std::env::var_os("ZV_C10_INPROCESS").is_none() && supervise(args) { return; }
    run_inner(args)
}
fn run_inner(args: &Args) {
    if std::env::var("ZV_DEBUG").is_ok() { std::panic::set_hook(Box::new(|i| eprintln!("panic: {}", i))); }
    // MmapVec::with_capacity_simd creates its file in std::env::temp_dir()
    if std::env::var_os("TMPDIR").is_none() { std::env::set_var("TMPDIR", mm_dir()); }
    let mut cx = Ctx {
        sum: Summary::new("C10", "operation histories (4..60 ops) on every container the property names, element type = drop-counting handle (per-id live-instance count compared with the shadow container after every operation and after Drop) or u8/u64 for the Copy/SIMD paths; initial capacities 0,1,2,3,4,7,8,9,16; ring histories start by rotating head to a chosen offset, bulk sizes are chosen to exactly fill / overshoot by one / straddle the wrap point, growth while wrapped is counted; vector indices at 0, len-1, len, len+1; string sets with duplicates, shared prefixes/suffixes, empty strings, NUL bytes, multi-byte UTF-8, lengths at the fixed limit; after every operation len/front/back/as_slice/get (incl. two indices past the end) are compared with VecDeque/Vec; non-trivial = history of >= 3 operations or >= 2 strings; breadth families (c10_breadth.rs): the same histories widened by the secondary entry points (aliases, ==, Debug, Index/IndexMut/get_mut/as_mut_slice/iter_mut, iterators, with_size, unchecked push, other constructors and presets as \"ctor\"), element types i16 / u128 / 24-byte struct / zero-sized (the latter in a child process), deterministic scripts around 512, 4096, 8182, 2^16, 2^20 elements (\"big\": sizes as numbers in the case), several BumpVecs in one allocator, MmapVec presets and read-only re-opening, string sets of 513..70000 strings by (kind, n, seed) and strings of 2^24 bytes by (kind, len)"),
        shards: CoqShards::new(HEADER, 150),
        budgets: Default::default(),
    };
    // shares of the Coq budget (quick: 1500 cases in total), per M+S cell
    let k = if args.thorough { 6 } else { 1 };
    for (c, n) in [("AutoGrowCircularQueue", 750), ("FixedCircularQueue", 100), ("FastVec<El>", 150), ("ValVec32<El>", 120), ("ValVec32<u64>", 80),
                   ("FastVec<u64>", 80), ("FastVec<u8>", 80), ("SortableStrVec", 80), ("FixedLenStrVec", 60),
                   ("CacheAlignedVec<El>", 40), ("CacheAlignedVec<u8>", 30), ("BumpVec<El>", 30),
                   ("BitPackedStringVec32", 30), ("BitPackedStringVec64", 30), ("AutoGrowCircularQueue/pop_bulk into a slice", 40)] {
        cx.budgets.insert(c, (0, n * k));
    }
    for c in ["AutoGrowCircularQueue", "FixedCircularQueue", "FastVec<El>"] { cx.sum.cell_status(c, "M+S"); }
    let mut rng = Rng::new(args.seed);
    if let Some(f) = &args.replay {
        let v: Value = serde_json::from_str(&std::fs::read_to_string(f).expect("replay file")).expect("json");
        let c = if v.get("case").is_some() { v["case"].clone() } else { v };
        run_one(&mut cx, &c, args);
        let sh = cx.shards.write(&args.out);
        cx.sum.write(&args.out, sh);
        return;
    }
    // first: the operations that may abort the process, each in a child process
    for mode in 0..3 { fastvec_probe(&mut cx, args, mode); }
    if let Ok(rd) = std::fs::read_dir("corpus/C10") {
        let mut files: Vec<_> = rd.filter_map(|e| e.ok()).map(|e| e.path()).collect();
        files.sort();
        for p in files {
            if let Ok(v) = serde_json::from_str::<Value>(&std::fs::read_to_string(&p).unwrap_or_default()) {
                let c = if v.get("case").is_some() { v["case"].clone() } else { v };
                run_one(&mut cx, &c, args);
                cx.sum.dist("corpus_cases");
            }
        }
    }
    // enumerated: every history of length <= 6 over {push_back, pop_front, push_bulk 2, pop_bulk 2, clone} on capacities 2 and 4
    let alphabet: [Vec<u64>; 5] = [vec![0], vec![1], vec![2, 2], vec![3, 2], vec![8]];
    let depth = if args.thorough { 7 } else { 5 };
    for cap0 in [2u64, 4] {
        for l in 1..=depth {
            let total = 5usize.pow(l as u32);
            for code in 0..total {
                let mut x = code; let mut ops = vec![];
                for _ in 0..l { ops.push(alphabet[x % 5].clone()); x /= 5; }
                // keep the Coq budget for the generated family: only every 12th enumerated history is replayed in Coq
                ring_history(&mut cx, cap0, 0, &ops, if code % 12 == 0 { Coq::Budget } else { Coq::Never });
            }
        }
    }
    cx.sum.dist_max("enumerated_ring_histories", cx.sum.evaluations);
    // pop_bulk into a slice of identified values: every head offset, fill level and slice length on capacities 2 and 4 (+ growth), both ways of filling
    let mut into_n = 0u64;
    for cap0 in [2u64, 4, 8] { for rot in 0..=cap0 { for fill in 0..=cap0 + 1 { for m in [0, 1, 2, cap0 - 1, cap0, cap0 + 2] { for bulk in [false, true] {
        if m == 0 && bulk { continue; }
        into_n += 1;
        ring_into_case(&mut cx, cap0, rot, fill, bulk, m, if into_n % 35 == 0 || args.thorough { Coq::Budget } else { Coq::Never });
    } } } } }
    let rounds = if args.thorough { 12000 } else { 700 };
    let vec_all: [u64; 11] = [0, 1, 2, 3, 4, 5, 6, 7, 8, 9, 10];
    for i in 0..rounds {
        let cap0 = CAPS[(i % 9) as usize];
        let ops = gen_ring_ops(&mut rng, cap0);
        if i < 2 { cx.sum.sample(json!({"ring_cap": cap0, "ops": ops.iter().take(10).collect::<Vec<_>>()})); }
        ring_history(&mut cx, cap0, if i % 11 == 3 { 1 } else if i % 11 == 7 { 2 } else { 0 }, &ops, Coq::Budget);
        let n = [1u64, 2, 3, 4, 7, 8, 9, 16][(i % 8) as usize];
        let ops = gen_fixed_ops(&mut rng, n);
        fixed_history(&mut cx, n, &ops, Coq::Budget);
        let ops = gen_vec_ops(&mut rng, &vec_all, false);
        if i < 1 { cx.sum.sample(json!({"fastvec_cap": cap0, "ops": ops.iter().take(10).collect::<Vec<_>>()})); }
        fastvec_history(&mut cx, cap0, &ops, Coq::Budget);
        if i % 2 == 0 {
            let ops = gen_vec_ops(&mut rng, &[0, 1, 2, 3, 4, 5, 6, 7, 7, 8, 9, 10, 13, 2, 3, 15, 17], true);
            vec_cell(&mut cx, "fastvec_u64", cap0, (0, false), &ops, Coq::Budget);
            let ops = gen_vec_ops(&mut rng, &[0, 1, 2, 3, 4, 4, 5, 6, 7, 7, 8, 9, 10, 13, 2, 3, 15, 17], true);
            vec_cell(&mut cx, "fastvec_u8", cap0, (0, false), &ops, Coq::Budget);
            let ops = gen_vec_ops(&mut rng, &[0, 0, 1, 2, 3, 4, 5, 6, 7, 8, 9, 10, 18, 18, 18], false);
            vec_cell(&mut cx, "fastvec_el", cap0, (0, false), &ops, Coq::Budget);
            let ops = gen_vec_ops(&mut rng, &[0, 0, 1, 5, 7, 8, 9, 10, 11], false);
            vec_cell(&mut cx, "valvec32_el", cap0, (0, false), &ops, Coq::Budget);
            let ops = gen_vec_ops(&mut rng, &[0, 0, 1, 5, 7, 8, 9, 10, 11, 16], true);
            vec_cell(&mut cx, "valvec32_u64", cap0, (0, false), &ops, Coq::Budget);
            let ops = gen_vec_ops(&mut rng, &[0, 0, 0, 1, 5, 8, 9, 12], false);
            vec_cell(&mut cx, "cachevec_el", cap0, (0, false), &ops, Coq::Budget);
            vec_cell(&mut cx, "cachevec_u8", cap0, (0, false), &ops, Coq::Budget);
            let ops = gen_vec_ops(&mut rng, &[0, 0, 0, 1, 9], false);
            vec_cell(&mut cx, "bumpvec_el", cap0.max(1), (0, false), &ops, Coq::Budget);
            let ops = gen_vec_ops(&mut rng, &[0, 0, 9], false);
            vec_cell(&mut cx, "layoutvec_u64", cap0, (0, false), &ops, Coq::Budget);
        }
        if i % 8 == 0 {
            let ops = gen_vec_ops(&mut rng, &[0, 0, 1, 4, 5, 6, 7, 8, 9, 12, 13, 14, 15], i % 16 == 0);
            vec_cell(&mut cx, "mmapvec_u64", cap0, (0, false), &ops, Coq::Budget);
        }
        if i % 3 == 0 {
            let ops = gen_str_ops(&mut rng, None);
            if i == 0 { cx.sum.sample(json!({"strvec_ops": ops.iter().take(8).collect::<Vec<_>>()})); }
            strvec_history(&mut cx, &ops, Coq::Budget);
            let n = [4u64, 8, 16, 300, 32, 64][((i / 3) % 6) as usize];
            let ops = gen_str_ops(&mut rng, Some(n as usize));
            fixedlen_history(&mut cx, n, &ops, Coq::Budget);
            let ops = gen_str_ops(&mut rng, Some(300));
            bitpacked_history(&mut cx, (i / 3) % 2 == 0, &ops, Coq::Budget);
        }
        let kind = i % STR_KINDS;
        let strs = gen_strings(&mut rng, kind);
        if i < 13 && kind == 0 { cx.sum.sample(json!({"strings": strs.iter().take(6).collect::<Vec<_>>()})); }
        str_case(&mut cx, kind, &strs, rng.below(30));
    }
    // long strings at the packing limits of the arena-index string vectors (few, they are large)
    for (kind, l) in [(0u64, (1usize << 20) - 1), (0, 1 << 20), (0, (1 << 20) + 5), (7, 1 << 20), (9, 1 << 20)] {
        let strs = vec!["head".to_string(), "x".repeat(l), "tail".to_string()];
        str_case(&mut cx, kind, &strs, 0);
    }
    valvec32_limits(&mut cx);
    fixedlen_limit(&mut cx);
    refused_families(&mut cx);
    breadth::run_all(&mut cx, args, &mut rng);
    // SortableStrVec at the 20-bit length limit, also replayed in Coq (the long strings are `repeat` terms there)
    strvec_history(&mut cx, &[json!([0, "head"]), json!([0, [120, (1u64 << 20) - 1]]), json!([0, [121, 1u64 << 20]]), json!([13, [122, (1u64 << 20) + 5]]), json!([0, "tail"]),
                              json!([1, 2]), json!([1, 1]), json!([1, 0]), json!([2]), json!([5]), json!([8, 0]), json!([8, 2]), json!([6]), json!([10]), json!([1, 2])], Coq::Always);
    cx.sum.dist_max("coq_cases", cx.shards.len() as u64);
    let sh = cx.shards.write(&args.out);
    cx.sum.write(&args.out, sh);
}
