//! C02: every compressor of the compressor layer (factory, hybrid, adaptive / real-time front ends,
//! PA-Zip, SIMD LZ77) round-trips every payload: decompress(compress(x)) = x.
//! M+S cells (mechanism model in coq/C02/Model.v): the PA-Zip bit-level match codec, the hybrid
//! selector, the rANS table normalisation applied to the stored table.  Everything else is decided
//! by the direct oracle only (S-only).
use crate::util::*;
use serde_json::{json, Value};
use std::time::{Duration, Instant};
use zipora::compression::dict_zip::compression_types as ct;
use zipora::compression::dict_zip::{
    decode_match, decode_matches, encode_match, encode_matches, BitReader, BitWriter, DictionaryBuilder,
    DictionaryBuilderConfig, Match, PaZipCompressor, PaZipCompressorConfig, SuffixArrayDictionary,
    SuffixArrayDictionaryConfig, CompressionStrategy, CompressionType, choose_best_compression_type,
};
use zipora::compression::{
    AdaptiveCompressor, AdaptiveConfig, Algorithm, CompressionMode, Compressor, CompressorFactory, DictCompressor,
    HuffmanCompressor, HybridCompressor, PerformanceRequirements, RansCompressor, RealtimeCompressor, RealtimeConfig,
    SimdLz77Compressor,
};
use zipora::entropy::rans::{ParallelX1, Rans64Encoder};
use zipora::memory::{SecureMemoryPool, SecurePoolConfig};

#[path = "c02_x.rs"]
mod x;
#[path = "c02_b.rs"]
mod b;

const HEADER: &str = r#"From ZV.Common Require Import Base Run.
From ZV.C02 Require Import Model RunCase RunCaseX.
Open Scope N_scope.
Definition case_t : Type := N * list N * list N * list N.
Definition ok (c : case_t) : bool :=
  let '(op, a, b, expect) := c in eqb_ln (run_case_all op a b) expect.
"#;

struct Ctx {
    sum: Summary,
    shards: CoqShards,
    coq_budget: usize,
    per_op: std::collections::HashMap<u32, usize>,
    rng: Rng,
}

impl Ctx {
    /// Register a case for the Coq model: run_case op a b must equal expect.
    fn coq(&mut self, op: u32, a: &[u128], b: &[u128], expect: &[u128], cj: Value, force: bool) {
        // one budget per kind of case, so that the large enumerated families do not crowd out the others
        let used = self.per_op.entry(op).or_insert(0);
        // (a rANS table case costs ~0.5 s of coqc: two 256-entry lists and the three normalisation passes)
        let limit = match op {
            0 | 1 => self.coq_budget / 6, 5 => self.coq_budget * 2 / 15, 4 => self.coq_budget / 12, 2 => self.coq_budget / 25,
            // extension ops: compressor frames (a rANS case normalises a table: ~0.5 s), front-end automata, PA-Zip compress, SIMD LZ77 tokens
            10 | 11 => self.coq_budget / 60, 12 => self.coq_budget / 100, 13..=17 => self.coq_budget / 40,
            20..=29 => self.coq_budget / 25, 30..=39 => self.coq_budget / 20, 40..=49 => self.coq_budget / 25,
            _ => self.coq_budget / 90 };
        if !force && *used >= limit { return; }
        *used += 1;
        let term = format!("({}, {}, {}, {})", op, coq_n_list(a.iter().cloned()), coq_n_list(b.iter().cloned()), coq_n_list(expect.iter().cloned()));
        let mut cj = cj;
        cj["coq_op"] = json!(op);
        cj["impl_obs"] = json!(expect.iter().map(|x| x.to_string()).collect::<Vec<_>>());
        self.shards.push(term, cj);
    }
}

// ---------------------------------------------------------------------------------------------
// PA-Zip bit-level match codec (M+S)
// ---------------------------------------------------------------------------------------------
/// (kind, a, b) as in Model.mk_match
type M3 = (u8, u64, u64);

fn to_match(m: &M3) -> Option<Match> {
    let (k, a, b) = *m;
    Some(match k {
        0 => Match::Literal { length: u8::try_from(b).ok()? },
        1 => Match::Global { dict_position: u32::try_from(a).ok()?, length: u16::try_from(b).ok()? },
        2 => Match::RLE { byte_value: u8::try_from(a).ok()?, length: u8::try_from(b).ok()? },
        3 => Match::NearShort { distance: u8::try_from(a).ok()?, length: u8::try_from(b).ok()? },
        4 => Match::Far1Short { distance: u16::try_from(a).ok()?, length: u8::try_from(b).ok()? },
        5 => Match::Far2Short { distance: u32::try_from(a).ok()?, length: u8::try_from(b).ok()? },
        6 => Match::Far2Long { distance: u16::try_from(a).ok()?, length: u16::try_from(b).ok()? },
        _ => Match::Far3Long { distance: u32::try_from(a).ok()?, length: u32::try_from(b).ok()? },
    })
}
fn from_match(m: &Match) -> M3 {
    match m {
        Match::Literal { length } => (0, 0, *length as u64),
        Match::Global { dict_position, length } => (1, *dict_position as u64, *length as u64),
        Match::RLE { byte_value, length } => (2, *byte_value as u64, *length as u64),
        Match::NearShort { distance, length } => (3, *distance as u64, *length as u64),
        Match::Far1Short { distance, length } => (4, *distance as u64, *length as u64),
        Match::Far2Short { distance, length } => (5, *distance as u64, *length as u64),
        Match::Far2Long { distance, length } => (6, *distance as u64, *length as u64),
        Match::Far3Long { distance, length } => (7, *distance as u64, *length as u64),
    }
}
fn flat(ms: &[M3]) -> Vec<u128> {
    ms.iter().flat_map(|m| [m.0 as u128, m.1 as u128, m.2 as u128]).collect()
}
fn ms_json(ms: &[M3]) -> Vec<Value> {
    ms.iter().map(|m| json!([m.0, m.1, m.2])).collect()
}
fn parse_ms(v: &Value) -> Vec<M3> {
    v.as_array().map(|a| a.iter().filter_map(|t| {
        let t = t.as_array()?;
        Some((t.get(0)?.as_u64()? as u8, t.get(1)?.as_u64()?, t.get(2)?.as_u64()?))
    }).collect()).unwrap_or_default()
}

/// field ranges per kind: (a_min, a_max, b_min, b_max) of *valid* matches, and the type maxima
fn kind_ranges(k: u8) -> (u64, u64, u64, u64) {
    match k {
        0 => (0, 0, 1, ct::MAX_LITERAL_LENGTH as u64),
        1 => (0, u32::MAX as u64, ct::MIN_GLOBAL_LENGTH as u64, u16::MAX as u64),
        2 => (0, 255, 2, ct::MAX_RLE_LENGTH as u64),
        3 => (2, ct::MAX_NEAR_SHORT_DISTANCE as u64, 2, ct::MAX_NEAR_SHORT_LENGTH as u64),
        4 => (2, ct::MAX_FAR1_SHORT_DISTANCE as u64, 2, ct::MAX_FAR1_SHORT_LENGTH as u64),
        5 => (258, ct::MAX_FAR2_SHORT_DISTANCE as u64, 2, ct::MAX_FAR2_SHORT_LENGTH as u64),
        6 => (0, ct::MAX_FAR2_LONG_DISTANCE as u64, ct::MIN_FAR2_LONG_LENGTH as u64, u16::MAX as u64),
        _ => (0, ct::MAX_FAR3_LONG_DISTANCE as u64, ct::MIN_FAR2_LONG_LENGTH as u64, u32::MAX as u64),
    }
}
fn type_max(k: u8) -> (u64, u64) {
    match k {
        0 => (0, 255), 1 => (u32::MAX as u64, 65535), 2 => (255, 255), 3 => (255, 255), 4 => (65535, 255),
        5 => (u32::MAX as u64, 255), 6 => (65535, 65535), _ => (u32::MAX as u64, u32::MAX as u64),
    }
}
/// boundary values of a field with valid range lo..=hi and type maximum tmax
fn edge_values(lo: u64, hi: u64, tmax: u64) -> Vec<u64> {
    let mut v = vec![lo, hi, lo.saturating_sub(1), (lo + 1).min(tmax), hi.saturating_sub(1), (hi + 1).min(tmax), 0, tmax, (lo + hi) / 2];
    // variable-length thresholds of the long kinds (offset 34): 127/128, 32767/32768, 2^30-1+32768
    for t in [34u64 + 127, 34 + 128, 34 + 32767, 34 + 32768, 34 + 32768 + (1 << 30) - 1, 34 + 32768 + (1 << 30), 65535, 65536, 65501, 65502] {
        if t <= tmax { v.push(t); }
    }
    v.sort(); v.dedup(); v
}
fn rand_match(r: &mut Rng, valid_bias: bool) -> M3 {
    let k = r.below(8) as u8;
    let (alo, ahi, blo, bhi) = kind_ranges(k);
    let (ta, tb) = type_max(k);
    let pickf = |r: &mut Rng, lo: u64, hi: u64, t: u64| -> u64 {
        match r.below(if valid_bias { 12 } else { 4 }) {
            0 => *r.pick(&edge_values(lo, hi, t)),
            1 => r.range(0, t),
            2 => r.range(lo, hi.min(lo + 200)),
            _ => r.range(lo, hi),
        }
    };
    (k, pickf(r, alo, ahi, ta), pickf(r, blo, bhi, tb))
}
fn is_valid(m: &M3) -> bool {
    let (alo, ahi, blo, bhi) = kind_ranges(m.0);
    m.1 >= alo && m.1 <= ahi && m.2 >= blo && m.2 <= bhi
}
/// largest value the 30-bit third form of the variable-length field can carry, as a match length
const VL_MAX_LEN: u64 = 34 + 32768 + (1 << 30) - 1;

fn codec_list(cx: &mut Ctx, ms: &[M3], force: bool) {
    let cell = "pazip/bitcodec/encode_matches";
    let cj = json!({"cell": cell, "matches": ms_json(ms)});
    cx.sum.eval(cell, &format!("list {:?}", ms), ms.len() >= 2);
    cx.sum.dist(&format!("list_len_bucket={}", match ms.len() { 0 => "0", 1 => "1", 2..=4 => "2-4", 5..=15 => "5-15", _ => "16+" }));
    let rust_ms: Option<Vec<Match>> = ms.iter().map(to_match).collect();
    let rust_ms = match rust_ms { Some(v) => v, None => return };
    let all_valid = ms.iter().all(is_valid);
    let enc = guarded(|| encode_matches(&rust_ms));
    match enc {
        Err(p) => cx.sum.fail(cell, None, cj, &format!("encode_matches panicked: {}", p)),
        Ok(Err(_)) => {
            cx.sum.dist("encode_refused");
            cx.coq(0, &flat(ms), &[], &[0], cj.clone(), force);
            // a refusal is in order only for lists containing an invalid match or an unencodable length
            if all_valid && !ms.iter().any(|m| m.0 == 7 && m.2 > VL_MAX_LEN) {
                cx.sum.fail(cell, None, cj, "encode_matches refused a list of valid matches");
            }
        }
        Ok(Ok((bytes, total))) => {
            let mut exp = vec![1u128, total as u128];
            exp.extend(bytes.iter().map(|&b| b as u128));
            cx.coq(0, &flat(ms), &[], &exp, cj.clone(), force);
            cx.sum.dist(&format!("pad_bits={}", (8 - total % 8) % 8));
            if !all_valid {
                cx.sum.fail(cell, None, cj.clone(), "encode_matches accepted an invalid match");
            }
            let dec = guarded(|| decode_matches(&bytes));
            match dec {
                Err(p) => {
                    cx.coq(1, &bytes.iter().map(|&b| b as u128).collect::<Vec<_>>(), &[], &[2], cj.clone(), force);
                    cx.sum.fail(cell, None, cj, &format!("decode_matches panicked: {}", p));
                }
                Ok(Err(e)) => {
                    cx.coq(1, &bytes.iter().map(|&b| b as u128).collect::<Vec<_>>(), &[], &[0], cj.clone(), force);
                    cx.sum.fail(cell, None, cj, &format!("decode_matches(encode_matches(ms)) = Err({})", e));
                }
                Ok(Ok((back, tb))) => {
                    let back3: Vec<M3> = back.iter().map(from_match).collect();
                    let mut exp = vec![1u128, tb as u128];
                    exp.extend(flat(&back3));
                    cx.coq(1, &bytes.iter().map(|&b| b as u128).collect::<Vec<_>>(), &[], &exp, cj.clone(), force);
                    if back3 != ms || tb != total {
                        cx.sum.fail(cell, None, cj, &format!("decode_matches(encode_matches(ms)) = {:?} bits {} (encoded {} bits)", back3, tb, total));
                    }
                }
            }
        }
    }
}

/// one match through encode_match / decode_match with a non-empty prefix already in the writer
fn codec_single(cx: &mut Ctx, pre: &[M3], m: &M3, force: bool) {
    let cell = "pazip/bitcodec/encode_match";
    let cj = json!({"cell": cell, "pre": ms_json(pre), "matches": ms_json(&[*m])});
    cx.sum.eval(cell, &format!("single {:?} {:?}", pre, m), true);
    let (rm, pre_ms) = match (to_match(m), pre.iter().map(to_match).collect::<Option<Vec<Match>>>()) { (Some(a), Some(b)) => (a, b), _ => return };
    let r = guarded(|| {
        let mut w = BitWriter::new();
        for p in &pre_ms { if encode_match(p, &mut w).is_err() { return None; } }
        let before = w.bits_written();
        let n = match encode_match(&rm, &mut w) { Ok(n) => n, Err(_) => return Some(Err(())) };
        let after = w.bits_written();
        let buf = w.finish();
        let mut rd = BitReader::new(&buf);
        for _ in &pre_ms { if decode_match(&mut rd).is_err() { return Some(Ok((n, before, after, None))); } }
        let d = decode_match(&mut rd).ok().map(|(mm, used)| (from_match(&mm), used));
        Some(Ok((n, before, after, d)))
    });
    match r {
        Err(p) => cx.sum.fail(cell, None, cj, &format!("panicked: {}", p)),
        Ok(None) => {}
        Ok(Some(Err(()))) => {
            cx.sum.dist("encode_refused");
            if is_valid(m) && !(m.0 == 7 && m.2 > VL_MAX_LEN) { cx.sum.fail(cell, None, cj, "encode_match refused a valid match"); }
        }
        Ok(Some(Ok((n, before, after, d)))) => {
            if !is_valid(m) { cx.sum.fail(cell, None, cj.clone(), "encode_match accepted an invalid match"); }
            if after - before != n { cx.sum.fail(cell, None, cj.clone(), "returned bit count differs from bits_written delta"); }
            if n < 8 { cx.sum.fail(cell, None, cj.clone(), "a match encoded in fewer than 8 bits"); }
            if d != Some((*m, n)) {
                cx.sum.fail(cell, None, cj, &format!("decode_match(encode_match(m)) = {:?}, want ({:?}, {})", d, m, n));
            }
            let _ = force;
        }
    }
}

/// arbitrary bytes through decode_matches: ties the model's reader to the code on every input
fn codec_raw(cx: &mut Ctx, bytes: &[u8], force: bool) {
    let cell = "pazip/bitcodec/decode_raw";
    let cj = json!({"cell": cell, "data": bytes});
    cx.sum.eval(cell, &format!("raw {:?}", bytes), bytes.len() >= 2);
    let a: Vec<u128> = bytes.iter().map(|&b| b as u128).collect();
    match guarded(|| decode_matches(bytes)) {
        Err(_) => { cx.sum.dist("decode_raw_panic"); cx.coq(1, &a, &[], &[2], cj, force); }
        Ok(Err(_)) => { cx.sum.dist("decode_raw_err"); cx.coq(1, &a, &[], &[0], cj, force); }
        Ok(Ok((back, tb))) => {
            cx.sum.dist("decode_raw_ok");
            let back3: Vec<M3> = back.iter().map(from_match).collect();
            let mut exp = vec![1u128, tb as u128];
            exp.extend(flat(&back3));
            cx.coq(1, &a, &[], &exp, cj.clone(), force);
            // what decodes must re-encode to a stream that decodes to the same list
            let re = guarded(|| encode_matches(&back).ok().and_then(|(b2, _)| decode_matches(&b2).ok()).map(|(l, _)| l));
            if re.as_ref().ok().and_then(|x| x.as_ref()) != Some(&back) {
                cx.sum.fail(cell, None, cj, "decoded list does not survive encode/decode");
            }
        }
    }
}

fn codec_consts(cx: &mut Ctx) {
    let c: Vec<u128> = [ct::MAX_LITERAL_LENGTH, ct::MAX_RLE_LENGTH, ct::MAX_FAR1_SHORT_LENGTH, ct::MAX_FAR2_SHORT_LENGTH,
        ct::MAX_NEAR_SHORT_DISTANCE, ct::MAX_NEAR_SHORT_LENGTH, ct::MAX_FAR1_SHORT_DISTANCE, ct::MAX_FAR2_SHORT_DISTANCE,
        ct::MAX_FAR2_LONG_DISTANCE, ct::MAX_FAR3_LONG_DISTANCE, ct::MIN_GLOBAL_LENGTH, ct::MIN_FAR2_LONG_LENGTH]
        .iter().map(|&x| x as u128).collect();
    cx.coq(9, &[], &[], &c, json!({"cell": "pazip/bitcodec/consts"}), true);
}

// ---------------------------------------------------------------------------------------------
// payload / training families
// ---------------------------------------------------------------------------------------------
const TEXT: &[u8] = b"the quick brown fox jumps over the lazy dog. pack my box with five dozen liquor jugs. how vexingly quick daft zebras jump! ";

fn payload(r: &mut Rng, fam: u64, n: usize) -> Vec<u8> {
    match fam {
        0 => r.bytes(n),                                                         // incompressible
        1 => (0..n).map(|i| TEXT[i % TEXT.len()]).collect(),                     // text
        2 => { let b = r.next() as u8; vec![b; n] }                              // one run
        3 => { let p = r.range(2, 9) as usize; let pat = r.bytes(p); (0..n).map(|i| pat[i % p]).collect() } // near period
        4 => { let mut v = Vec::new(); while v.len() < n { let b = r.next() as u8; let l = *r.pick(&[1usize, 2, 3, 32, 33, 34, 35, 64]); v.extend(std::iter::repeat(b).take(l)); } v.truncate(n); v } // runs around 33/34
        5 => (0..n).map(|i| (i % 256) as u8).collect(),                          // all symbols, flat
        6 => (0..n).map(|_| if r.chance(9, 10) { b'a' } else { r.next() as u8 }).collect(), // skewed
        7 => { let a = r.next() as u8; (0..n).map(|_| if r.chance(1, 2) { a } else { a.wrapping_add(1) }).collect() } // two symbols
        8 => { let p = *r.pick(&[257usize, 258, 300]); let pat = r.bytes(p); (0..n).map(|i| pat[i % p]).collect() } // far period
        _ => { let mut v: Vec<u8> = (0..n).map(|i| TEXT[i % TEXT.len()]).collect(); for _ in 0..(n / 16 + 1) { if !v.is_empty() { let i = r.below(v.len() as u64) as usize; v[i] = r.next() as u8; } } v }
    }
}
fn rand_len(r: &mut Rng) -> usize {
    match r.below(10) {
        0 => 0,
        1 => 1,
        2 => *r.pick(&[2usize, 3, 7, 8, 9, 31, 32, 33, 34, 35, 63, 64, 65]),
        3 => *r.pick(&[127usize, 128, 129, 255, 256, 257, 258, 259, 511, 512, 1023, 1024, 1025]),
        4..=7 => r.range(2, 200) as usize,
        _ => r.range(200, 1500) as usize,
    }
}
fn rand_payload(r: &mut Rng) -> Vec<u8> {
    let fam = r.below(10);
    let n = rand_len(r);
    payload(r, fam, n)
}
/// training relative to a payload: 0 same, 1 unrelated text, 2 unrelated random, 3 single byte,
/// 4 all 256 symbols flat, 5 payload ++ text, 6 first half of the payload
fn training(r: &mut Rng, kind: u64, x: &[u8]) -> Vec<u8> {
    match kind {
        0 => x.to_vec(),
        1 => TEXT.to_vec(),
        2 => r.bytes(300),
        3 => vec![x.first().copied().unwrap_or(b'z')],
        4 => (0..512).map(|i| (i % 256) as u8).collect(),
        5 => { let mut v = x.to_vec(); v.extend_from_slice(TEXT); v }
        _ => x[..x.len() / 2].to_vec(),
    }
}
fn symbols_subset(x: &[u8], train: &[u8]) -> bool {
    let mut seen = [false; 256];
    for &b in train { seen[b as usize] = true; }
    x.iter().all(|&b| seen[b as usize])
}

// ---------------------------------------------------------------------------------------------
// factory compressors (S-only, plus model ties for hybrid / rANS table)
// ---------------------------------------------------------------------------------------------
const ALGS: [(Algorithm, &str); 12] = [
    (Algorithm::None, "None"), (Algorithm::Lz4, "Lz4"), (Algorithm::Zstd(1), "Zstd1"), (Algorithm::Zstd(3), "Zstd3"),
    (Algorithm::Zstd(9), "Zstd9"), (Algorithm::Zstd(19), "Zstd19"), (Algorithm::Zstd(-5), "Zstd-5"),
    (Algorithm::Huffman, "Huffman"), (Algorithm::Rans, "Rans"), (Algorithm::Dictionary, "Dictionary"),
    (Algorithm::SimdLz77, "SimdLz77"), (Algorithm::Hybrid, "Hybrid"),
];
fn needs_training(a: Algorithm) -> bool {
    matches!(a, Algorithm::Huffman | Algorithm::Rans | Algorithm::Dictionary | Algorithm::Hybrid)
}

fn factory_case(cx: &mut Ctx, ai: usize, x: &[u8], train: &[u8]) {
    let (alg, name) = ALGS[ai % ALGS.len()];
    let cell = format!("factory/{}", name);
    // the header layouts of the three trained compressors are modelled (coq/C02/ModelComp.v) and tied by x::comp_tie
    let modelled = matches!(alg, Algorithm::Huffman | Algorithm::Rans | Algorithm::Dictionary | Algorithm::Hybrid);
    cx.sum.cell_status(&cell, if modelled { "M+S" } else { "S-only" });
    let cj = json!({"cell": "factory", "alg": ai, "data": x, "train": train});
    cx.sum.eval(&cell, &format!("f {} {:?} {:?}", ai, x, train), x.len() >= 2);
    let tr = if needs_training(alg) { Some(train) } else { None };
    let c = match guarded(|| CompressorFactory::create(alg, tr)) {
        Err(p) => { cx.sum.fail(&cell, None, cj, &format!("create panicked: {}", p)); return; }
        Ok(Err(e)) => {
            cx.sum.dist("create_refused");
            if !(needs_training(alg) && train.is_empty()) {
                cx.sum.fail(&cell, None, cj, &format!("factory refused to build the compressor: {}", e));
            }
            return;
        }
        Ok(Ok(c)) => c,
    };
    roundtrip_dyn(cx, &cell, c.as_ref(), alg, x, train, cj.clone());
    // stored tables: a second instance trained on other data must decode Huffman / rANS output
    if matches!(alg, Algorithm::Huffman | Algorithm::Rans) && !x.is_empty() {
        let cell2 = format!("factory/{}/other_instance", name);
        cx.sum.cell_status(&cell2, "M+S");
        if let Ok(Ok(z)) = guarded(|| c.compress(x)) {
            if let Ok(Ok(c2)) = guarded(|| CompressorFactory::create(alg, Some(TEXT))) {
                cx.sum.eval(&cell2, &format!("f2 {} {:?} {:?}", ai, x, train), true);
                match guarded(|| c2.decompress(&z)) {
                    Ok(Ok(y)) if y == x => {}
                    Ok(r) => cx.sum.fail(&cell2, class_for(alg, x, train), cj, &format!("instance trained on other data decodes to {:?}", r.map(|v| v.len()).map_err(|e| e.to_string()))),
                    Err(p) => cx.sum.fail(&cell2, class_for(alg, x, train), cj, &format!("decompress panicked: {}", p)),
                }
            }
        }
    }
}

/// finding classes of the compressor layer (none at present: the defects found were repaired)
fn class_for(_alg: Algorithm, _x: &[u8], _train: &[u8]) -> Option<&'static str> { None }

fn roundtrip_dyn(cx: &mut Ctx, cell: &str, c: &dyn Compressor, alg: Algorithm, x: &[u8], train: &[u8], cj: Value) {
    let class = class_for(alg, x, train);
    match guarded(|| c.compress(x)) {
        Err(p) => cx.sum.fail(cell, class, cj, &format!("compress panicked: {}", p)),
        Ok(Err(zipora::error::ZiporaError::NotSupported { .. })) => cx.sum.dist("algorithm_not_in_this_build"),
        Ok(Err(e)) => {
            cx.sum.dist("compress_refused");
            // an entropy coder may refuse a payload with symbols its table does not have; nothing else may
            let excusable = matches!(alg, Algorithm::Huffman | Algorithm::Rans) && !symbols_subset(x, train);
            if !excusable { cx.sum.fail(cell, class, cj, &format!("compress refused: {}", e)); }
        }
        Ok(Ok(z)) => {
            cx.sum.dist(if z.len() < x.len() { "shrunk" } else { "not_shrunk" });
            match guarded(|| c.decompress(&z)) {
                Err(p) => cx.sum.fail(cell, class, cj, &format!("decompress panicked: {}", p)),
                Ok(Err(e)) => cx.sum.fail(cell, class, cj, &format!("decompress(compress(x)) = Err({}) for |x|={}", e, x.len())),
                Ok(Ok(y)) => if y != x {
                    let at = y.iter().zip(x.iter()).position(|(a, b)| a != b).unwrap_or(y.len().min(x.len()));
                    cx.sum.fail(cell, class, cj, &format!("decompress(compress(x)) differs from x at byte {} (|x|={}, |y|={})", at, x.len(), y.len()));
                } else if class.is_some() { cx.sum.dist("known_class_but_passed"); }
            }
        }
    }
}

/// hybrid selector tie: the component outputs are inputs of the model, which must pick the same
/// (tag, length); and the direct component compressors round-trip on their own
fn hybrid_tie(cx: &mut Ctx, x: &[u8], train: &[u8], force: bool) {
    let cell = "hybrid/select";
    if train.is_empty() { return; }
    let cj = json!({"cell": cell, "data": x, "train": train});
    cx.sum.eval(cell, &format!("h {:?} {:?}", x, train), x.len() >= 2);
    let r = guarded(|| {
        let h = HybridCompressor::new(train).ok()?;
        let comps: Vec<Box<dyn Compressor>> = vec![Box::new(HuffmanCompressor::new(train).ok()?), Box::new(RansCompressor::new(train).ok()?), Box::new(DictCompressor::new(train).ok()?)];
        let lens: Vec<Option<usize>> = comps.iter().map(|c| c.compress(x).ok().map(|z| z.len())).collect();
        let out = h.compress(x).ok()?;
        Some((lens, out))
    });
    match r {
        Err(p) => cx.sum.fail(cell, None, cj, &format!("panicked: {}", p)),
        Ok(None) => cx.sum.dist("hybrid_tie_skipped"),
        Ok(Some((lens, out))) => {
            // a = |x| followed by per component: 1,len or 0,0 ; expect = [tag, total output length]
            let mut a = vec![x.len() as u128];
            for l in &lens { match l { Some(n) => { a.push(1); a.push(*n as u128); } None => { a.push(0); a.push(0); } } }
            // the value of the stored-data marker is the code's business: any tag that is not a component index counts as "stored"
            let exp: Vec<u128> = if out.is_empty() { vec![] } else { vec![if (out[0] as usize) < lens.len() { out[0] as u128 } else { 255 }, out.len() as u128] };
            cx.coq(2, &a, &[], &exp, cj, force);
            cx.sum.dist(&format!("hybrid_tag={}", out.first().map(|t| t.to_string()).unwrap_or("empty".into())));
        }
    }
}

/// rANS table tie: Rans64Encoder::new(f).get_symbol(i).freq against the model's rans_table
fn rans_tie(cx: &mut Ctx, f: &[u32; 256], force: bool) {
    let cell = "rans/table";
    let cj = json!({"cell": cell, "freqs": f.to_vec()});
    cx.sum.eval(cell, &format!("r {:?}", &f[..]), true);
    let a: Vec<u128> = f.iter().map(|&v| v as u128).collect();
    match guarded(|| Rans64Encoder::<ParallelX1>::new(f).ok().map(|e| (0..=255u8).map(|i| e.get_symbol(i).freq as u128).collect::<Vec<_>>())) {
        Err(_) => { cx.sum.dist("rans_table_panic"); }
        Ok(None) => cx.coq(3, &a, &[], &[0], cj, force),
        Ok(Some(t)) => {
            let mut exp = vec![1u128]; exp.extend(t.iter().cloned());
            cx.coq(3, &a, &[], &exp, cj.clone(), force);
            // the table a decoder rebuilds from the stored counts must be the encoder's table
            let s: u128 = t.iter().sum();
            if s != 0 && s != 4096 { cx.sum.fail(cell, None, cj, &format!("normalised table sums to {}", s)); }
        }
    }
}
fn counts(x: &[u8]) -> [u32; 256] { let mut f = [0u32; 256]; for &b in x { f[b as usize] += 1; } f }

// ---------------------------------------------------------------------------------------------
// adaptive / real-time front ends (S-only)
// ---------------------------------------------------------------------------------------------
const FRONT_ALGS: [Algorithm; 6] = [Algorithm::None, Algorithm::Lz4, Algorithm::Zstd(1), Algorithm::Zstd(6), Algorithm::SimdLz77, Algorithm::Zstd(15)];

/// history: each step optionally switches the algorithm, then compresses and decompresses a payload
fn adaptive_case(cx: &mut Ctx, steps: &[(u64, Vec<u8>)], aggressive: bool, min_ops: usize, interval: usize) {
    let cell = "adaptive";
    cx.sum.cell_status(cell, "M+S");
    let cj = json!({"cell": cell, "steps": steps.iter().map(|(a, d)| json!([a, d])).collect::<Vec<_>>(), "aggressive": aggressive, "min_ops": min_ops, "interval": interval});
    cx.sum.eval(cell, &format!("ad {:?} {} {} {}", steps, aggressive, min_ops, interval), steps.len() >= 2);
    let r = guarded(|| {
        let cfg = AdaptiveConfig { min_operations: min_ops, evaluation_interval: interval, aggressive_learning: aggressive, learning_window: 16, ..Default::default() };
        let mut a = match AdaptiveCompressor::new(cfg, PerformanceRequirements::default()) { Ok(a) => a, Err(e) => return Some(format!("new failed: {}", e)) };
        for (i, (sw, d)) in steps.iter().enumerate() {
            if *sw == 7 {
                // CompressionProfile learning: must not disturb what compress/decompress do
                if let Err(e) = a.train(&[(d.as_slice(), "text"), (TEXT, "other")]) { return Some(format!("step {}: train failed: {}", i, e)); }
            } else if *sw > 0 {
                if let Err(e) = a.set_algorithm(FRONT_ALGS[(*sw as usize - 1) % FRONT_ALGS.len()]) { return Some(format!("step {}: set_algorithm failed: {}", i, e)); }
            }
            let z = match a.compress(d) {
                Ok(z) => z,
                // the lz4 feature is off in the default build: the algorithm is not obtainable, nothing to invert
                Err(zipora::error::ZiporaError::NotSupported { .. }) => continue,
                Err(e) => return Some(format!("step {}: compress refused: {}", i, e)),
            };
            match a.decompress(&z) {
                Ok(y) if &y == d => {}
                Ok(y) => return Some(format!("step {}: decompress(compress(x)) has {} bytes, x has {}", i, y.len(), d.len())),
                Err(e) => return Some(format!("step {}: decompress(compress(x)) = Err({})", i, e)),
            }
        }
        None
    });
    match r {
        Err(p) => cx.sum.fail(cell, None, cj, &format!("panicked: {}", p)),
        Ok(Some(msg)) => cx.sum.fail(cell, None, cj, &msg),
        Ok(None) => {}
    }
}

const MODES: [(CompressionMode, &str); 4] = [(CompressionMode::UltraLowLatency, "UltraLowLatency"), (CompressionMode::LowLatency, "LowLatency"),
    (CompressionMode::Balanced, "Balanced"), (CompressionMode::HighCompression, "HighCompression")];

/// steps: (switch_mode 0=keep else mode index+1, deadline kind 0=mode default 1=already passed 2=an hour, payload)
fn realtime_case(cx: &mut Ctx, mode: usize, fallback: bool, steps: &[(u64, u64, Vec<u8>)]) {
    let cell = format!("realtime/{}", MODES[mode % 4].1);
    cx.sum.cell_status(&cell, "M+S");
    let cj = json!({"cell": "realtime", "mode": mode, "fallback": fallback, "steps": steps.iter().map(|(a, b, d)| json!([a, b, d])).collect::<Vec<_>>()});
    cx.sum.eval(&cell, &format!("rt {} {} {:?}", mode, fallback, steps), steps.len() >= 2);
    let r = guarded(|| {
        let rt = tokio::runtime::Builder::new_current_thread().enable_all().build().unwrap();
        rt.block_on(async {
            let cfg = RealtimeConfig { mode: MODES[mode % 4].0, fallback_on_timeout: fallback, max_concurrent: 2, ..Default::default() };
            let c = match RealtimeCompressor::new(cfg) { Ok(c) => c, Err(e) => return Some(format!("new failed: {}", e)) };
            for (i, (sw, dl, d)) in steps.iter().enumerate() {
                if *sw > 0 { if let Err(e) = c.set_mode(MODES[(*sw as usize - 1) % 4].0) { return Some(format!("step {}: set_mode failed: {}", i, e)); } }
                if *dl == 3 {
                    let rev: Vec<u8> = d.iter().rev().cloned().collect();
                    let items: Vec<&[u8]> = vec![d.as_slice(), rev.as_slice(), &d[..d.len() / 2]];
                    match c.compress_batch(items.clone()).await {
                        Err(zipora::error::ZiporaError::NotSupported { .. }) => continue,
                        Err(_) if !fallback => continue,
                        Err(e) => return Some(format!("step {}: compress_batch refused: {}", i, e)),
                        Ok(zs) => {
                            // the batch may stop early when its deadline passes; what it returns must decode
                            for (j, z) in zs.iter().enumerate() {
                                match c.decompress(z).await {
                                    Ok(y) if y.as_slice() == items[j] => {}
                                    Ok(y) => return Some(format!("step {}: batch item {} decodes to {} bytes, item has {}", i, j, y.len(), items[j].len())),
                                    Err(e) => return Some(format!("step {}: batch item {}: decompress = Err({})", i, j, e)),
                                }
                            }
                        }
                    }
                    continue;
                }
                let z = match dl {
                    0 => c.compress(d).await,
                    1 => c.compress_with_deadline(d, Instant::now()).await,
                    _ => c.compress_with_deadline(d, Instant::now() + Duration::from_secs(3600)).await,
                };
                let z = match z {
                    Ok(z) => z,
                    // without the fallback a missed deadline is reported as an error: that is a refusal, not a wrong answer
                    Err(_) if !fallback && *dl != 2 => continue,
                    Err(zipora::error::ZiporaError::NotSupported { .. }) => continue,
                    Err(e) => return Some(format!("step {}: compress refused: {}", i, e)),
                };
                match c.decompress(&z).await {
                    Ok(y) if &y == d => {}
                    Ok(y) => return Some(format!("step {}: decompress(compress(x)) has {} bytes, x has {}", i, y.len(), d.len())),
                    Err(e) => return Some(format!("step {}: decompress(compress(x)) = Err({})", i, e)),
                }
            }
            None
        })
    });
    match r {
        Err(p) => cx.sum.fail(&cell, None, cj, &format!("panicked: {}", p)),
        Ok(Some(msg)) => cx.sum.fail(&cell, None, cj, &msg),
        Ok(None) => {}
    }
}

// ---------------------------------------------------------------------------------------------
// PA-Zip compressor presets, SIMD LZ77 (S-only)
// ---------------------------------------------------------------------------------------------
const PRESETS: [&str; 6] = ["default", "fast_compression", "high_compression", "balanced", "realtime", "reference_compliant"];
fn preset(i: usize) -> PaZipCompressorConfig {
    match i % 6 {
        0 => PaZipCompressorConfig::default(),
        1 => PaZipCompressorConfig::fast_compression(),
        2 => PaZipCompressorConfig::high_compression(),
        3 => PaZipCompressorConfig::balanced(),
        4 => PaZipCompressorConfig::realtime(),
        _ => PaZipCompressorConfig::reference_compliant(),
    }
}

/// dict_kind 0: DictionaryBuilder::default().build(train); 1: small builder config; 2: SuffixArrayDictionary::new(train) (whole text)
fn pazip_case(cx: &mut Ctx, pi: usize, dict_kind: u64, payloads: &[Vec<u8>], train: &[u8]) {
    let cj = json!({"cell": "pazip", "preset": pi, "dict_kind": dict_kind, "payloads": payloads, "train": train});
    let key = format!("pz {} {} {:?} {:?}", pi, dict_kind, payloads, train);
    pazip_case_inner(cx, pi, dict_kind, payloads, train, cj, key)
}
/// A payload of n bytes described by (n, seed) instead of spelled out (the case JSON of a 1 MiB payload would be megabytes):
/// pieces of the training text, runs, and random bytes.  Inputs of 1 MiB and more take PaZipCompressor's block-wise path
/// (64 KiB blocks compressed one after the other into one output).
fn big_payload(n: usize, seed: u64) -> Vec<u8> {
    let mut r = Rng::new(seed ^ 0xB16);
    let mut x = Vec::with_capacity(n + 64);
    while x.len() < n {
        match r.below(4) {
            0 => { let a = r.below(TEXT.len() as u64 - 8) as usize; let l = r.range(4, (TEXT.len() - a).min(60) as u64) as usize; x.extend_from_slice(&TEXT[a..a + l]); }
            1 => { let b = r.below(256) as u8; let l = r.range(1, 40) as usize; x.extend(std::iter::repeat(b).take(l)); }
            2 => { let l = r.range(1, 24) as usize; x.extend(r.bytes(l)); }
            _ => x.extend_from_slice(b"the quick brown fox "),
        }
    }
    x.truncate(n);
    x
}
fn pazip_big_case(cx: &mut Ctx, pi: usize, n: usize, seed: u64) {
    let x = big_payload(n, seed);
    let cj = json!({"cell": "pazip_big", "preset": pi, "n": n, "seed": seed});
    cx.sum.dist("pazip_payload_ge_1MiB");
    pazip_case_inner(cx, pi, 2, &[x], TEXT, cj, format!("pzbig {} {} {}", pi, n, seed))
}
fn pazip_case_inner(cx: &mut Ctx, pi: usize, dict_kind: u64, payloads: &[Vec<u8>], train: &[u8], cj: Value, key: String) {
    let cell = format!("pazip/compressor/{}", PRESETS[pi % 6]);
    cx.sum.cell_status(&cell, "S-only");
    cx.sum.eval(&cell, &key, payloads.iter().any(|p| p.len() >= 2));
    let class = if pi % 6 == 5 && payloads.iter().any(|p| !p.is_empty()) { Some("pazip_reference_no_decoder") } else { None };
    let stats = std::cell::Cell::new((0u32, 0u32));
    let r = guarded(|| {
        let dict = match dict_kind {
            0 => DictionaryBuilder::new().build(train),
            1 => DictionaryBuilder::with_config(DictionaryBuilderConfig { target_dict_size: 2048, max_dict_size: 4096, validate_result: true, ..Default::default() }).build(train),
            _ => SuffixArrayDictionary::new(train, SuffixArrayDictionaryConfig::default()),
        };
        let dict = match dict { Ok(d) => d, Err(e) => return Err(format!("dictionary refused: {}", e)) };
        let pool = match SecureMemoryPool::new(SecurePoolConfig::new(4096, 1024, 8)) { Ok(p) => p, Err(e) => return Err(format!("pool: {}", e)) };
        let mut c = match PaZipCompressor::new(dict, preset(pi), pool) { Ok(c) => c, Err(e) => return Err(format!("compressor refused: {}", e)) };
        let (mut globals, mut literals) = (0u32, 0u32);
        for (i, x) in payloads.iter().enumerate() {
            let mut z = Vec::new();
            match c.compress(x, &mut z) {
                Err(e) => return Ok(Some(format!("payload {}: compress refused: {}", i, e))),
                Ok(st) => { if st.global_matches > 0 { globals += 1; } if st.literal_count > 0 { literals += 1; } }
            }
            let mut y = Vec::new();
            match c.decompress(&z, &mut y) {
                Ok(()) if &y == x => {}
                Ok(()) => {
                    let at = y.iter().zip(x.iter()).position(|(a, b)| a != b).unwrap_or(y.len().min(x.len()));
                    return Ok(Some(format!("payload {}: decompress(compress(x)) differs at byte {} (|x|={}, |y|={}, |z|={})", i, at, x.len(), y.len(), z.len())));
                }
                Err(e) => return Ok(Some(format!("payload {}: decompress(compress(x)) = Err({})", i, e))),
            }
        }
        stats.set((globals, literals));
        Ok(None)
    });
    let (g, l) = stats.get();
    if g > 0 { cx.sum.dist("pazip_case_with_global_match"); }
    if l > 0 { cx.sum.dist("pazip_case_with_literal"); }
    match r {
        Err(p) => cx.sum.fail(&cell, class, cj, &format!("panicked: {}", p)),
        Ok(Err(_)) => cx.sum.dist("pazip_setup_refused"),
        Ok(Ok(Some(msg))) => cx.sum.fail(&cell, class, cj, &msg),
        Ok(Ok(None)) => if class.is_some() { cx.sum.dist("known_class_but_passed") },
    }
}

/// The record writer of the legacy byte format against `decompress`, for parses the match finders do
/// not produce today (the local matcher is never fed, so `compress` emits Literal{1} and Global only).
/// ops: [0, n] n fresh literal bytes (one Literal record per <= 200 bytes); [1, n] a local match of length n
/// at distance `period`; [2, off, n] a global match dict[off..off+n].  The payload is what the parse describes.
fn legacy_records_case(cx: &mut Ctx, period: usize, seed: u64, ops: &[Vec<u64>]) {
    let cell = "pazip/legacy_records";
    cx.sum.cell_status(cell, "M+S");
    let cj = json!({"cell": cell, "period": period, "seed": seed, "ops": ops});
    cx.sum.eval(cell, &format!("lr {} {} {:?}", period, seed, ops), ops.len() >= 2);
    let mut r = Rng::new(seed ^ 0xC02);
    let dict_text: Vec<u8> = { let mut t = TEXT.to_vec(); t.extend(r.bytes(200)); t };
    let mut x: Vec<u8> = r.bytes(period.max(1));
    // (pos, strategy) list; the first `period` bytes are literals
    let mut parse: Vec<(usize, CompressionStrategy)> = vec![];
    let mut pos = 0usize;
    while pos < x.len() { let n = (x.len() - pos).min(200); parse.push((pos, CompressionStrategy::Literal { length: n as u8 })); pos += n; }
    let mut kinds_used = vec![];
    for op in ops {
        let kind = op.get(0).copied().unwrap_or(0);
        match kind {
            0 => {
                let mut n = op.get(1).copied().unwrap_or(1).min(1000) as usize;
                while n > 0 { let c = n.min(200); let fresh = r.bytes(c); parse.push((x.len(), CompressionStrategy::Literal { length: c as u8 })); x.extend_from_slice(&fresh); n -= c; }
            }
            1 => {
                let n = op.get(1).copied().unwrap_or(2).clamp(1, 2000) as usize;
                let d = period.max(1);
                let mt = match choose_best_compression_type(d, n) { Some(t) => t, None => continue };
                kinds_used.push(mt as u8);
                parse.push((x.len(), CompressionStrategy::Local { distance: d as u32, length: n as u32, match_type: mt }));
                for _ in 0..n { let b = x[x.len() - d]; x.push(b); }
            }
            _ => {
                let off = (op.get(1).copied().unwrap_or(0) as usize).min(dict_text.len() - 1);
                let n = (op.get(2).copied().unwrap_or(6) as usize).clamp(1, dict_text.len() - off);
                parse.push((x.len(), CompressionStrategy::Global { dict_offset: off as u32, length: n as u32, match_type: CompressionType::Global }));
                x.extend_from_slice(&dict_text[off..off + n]);
            }
        }
    }
    for k in kinds_used { cx.sum.dist(&format!("legacy_record_kind={}", k)); }
    let recs: std::cell::RefCell<Vec<(usize, CompressionStrategy, usize, Vec<u8>)>> = std::cell::RefCell::new(vec![]);
    let stream_out: std::cell::RefCell<Vec<u8>> = std::cell::RefCell::new(vec![]);
    let res = guarded(|| {
        let dict = SuffixArrayDictionary::new(&dict_text, SuffixArrayDictionaryConfig::default()).map_err(|e| format!("setup: {}", e))?;
        if dict.dictionary_text() != &dict_text[..] { return Err("setup: dictionary text differs from training".to_string()); }
        let pool = SecureMemoryPool::new(SecurePoolConfig::new(4096, 1024, 8)).map_err(|e| format!("setup: {}", e))?;
        let mut c = PaZipCompressor::new(dict, PaZipCompressorConfig::default(), pool).map_err(|e| format!("setup: {}", e))?;
        let mut stream = Vec::new();
        for (p, st) in &parse {
            let want = match st { CompressionStrategy::Literal { length } => *length as usize, CompressionStrategy::Local { length, .. } => *length as usize, CompressionStrategy::Global { length, .. } => *length as usize };
            let before = stream.len();
            let adv = c.verif_apply_strategy(&x, *p, *st, &mut stream).map_err(|e| format!("writer refused {:?}: {}", st, e))?;
            recs.borrow_mut().push((*p, *st, adv, stream[before..].to_vec()));
            if adv != want { return Ok(Some(format!("writer advanced {} for {:?}", adv, st))); }
        }
        *stream_out.borrow_mut() = stream.clone();
        let mut y = Vec::new();
        match c.decompress(&stream, &mut y) {
            Ok(()) if y == x => Ok(None),
            Ok(()) => { let at = y.iter().zip(x.iter()).position(|(a, b)| a != b).unwrap_or(y.len().min(x.len())); Ok(Some(format!("decompress of the record stream differs at byte {} (|x|={}, |y|={})", at, x.len(), y.len()))) }
            Err(e) => Ok(Some(format!("decompress of the record stream = Err({})", e))),
        }
    });
    // model tie (small cases only): the bytes of every record, and what decompress makes of the stream
    if x.len() <= 700 {
        let xs: Vec<u128> = x.iter().map(|&b| b as u128).collect();
        for (p, st, adv, bytes) in recs.borrow().iter().take(6) {
            let (k, p1, p2, p3) = match st {
                CompressionStrategy::Literal { length } => (0u128, *length as u128, 0, 0),
                CompressionStrategy::Local { distance, length, match_type } => (1, *distance as u128, *length as u128, *match_type as u8 as u128),
                CompressionStrategy::Global { dict_offset, length, .. } => (2, *dict_offset as u128, *length as u128, 0),
            };
            let mut exp = vec![*adv as u128]; exp.extend(bytes.iter().map(|&b| b as u128));
            cx.coq(4, &[*p as u128, k, p1, p2, p3], &xs, &exp, cj.clone(), false);
        }
        let st = stream_out.borrow();
        if !st.is_empty() && matches!(res, Ok(Ok(None))) {
            let mut exp = vec![1u128]; exp.extend(xs.iter().cloned());
            cx.coq(5, &st.iter().map(|&b| b as u128).collect::<Vec<_>>(), &dict_text.iter().map(|&b| b as u128).collect::<Vec<_>>(), &exp, cj.clone(), false);
        }
    }
    match res {
        Err(p) => cx.sum.fail(cell, None, cj, &format!("panicked: {}", p)),
        Ok(Err(e)) if e.starts_with("setup") => cx.sum.dist("legacy_setup_refused"),
        Ok(Err(e)) => cx.sum.fail(cell, None, cj, &e),
        Ok(Ok(Some(msg))) => cx.sum.fail(cell, None, cj, &msg),
        Ok(Ok(None)) => {}
    }
}

/// arbitrary (record-shaped, then damaged) byte streams through PaZipCompressor::decompress: ties the
/// model's reader to the code on truncated records, unknown type bytes and bad distances as well
fn legacy_raw(cx: &mut Ctx, stream: &[u8]) {
    let cell = "pazip/legacy_decode_raw";
    let cj = json!({"cell": cell, "data": stream});
    cx.sum.eval(cell, &format!("lraw {:?}", stream), stream.len() >= 2);
    let dict_text: Vec<u8> = TEXT.to_vec();
    let r = guarded(|| {
        let dict = SuffixArrayDictionary::new(&dict_text, SuffixArrayDictionaryConfig::default()).ok()?;
        let pool = SecureMemoryPool::new(SecurePoolConfig::new(4096, 1024, 8)).ok()?;
        let mut c = PaZipCompressor::new(dict, PaZipCompressorConfig::default(), pool).ok()?;
        let mut y = Vec::new();
        Some(c.decompress(stream, &mut y).map(|_| y).ok())
    });
    let a: Vec<u128> = stream.iter().map(|&b| b as u128).collect();
    let d: Vec<u128> = dict_text.iter().map(|&b| b as u128).collect();
    match r {
        Err(_) => cx.sum.dist("legacy_raw_panic"),
        Ok(None) => {}
        Ok(Some(None)) => { cx.sum.dist("legacy_raw_err"); cx.coq(5, &a, &d, &[0], cj, false); }
        Ok(Some(Some(y))) => { cx.sum.dist("legacy_raw_ok"); let mut exp = vec![1u128]; exp.extend(y.iter().map(|&b| b as u128)); cx.coq(5, &a, &d, &exp, cj, false); }
    }
}
fn rand_legacy_stream(r: &mut Rng) -> Vec<u8> {
    let mut s = vec![];
    for _ in 0..r.range(1, 6) {
        let t = if r.chance(1, 10) { r.range(8, 255) as u8 } else { r.below(8) as u8 };
        s.push(t);
        match t {
            1 => { s.extend_from_slice(&(r.below(130) as u16).to_le_bytes()); s.extend_from_slice(&(r.below(20) as u16).to_le_bytes()); }
            2 => { s.push(r.next() as u8); s.push(r.below(40) as u8); }
            3 => { s.push(r.below(6) as u8); s.push(r.below(40) as u8); }
            4 => { s.extend_from_slice(&(r.below(12) as u16).to_le_bytes()); s.push(r.below(40) as u8); }
            5 => { s.extend_from_slice(&(r.below(12) as u32).to_le_bytes()); s.push(r.below(40) as u8); }
            6 => { s.extend_from_slice(&(r.below(12) as u16).to_le_bytes()); s.extend_from_slice(&(r.below(300) as u16).to_le_bytes()); }
            7 => { s.extend_from_slice(&(r.below(12) as u32).to_le_bytes()); s.extend_from_slice(&(r.below(300) as u32).to_le_bytes()); }
            _ => { let n = r.below(6) as u8; s.push(n); let d = r.bytes(n as usize); s.extend_from_slice(&d); }
        }
    }
    if r.chance(1, 3) { let k = r.below(s.len() as u64) as usize; s.truncate(k.max(1)); }
    s
}

fn simd_lz77_case(cx: &mut Ctx, x: &[u8]) {
    let cell = "simd_lz77/inherent";
    cx.sum.cell_status(cell, "M+S");
    let cj = json!({"cell": cell, "data": x});
    cx.sum.eval(cell, &format!("sl {:?}", x), x.len() >= 2);
    let class = if !x.is_empty() { Some("simd_lz77_literals_not_stored") } else { None };
    let r = guarded(|| {
        let mut c = SimdLz77Compressor::new().map_err(|e| e.to_string())?;
        // fully qualified: `c.compress(x)` would resolve to the `Compressor` trait method (stored copy)
        let z = SimdLz77Compressor::compress(&mut c, x).map_err(|e| format!("compress refused: {}", e))?;
        let y = SimdLz77Compressor::decompress(&mut c, &z).map_err(|e| format!("decompress(compress(x)) = Err({})", e))?;
        if y != x { return Err(format!("decompress(compress(x)) differs (|x|={}, |y|={})", x.len(), y.len())); }
        Ok::<(), String>(())
    });
    match r {
        Err(p) => cx.sum.fail(cell, class, cj, &format!("panicked: {}", p)),
        Ok(Err(msg)) => cx.sum.fail(cell, class, cj, &msg),
        Ok(Ok(())) => if class.is_some() { cx.sum.dist("known_class_but_passed") },
    }
}

// ---------------------------------------------------------------------------------------------
fn bytes_of(v: &Value) -> Vec<u8> {
    v.as_array().map(|a| a.iter().map(|x| x.as_u64().unwrap_or(0) as u8).collect()).unwrap_or_default()
}

fn run_one(cx: &mut Ctx, c: &Value) {
    let cell = c["cell"].as_str().unwrap_or("");
    match cell {
        "pazip/bitcodec/encode_matches" => codec_list(cx, &parse_ms(&c["matches"]), true),
        "pazip/bitcodec/encode_match" => { let ms = parse_ms(&c["matches"]); if let Some(m) = ms.first() { codec_single(cx, &parse_ms(&c["pre"]), m, true) } }
        "pazip/bitcodec/decode_raw" => codec_raw(cx, &bytes_of(&c["data"]), true),
        "factory" => factory_case(cx, c["alg"].as_u64().unwrap_or(0) as usize, &bytes_of(&c["data"]), &bytes_of(&c["train"])),
        "hybrid/select" => hybrid_tie(cx, &bytes_of(&c["data"]), &bytes_of(&c["train"]), true),
        "rans/table" => { let v: Vec<u32> = c["freqs"].as_array().map(|a| a.iter().map(|x| x.as_u64().unwrap_or(0) as u32).collect()).unwrap_or_default(); let mut f = [0u32; 256]; for (i, x) in v.iter().take(256).enumerate() { f[i] = *x; } rans_tie(cx, &f, true) }
        "adaptive" => {
            let steps: Vec<(u64, Vec<u8>)> = c["steps"].as_array().map(|a| a.iter().map(|s| (s[0].as_u64().unwrap_or(0), bytes_of(&s[1]))).collect()).unwrap_or_default();
            adaptive_case(cx, &steps, c["aggressive"].as_bool().unwrap_or(false), c["min_ops"].as_u64().unwrap_or(50) as usize, c["interval"].as_u64().unwrap_or(3) as usize)
        }
        "realtime" => {
            let steps: Vec<(u64, u64, Vec<u8>)> = c["steps"].as_array().map(|a| a.iter().map(|s| (s[0].as_u64().unwrap_or(0), s[1].as_u64().unwrap_or(0), bytes_of(&s[2]))).collect()).unwrap_or_default();
            realtime_case(cx, c["mode"].as_u64().unwrap_or(0) as usize, c["fallback"].as_bool().unwrap_or(true), &steps)
        }
        "pazip" => {
            let ps: Vec<Vec<u8>> = c["payloads"].as_array().map(|a| a.iter().map(bytes_of).collect()).unwrap_or_default();
            pazip_case(cx, c["preset"].as_u64().unwrap_or(0) as usize, c["dict_kind"].as_u64().unwrap_or(0), &ps, &bytes_of(&c["train"]))
        }
        "pazip_big" => pazip_big_case(cx, c["preset"].as_u64().unwrap_or(0) as usize, c["n"].as_u64().unwrap_or(0) as usize, c["seed"].as_u64().unwrap_or(0)),
        "simd_lz77/inherent" => simd_lz77_case(cx, &bytes_of(&c["data"])),
        "comp_tie" => {
            let train = if c["train"].is_null() { vec![] } else { bytes_of(&c["train"]) };
            if !train.is_empty() { x::comp_tie(cx, c["kind"].as_u64().unwrap_or(0), &bytes_of(&c["data"]), &train, true) }
        }
        "rt_tie" => {
            let steps: Vec<(u64, u64, Vec<u8>)> = c["steps"].as_array().map(|a| a.iter().map(|s| (s[0].as_u64().unwrap_or(0), s[1].as_u64().unwrap_or(0), bytes_of(&s[2]))).collect()).unwrap_or_default();
            x::rt_tie(cx, c["mode"].as_u64().unwrap_or(0) as usize, c["fallback"].as_bool().unwrap_or(true), &steps)
        }
        "ad_tie" => {
            let ops: Vec<(u64, u64, Vec<u8>)> = c["ops"].as_array().map(|a| a.iter().map(|s| (s[0].as_u64().unwrap_or(0), s[1].as_u64().unwrap_or(0), bytes_of(&s[2]))).collect()).unwrap_or_default();
            x::ad_tie(cx, c["min_ops"].as_u64().unwrap_or(50) as usize, c["interval"].as_u64().unwrap_or(3) as usize, c["aggressive"].as_bool().unwrap_or(false), c["window"].as_u64().unwrap_or(16) as usize, &ops)
        }
        "pazip/compress_loop" => {
            let ops: Vec<Vec<u64>> = c["ops"].as_array().map(|a| a.iter().map(|o| o.as_array().map(|v| v.iter().map(|x| x.as_u64().unwrap_or(0)).collect()).unwrap_or_default()).collect()).unwrap_or_default();
            x::pazip_sim_case(cx, c["period"].as_u64().unwrap_or(1) as usize, c["seed"].as_u64().unwrap_or(0), c["dict_big"].as_bool().unwrap_or(false), &ops, true)
        }
        "simd_tie" => x::simd_tie_bytes_v(cx, c["variant"].as_u64().unwrap_or(0) as usize, &bytes_of(&c["data"]), true),
        "big" => x::big_case(cx, c["front"].as_u64().unwrap_or(0), c["sel"].as_u64().unwrap_or(0) as usize, c["kind"].as_u64().unwrap_or(0), c["n"].as_u64().unwrap_or(0) as usize),
        "realtime_batch" => x::realtime_batch_case(cx, c["mode"].as_u64().unwrap_or(0) as usize, c["fallback"].as_bool().unwrap_or(true), c["item_len"].as_u64().unwrap_or(0) as usize, c["n_big"].as_u64().unwrap_or(0) as usize, c["seed"].as_u64().unwrap_or(0)),
        "pazip/legacy_decode_raw" => legacy_raw(cx, &bytes_of(&c["data"])),
        "pazip/legacy_records" => {
            let ops: Vec<Vec<u64>> = c["ops"].as_array().map(|a| a.iter().map(|o| o.as_array().map(|v| v.iter().map(|x| x.as_u64().unwrap_or(0)).collect()).unwrap_or_default()).collect()).unwrap_or_default();
            legacy_records_case(cx, c["period"].as_u64().unwrap_or(1) as usize, c["seed"].as_u64().unwrap_or(0), &ops)
        }
        _ => { b::run_one_b(cx, c); }
    }
}

pub fn run(args: &Args) {
    quiet_panics();
    let mut cx = Ctx {
        sum: Summary::new("C02", "corpus; PA-Zip match lists: every kind at min/max/min-1/max+1 of each field and at the variable-length thresholds, all ordered pairs of kinds, random lists of length 0..40, random bytes through decode_matches; every Algorithm of the factory x 10 payload families (incompressible, text, runs around 33/34, near and far periods, skewed, all symbols) x 7 training relations (same, unrelated, single byte, subset ...); hybrid selector and rANS table against the model; adaptive and real-time front ends as operation histories with algorithm / mode switches and passed / distant deadlines; PA-Zip compressor presets x dictionary builders x payload sequences; breadth families (c02_b.rs): operation histories on one PA-Zip compressor (compress into fresh / reused vectors, decode earlier blocks into fresh / reused vectors, reset_stats, statistics, clone, rebuild from the serialised dictionary) over 17 configuration variants x 21 dictionary variants x 7 kinds of training text, dictionary sizes at the suffix-array builder's switch points, payload sizes at 64 KiB / 1 MiB, dictionary answers checked against the dictionary text, every constructor of the compressor layer (all zstd levels, select_best, available_algorithms, direct constructors, presets) under histories with estimate_ratio / is_suitable / algorithm(), adaptive and real-time histories over every constructor and configuration field with housekeeping calls, deferred decoding, concurrent calls and runs of more than 2000 calls, raw bit streams (write_bits / flush / encode_match mixed), every entry point of SIMD LZ77; a case is non-trivial when the payload has >= 2 bytes or the list >= 2 matches; distinct = distinct canonical case text"),
        shards: CoqShards::new(HEADER, 150),
        coq_budget: if args.thorough { 6000 } else { 1500 },
        per_op: std::collections::HashMap::new(),
        rng: Rng::new(args.seed),
    };
    if let Some(f) = &args.replay {
        let txt = std::fs::read_to_string(f).expect("replay file");
        let v: Value = serde_json::from_str(&txt).expect("replay json");
        let c = if v.get("case").is_some() { v["case"].clone() } else { v };
        run_one(&mut cx, &c);
        let sh = cx.shards.write(&args.out);
        cx.sum.write(&args.out, sh);
        return;
    }
    let th = args.thorough;
    // 1. corpus
    if let Ok(rd) = std::fs::read_dir("corpus/C02") {
        let mut files: Vec<_> = rd.filter_map(|e| e.ok()).map(|e| e.path()).collect();
        files.sort();
        for p in files {
            if let Ok(txt) = std::fs::read_to_string(&p) {
                if let Ok(v) = serde_json::from_str::<Value>(&txt) {
                    let c = if v.get("case").is_some() { v["case"].clone() } else { v };
                    run_one(&mut cx, &c);
                    cx.sum.dist("corpus_cases");
                }
            }
        }
    }
    codec_consts(&mut cx);
    // 2. PA-Zip codec: enumerated boundaries, singly and after a prefix that shifts the bit alignment
    let mut edge_matches: Vec<M3> = vec![];
    for k in 0..8u8 {
        let (alo, ahi, blo, bhi) = kind_ranges(k);
        let (ta, tb) = type_max(k);
        for &a in &edge_values(alo, ahi, ta) {
            for &b in &edge_values(blo, bhi, tb) {
                if k == 0 && a != 0 { continue; }
                edge_matches.push((k, a, b));
            }
        }
    }
    cx.sum.dist_max("edge_matches", edge_matches.len() as u64);
    for (i, m) in edge_matches.clone().iter().enumerate() {
        codec_list(&mut cx, &[*m], false);
        let pre: Vec<M3> = match i % 4 { 0 => vec![], 1 => vec![(3, 2, 2)], 2 => vec![(2, 7, 9)], _ => vec![(1, 5, 6), (0, 0, 1)] };
        codec_single(&mut cx, &pre, m, false);
    }
    let valid_edges: Vec<M3> = edge_matches.iter().cloned().filter(|m| is_valid(m) && !(m.0 == 7 && m.2 > VL_MAX_LEN)).collect();
    // all ordered pairs of kinds (bit-alignment interactions), with and without a third match
    for k1 in 0..8u8 {
        for k2 in 0..8u8 {
            let c1: Vec<&M3> = valid_edges.iter().filter(|m| m.0 == k1).collect();
            let c2: Vec<&M3> = valid_edges.iter().filter(|m| m.0 == k2).collect();
            for _ in 0..(if th { 12 } else { 3 }) {
                let a = **cx.rng.pick(&c1); let b = **cx.rng.pick(&c2);
                codec_list(&mut cx, &[a, b], false);
                let c = *cx.rng.pick(&valid_edges);
                codec_list(&mut cx, &[a, b, c], false);
            }
        }
    }
    // random lists
    for k in 0..(if th { 6000 } else { 500 }) {
        let mut r = cx.rng.clone();
        let n = match r.below(6) { 0 => 0, 1 => 1, 2 => r.range(2, 4), 3 | 4 => r.range(5, 15), _ => r.range(16, 40) } as usize;
        let mostly_valid = k % 5 != 0;
        let ms: Vec<M3> = (0..n).map(|_| loop { let m = rand_match(&mut r, mostly_valid); if !mostly_valid || (is_valid(&m) && !(m.0 == 7 && m.2 > VL_MAX_LEN)) { break m; } }).collect();
        cx.rng = r;
        if k < 3 { cx.sum.sample(json!({"kind": "match list", "matches": ms_json(&ms)})); }
        codec_list(&mut cx, &ms, false);
    }
    // arbitrary bytes
    for _ in 0..(if th { 3000 } else { 250 }) {
        let mut r = cx.rng.clone();
        let n = r.below(14) as usize;
        let mut b = r.bytes(n);
        if r.chance(1, 3) { for x in b.iter_mut() { if r.chance(1, 2) { *x = 0; } } }
        cx.rng = r;
        codec_raw(&mut cx, &b, false);
    }
    // 3. rANS tables and hybrid selector against the model
    for k in 0..(if th { 400 } else { 40 }) {
        let mut r = cx.rng.clone();
        let x = if k == 0 { b"hello world".to_vec() } else { rand_payload(&mut r) };
        let mut f = counts(&x);
        if k % 7 == 3 { f = [0u32; 256]; f[0] = 2048; f[1] = 2048; }
        if k % 7 == 5 { for v in f.iter_mut() { *v = r.below(5000) as u32; } }
        cx.rng = r;
        rans_tie(&mut cx, &f, false);
        // the table of the table: what a decoder builds from a header holding normalised counts
        if let Ok(e) = Rans64Encoder::<ParallelX1>::new(&f) { let mut g = [0u32; 256]; for i in 0..256 { g[i] = e.get_symbol(i as u8).freq; } rans_tie(&mut cx, &g, false); }
    }
    for _ in 0..(if th { 600 } else { 60 }) {
        let mut r = cx.rng.clone();
        let x = rand_payload(&mut r);
        let tk = r.below(7);
        let t = training(&mut r, tk, &x);
        cx.rng = r;
        hybrid_tie(&mut cx, &x, &t, false);
    }
    // 3b. the headers of the trained compressors against the model (ModelComp.v)
    x::run_comp_ties(&mut cx, th);
    // 4. factory: every algorithm x families x training relations
    for ai in 0..ALGS.len() {
        for fam in 0..10u64 {
            for &n in &[0usize, 1, 2, 33, 64, 65, 300] {
                let mut r = cx.rng.clone();
                let x = payload(&mut r, fam, n);
                let tk = r.below(7);
                let t = training(&mut r, tk, &x);
                cx.rng = r;
                if th || (fam + n as u64 + ai as u64) % 2 == 0 || needs_training(ALGS[ai].0) {
                    factory_case(&mut cx, ai, &x, &t);
                }
            }
        }
    }
    // payload sizes around the 16-bit boundary (size fields, window sizes)
    for ai in 0..ALGS.len() {
        for (j, &n) in [65535usize, 65536, 70001].iter().enumerate() {
            if !th && (ai + j) % 3 != 0 && !needs_training(ALGS[ai].0) { continue; }
            let mut r = cx.rng.clone();
            let fam = *r.pick(&[1u64, 4, 6, 9]);
            let x = payload(&mut r, fam, n);
            // the training always covers every symbol, so that the entropy coders cannot refuse
            let mut t = if r.chance(1, 2) { x[..2000].to_vec() } else { x[..300].to_vec() };
            t.extend((0..=255u8).collect::<Vec<u8>>());
            cx.rng = r;
            factory_case(&mut cx, ai, &x, &t);
        }
    }
    // large training corpora: per-symbol counts just below / at / above 2^16 and 2^17 (stored count and table fields),
    // a dominant byte next to rare ones; payloads that use the dominant and the rare symbols
    for ai in 0..ALGS.len() {
        // (the dictionary coder - and the hybrid compressor, which contains it - needs minutes to index 64 KiB of one repeated
        // byte; they store no per-symbol counts, so this family is for the two entropy coders that do)
        if !matches!(ALGS[ai].0, Algorithm::Rans | Algorithm::Huffman) { continue; }
        for &c in [65535usize, 65536, 65537, 70_000, 131_073].iter() {
            let mut r = cx.rng.clone();
            let dom = *r.pick(&[b'a', b' ', 0u8, 0xFF]);
            let mut t: Vec<u8> = Vec::with_capacity(c + 1200);
            for i in 0..c { t.push(dom); if i % 997 == 0 { t.push(TEXT[(i / 997) % TEXT.len()]); } }
            t.extend((0..=255u8).collect::<Vec<u8>>());
            t.extend_from_slice(TEXT);
            for &n in &[40usize, 700] {
                let mut x: Vec<u8> = Vec::with_capacity(n);
                while x.len() < n { if r.chance(1, 2) { x.push(dom); } else { let k = r.below(TEXT.len() as u64) as usize; x.push(TEXT[k]); if r.chance(1, 9) { x.push(r.below(256) as u8); } } }
                cx.sum.dist("factory_large_training_corpus");
                factory_case(&mut cx, ai, &x, &t);
            }
            cx.rng = r;
        }
    }
    for k in 0..(if th { 8000 } else { 700 }) {
        let mut r = cx.rng.clone();
        let x = rand_payload(&mut r);
        let tk = r.below(7);
        let t = training(&mut r, tk, &x);
        let ai = if r.chance(2, 3) { 7 + r.below(5) as usize } else { r.below(12) as usize };
        cx.rng = r;
        if k < 3 { cx.sum.sample(json!({"kind": "factory", "alg": ALGS[ai].1, "payload_len": x.len(), "training_len": t.len()})); }
        factory_case(&mut cx, ai, &x, &t);
    }
    // 5. front ends
    for k in 0..(if th { 400 } else { 40 }) {
        let mut r = cx.rng.clone();
        let n = if k % 8 == 0 { r.range(60, 130) } else { r.range(1, 8) } as usize;
        let mut steps: Vec<(u64, Vec<u8>)> = (0..n).map(|_| (if r.chance(1, 4) { r.range(1, 7) } else { 0 }, rand_payload(&mut r))).collect();
        // the initial algorithm is Lz4, which the default build does not contain: usually start with a switch
        if r.chance(3, 4) { steps[0].0 = *r.pick(&[1u64, 3, 4, 5, 6]); }
        let aggressive = r.chance(1, 2);
        let min_ops = *r.pick(&[1usize, 5, 50]);
        // evaluation_interval: mostly 3 (so that evaluations happen within short histories), also the edges 0, 1 and a large one
        let interval = *r.pick(&[3usize, 3, 3, 0, 1, 1000]);
        cx.rng = r;
        adaptive_case(&mut cx, &steps, aggressive, min_ops, interval);
    }
    for k in 0..(if th { 800 } else { 120 }) {
        let mut r = cx.rng.clone();
        let n = r.range(1, 6) as usize;
        let steps: Vec<(u64, u64, Vec<u8>)> = (0..n).map(|_| {
            let d = if r.chance(1, 2) { let fam = r.below(10); let l = *r.pick(&[0usize, 1, 10, 63, 64, 65, 200]); payload(&mut r, fam, l) } else { rand_payload(&mut r) };
            (if r.chance(1, 5) { r.range(1, 4) } else { 0 }, r.below(4), d)
        }).collect();
        let fb = !r.chance(1, 4);
        cx.rng = r;
        realtime_case(&mut cx, k % 4, fb, &steps);
    }
    // 5a. the front ends against the decision automata (ModelFront.v)
    x::run_front_ties(&mut cx, th);
    // 5b. families added after seeded-change round 2 (large compressible payloads, batches that overrun)
    x::run_extension_oracle(&mut cx, th);
    // 6. PA-Zip compressor presets and SIMD LZ77
    for k in 0..(if th { 900 } else { 90 }) {
        let mut r = cx.rng.clone();
        let np = r.range(1, 3) as usize;
        let mut ps: Vec<Vec<u8>> = (0..np).map(|_| { let fam = r.below(10); let n = match r.below(4) { 0 => rand_len(&mut r), 1 => r.range(0, 40) as usize, _ => r.range(40, 400) as usize }; payload(&mut r, fam, n) }).collect();
        let tk = r.below(7);
        let mut t = training(&mut r, tk, &ps[0].clone());
        if t.len() < 8 { t.extend_from_slice(TEXT); }
        // payloads made of pieces of the training text exercise the global matches
        if r.chance(1, 2) && t.len() > 20 { let a = r.below(t.len() as u64 - 10) as usize; let l = r.range(6, (t.len() - a).min(300) as u64) as usize; let mut p = t[a..a + l].to_vec(); p.extend_from_slice(&r.bytes(3)); p.extend_from_slice(&t[..t.len().min(40)]); ps.push(p); }
        let dk = r.below(3);
        cx.rng = r;
        pazip_case(&mut cx, k % 6, dk, &ps, &t);
    }
    // payloads at and above 1 MiB: the block-wise path of PaZipCompressor::compress (multithreading presets), and the plain path
    for (k, &n) in [(1usize << 20) - 1, 1 << 20, (1 << 20) + 1, (1 << 21) + 5].iter().enumerate() {
        if !th && k == 3 { continue; }
        pazip_big_case(&mut cx, [0usize, 2, 0, 4][k], n, 7 + k as u64);
    }
    // dictionaries larger than 64 KiB: a phrase that occurs only at dictionary offset 65534..65537 (the Global record
    // stores offset and length in 16 bits each; a match that does not fit must not be chosen, or must be written faithfully)
    for (k, &off) in [65534usize, 65535, 65536, 65537, 70_000].iter().enumerate() {
        if !th && k == 4 { continue; }
        let mut r = cx.rng.clone();
        let filler: Vec<u8> = { let alpha = b"ABCDEFGHIJKLMNOPQRSTUVWXYZ0123456789\n"; (0..off).map(|_| alpha[r.below(alpha.len() as u64) as usize]).collect() };
        let phrase: &[u8] = b"closing words of the corpus, in lower case";
        let mut t = filler.clone(); t.extend_from_slice(phrase);
        if k % 2 == 1 { t.extend_from_slice(&filler[..300]); }
        let mut p2 = filler[100..140].to_vec(); p2.extend_from_slice(phrase); p2.extend_from_slice(&filler[off - 60..off - 10]);
        cx.rng = r;
        cx.sum.dist("pazip_dictionary_over_64k");
        pazip_case(&mut cx, [0usize, 2, 4, 1, 3][k], 2, &[phrase.to_vec(), p2], &t);
    }
    // record writer vs reader of the legacy byte format, every kind at its distance / length boundaries
    let periods = [1usize, 2, 3, 9, 10, 200, 257, 258, 259, 4000, 65535, 65536, 65793, 65794, 70000];
    let lens = [1u64, 2, 3, 5, 6, 32, 33, 34, 35, 64, 65, 255, 256, 257, 300];
    for (pi, &p) in periods.iter().enumerate() {
        if !th && p > 60000 && pi % 2 == 0 { continue; }
        for rep in 0..(if th { 6 } else { 2 }) {
            let mut r = cx.rng.clone();
            let n = r.range(1, 6) as usize;
            let ops: Vec<Vec<u64>> = (0..n).map(|_| match r.below(6) {
                0 => vec![0, r.range(1, 300)],
                1 => vec![2, r.below(300), r.range(1, 280)],
                _ => vec![1, if r.chance(2, 3) { *r.pick(&lens) } else { r.range(1, 400) }],
            }).collect();
            let seed = r.next() % 1000;
            cx.rng = r;
            if rep == 0 { legacy_records_case(&mut cx, p, seed, &[vec![1, lens[pi % lens.len()]]]); }
            legacy_records_case(&mut cx, p, seed, &ops);
        }
    }
    x::run_pazip_sim(&mut cx, th);
    for _ in 0..(if th { 1500 } else { 150 }) {
        let mut r = cx.rng.clone();
        let st = rand_legacy_stream(&mut r);
        cx.rng = r;
        legacy_raw(&mut cx, &st);
    }
    // a dictionary larger than 64 KiB (offsets beyond u16), payload cut from its tail; and an input
    // beyond the multithreading threshold
    for k in 0..(if th { 6 } else { 2 }) {
        let mut r = cx.rng.clone();
        let mut t: Vec<u8> = Vec::with_capacity(70000);
        while t.len() < 66000 + 1500 * k { let w = r.range(3, 9) as usize; let word = r.bytes(w); t.extend_from_slice(&word); t.push(b' '); }
        let a = t.len() - 700;
        let mut p = t[a..a + 300].to_vec(); p.extend_from_slice(b"##"); p.extend_from_slice(&t[100..400]);
        cx.rng = r;
        pazip_case(&mut cx, [0usize, 2, 4, 1][k % 4], 2, &[p], &t);
    }
    if th {
        let mut r = cx.rng.clone();
        let x = payload(&mut r, 9, 70000);
        cx.rng = r;
        pazip_case(&mut cx, 0, 1, &[x], TEXT);
    }
    for _ in 0..(if th { 200 } else { 20 }) {
        let mut r = cx.rng.clone();
        let fam = r.below(10);
        let n = r.range(0, 120) as usize;
        let x = payload(&mut r, fam, n);
        cx.rng = r;
        simd_lz77_case(&mut cx, &x);
    }
    x::run_simd_ties(&mut cx, th);
    // 7. oracle breadth: secondary entry points, non-default configurations, thresholds, mixed histories (c02_b.rs)
    b::run_breadth(&mut cx, th);
    cx.sum.dist_max("coq_cases", cx.shards.len() as u64);
    let sh = cx.shards.write(&args.out);
    cx.sum.write(&args.out, sh);
}
