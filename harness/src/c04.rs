//! C04: rank/select answers match the bit-sequence definition in every implementation.
//! M+S cells (Coq mechanism model): RankSelectSE512 and RankSelectSE256 (all four option combinations),
//! RankSelectInterleaved256 (rank/select/get, select cache on with several sample rates and off, the
//! hardware/adaptive/optimized/bulk entry points), RankSelectSimple, RankSelectFewOne, RankSelectFewZero,
//! BitVector (operation histories: push/pop/set/resize/ensure_set1/fast_ensure_set1/insert/clear/get/rank/count),
//! RankSelectMixedIL256 (both dimensions), RankSelectAllZero/AllOne, AdaptiveRankSelect, MultiDimRankSelect<2> /
//! AdaptiveMultiDimensional (forwarders onto interleaved-256).
//! S-only cells: BitVector::rank1_bulk_simd, bulk_rank1_simd / bulk_select1_simd / bulk_popcount_simd.
//! Oracle breadth (c04_x.rs, all S-only): the secondary entry points, presets, thresholds and extended histories.
use crate::util::*;
use serde_json::{json, Value};
use zipora::succinct::rank_select::*;
use zipora::succinct::BitVector;

#[path = "c04_x.rs"]
mod x;

const HEADER: &str = r#"From Coq Require Import List NArith ZArith Bool.
Import ListNotations.
From ZV.Common Require Import Run.
From ZV.C04 Require Import Spec Model ModelRun.
Definition case_t : Type := c04case.
Definition ok (c : case_t) : bool := case_ok c.
"#;

struct Ctx { sum: Summary, shards: CoqShards, budget: usize, all_queries: bool,
             // abort protection: FastVec bounds failures abort the process instead of panicking.  The run is executed in
             // a worker child process that logs every case before touching the library; the parent only supervises:
             // a case the worker died in is handed to the next worker as a recorded failure and skipped.
             probe_log: Option<std::fs::File>, case_no: usize, skip: std::collections::HashSet<usize>, stop_at: usize }
impl Ctx {
    fn begin_case(&mut self, cj: &Value) -> bool {
        self.case_no += 1;
        if self.skip.contains(&self.case_no) || self.case_no >= self.stop_at { return false; }
        if let Some(f) = self.probe_log.as_mut() {
            use std::io::Write;
            let _ = writeln!(f, "{}", json!({"n": self.case_no, "case": cj}));
            let _ = f.flush();
        }
        true
    }
}

/// Run this binary again as a worker child on `spec`, writing into the same output directory;
/// returns (exited normally, last logged case).
fn probe_child(args: &Args, spec: &Value) -> (bool, Option<Value>) {
    let f = format!("{}/probe_spec.json", args.out);
    std::fs::write(&f, spec.to_string()).ok();
    std::fs::remove_file(format!("{}/probe.log", args.out)).ok();
    let st = std::process::Command::new(std::env::current_exe().unwrap())
        .args(["C04", "--seed", &args.seed.to_string(), "--tier", if args.thorough { "thorough" } else { "quick" }, "--out", &args.out, "--replay", &f])
        .stdout(std::process::Stdio::null()).stderr(std::process::Stdio::null()).status();
    let ok = matches!(st, Ok(s) if s.success());
    let last = std::fs::read_to_string(format!("{}/probe.log", args.out)).ok()
        .and_then(|t| t.lines().last().map(|l| l.to_string())).and_then(|l| serde_json::from_str::<Value>(&l).ok());
    std::fs::remove_file(&f).ok();
    std::fs::remove_file(format!("{}/probe.log", args.out)).ok();
    (ok, last)
}

struct Oracle { bits: Vec<bool>, pre: Vec<usize>, ones: Vec<usize>, zeros: Vec<usize> }
impl Oracle {
    fn new(bits: &[bool]) -> Self {
        let mut pre = vec![0usize; bits.len() + 1];
        let mut ones = vec![]; let mut zeros = vec![];
        for (i, &b) in bits.iter().enumerate() {
            pre[i + 1] = pre[i] + b as usize;
            if b { ones.push(i) } else { zeros.push(i) }
        }
        Oracle { bits: bits.to_vec(), pre, ones, zeros }
    }
}

fn positions(n: usize, all: bool, r: &mut Rng) -> Vec<usize> {
    if all || n <= 1400 { return (0..=n).collect(); }
    let mut v: Vec<usize> = vec![0, n];
    for b in [64usize, 256, 512, 2048, 65536] {
        let mut k = b;
        while k <= n + b { for d in [k.wrapping_sub(1), k, k + 1] { if d <= n { v.push(d); } } k += b * (1 + n / (b * 40)); }
    }
    for _ in 0..600 { v.push(r.below(n as u64 + 1) as usize); }
    v.sort(); v.dedup(); v
}

/// Check one structure against the definition.  Returns the list of discrepancies.
fn check_ops(rs: &dyn RankSelectOps, o: &Oracle, ps: &[usize], has_select0: bool) -> Vec<String> {
    let mut bad = vec![];
    let n = o.bits.len();
    macro_rules! chk { ($cond:expr, $($arg:tt)*) => { if !$cond && bad.len() < 4 { bad.push(format!($($arg)*)); } } }
    chk!(rs.len() == n, "len {} want {}", rs.len(), n);
    chk!(rs.count_ones() == o.ones.len(), "count_ones {} want {}", rs.count_ones(), o.ones.len());
    for &p in ps {
        let r1 = rs.rank1(p);
        chk!(r1 == o.pre[p], "rank1({}) = {} want {}", p, r1, o.pre[p]);
        let r0 = rs.rank0(p);
        chk!(r0 == p - o.pre[p], "rank0({}) = {} want {}", p, r0, p - o.pre[p]);
        if p < n { chk!(rs.get(p) == Some(o.bits[p]), "get({}) = {:?}", p, rs.get(p)); }
    }
    chk!(rs.get(n).is_none(), "get(len) not refused");
    // select on interleaved-256 with its select cache walks the bits from position 0 (O(len) per call): with every
    // position of a 65536-bit vector as an index (thorough tier) one structure costs minutes; 4000 evenly spread
    // indices plus the first and last ones keep the run inside its budget
    let thin = |v: Vec<usize>| -> Vec<usize> { if v.len() <= 4000 { v } else { let st = v.len() / 4000 + 1; let l = v.len(); v.into_iter().enumerate().filter(|(i, _)| i % st == 0 || *i < 40 || *i + 40 >= l).map(|(_, k)| k).collect() } };
    let ks: Vec<usize> = if o.ones.len() <= 1400 { (0..o.ones.len()).collect() } else { thin(ps.iter().map(|&p| p % o.ones.len()).collect()) };
    for &k in &ks {
        match rs.select1(k) {
            Ok(p) => { chk!(p == o.ones[k], "select1({}) = {} want {}", k, p, o.ones[k]); if p <= n { chk!(rs.rank1(p) == k || p != o.ones[k], "rank1(select1({})) != k", k); } }
            Err(_) => chk!(false, "select1({}) refused, want {}", k, o.ones[k]),
        }
    }
    chk!(rs.select1(o.ones.len()).is_err(), "select1(ones) not refused: {:?}", rs.select1(o.ones.len()).ok());
    chk!(rs.select1(o.ones.len() + 1).is_err(), "select1(ones+1) not refused");
    if has_select0 {
        let ks0: Vec<usize> = if o.zeros.len() <= 1400 { (0..o.zeros.len()).collect() } else { thin(ps.iter().map(|&p| p % o.zeros.len()).collect()) };
        for &k in &ks0 {
            match rs.select0(k) {
                Ok(p) => chk!(p == o.zeros[k], "select0({}) = {} want {}", k, p, o.zeros[k]),
                Err(_) => chk!(false, "select0({}) refused, want {}", k, o.zeros[k]),
            }
        }
        chk!(rs.select0(o.zeros.len()).is_err(), "select0(zeros) not refused: {:?}", rs.select0(o.zeros.len()).ok());
    }
    bad
}

fn make_bv(bits: &[bool], mode: u32) -> BitVector {
    // mode 0: push; 1: over-push then resize down; 2: over-push then pop; 3: with_size(false) + set;
    // 4: with_size(true) + clear; 5: push a prefix, grow with resize(n, true), then write the rest
    let mut bv = BitVector::new();
    match mode {
        1 => { for &b in bits { bv.push(b).unwrap(); } for _ in 0..700 { bv.push(true).unwrap(); } bv.resize(bits.len(), false).unwrap(); }
        2 => { for &b in bits { bv.push(b).unwrap(); } for _ in 0..70 { bv.push(true).unwrap(); } for _ in 0..70 { bv.pop(); } }
        3 => { bv = BitVector::with_size(bits.len(), false).unwrap(); for (i, &b) in bits.iter().enumerate() { if b { bv.set(i, true).unwrap(); } } }
        4 => { bv = BitVector::with_size(bits.len(), true).unwrap(); for (i, &b) in bits.iter().enumerate() { if !b { bv.set(i, false).unwrap(); } } }
        5 => { let h = bits.len() / 2; for &b in &bits[..h] { bv.push(b).unwrap(); } bv.resize(bits.len(), true).unwrap(); for i in h..bits.len() { if !bits[i] { bv.set(i, false).unwrap(); } } }
        _ => { for &b in bits { bv.push(b).unwrap(); } }
    }
    bv
}

fn runs_of(bits: &[bool]) -> Vec<(bool, usize)> {
    let mut out: Vec<(bool, usize)> = vec![];
    for &b in bits { match out.last_mut() { Some((x, n)) if *x == b => *n += 1, _ => out.push((b, 1)) } }
    out
}

fn one_vector(cx: &mut Ctx, bits: &[bool], mode: u32, r: &mut Rng, to_coq: bool) { one_vector_cj(cx, bits, mode, r, to_coq, None) }

/// `cj_over`: the case description to log / report instead of the run-length form (vectors given by (kind, n, seed)).
fn one_vector_cj(cx: &mut Ctx, bits: &[bool], mode: u32, r: &mut Rng, to_coq: bool, cj_over: Option<Value>) {
    let o = Oracle::new(bits);
    let n = bits.len();
    let ps = positions(n, cx.all_queries, r);
    let runs = runs_of(bits);
    let shown: Vec<Value> = runs.iter().take(400).map(|(b, k)| json!([*b as u8, k])).collect();
    let cj = match cj_over { Some(c) => c, None => json!({"runs": runs.iter().map(|(b, k)| json!([*b as u8, k])).collect::<Vec<_>>(), "mode": mode}) };
    if !cx.begin_case(&cj) { return; }
    let class: Option<&str> = None;
    let nontrivial = n >= 65 && !o.ones.is_empty() && !o.zeros.is_empty();
    let key = format!("{:?} {}", shown, mode);
    macro_rules! cell {
        ($name:expr, $sel0:expr, $build:expr) => {{
            let name: &str = $name;
            cx.sum.eval(name, &key, nontrivial);
            let res = guarded(|| { let rs = $build; rs.map(|rs| check_ops(&rs, &o, &ps, $sel0)) });
            match res {
                Err(p) => cx.sum.fail(name, class, cj.clone(), &format!("panicked: {}", p)),
                Ok(Err(e)) => cx.sum.fail(name, class, cj.clone(), &format!("construction refused: {:?}", e)),
                Ok(Ok(bad)) => if !bad.is_empty() { cx.sum.fail(name, class, cj.clone(), &bad.join("; ")); }
            }
        }};
    }
    cell!("interleaved256", true, RankSelectInterleaved256::new(make_bv(bits, mode)));
    cell!("interleaved256/nocache", true, RankSelectInterleaved256::with_options(make_bv(bits, mode), false, 512));
    cell!("interleaved256/rate", true, RankSelectInterleaved256::with_options(make_bv(bits, mode), true, [1usize, 3, 64, 100, 256][n % 5]));
    cell!("se256", true, RankSelectSE256::new(make_bv(bits, mode)));
    cell!("se256/nocache", true, RankSelectSE256::with_options(make_bv(bits, mode), false, false));
    cell!("se512", true, RankSelectSE512::new(make_bv(bits, mode)));
    cell!("se512/nocache", true, RankSelectSE512::with_options(make_bv(bits, mode), false, false));
    cell!("simple", true, RankSelectSimple::new(make_bv(bits, mode)));
    cell!("few_one", true, RankSelectFewOne::from_bitvector(&make_bv(bits, mode)));
    cell!("few_zero", true, RankSelectFewZero::from_bitvector(&make_bv(bits, mode)));
    cell!("adaptive", true, AdaptiveRankSelect::new(make_bv(bits, mode)));
    for c in ["bitvector/rank1_bulk_simd", "bulk_simd"] { cx.sum.cell_status(c, "S-only"); }
    // mixed: this vector as dim0 with a different dim1, and the other way round
    {
        let other: Vec<bool> = (0..(n / 2 + 3)).map(|i| i % 3 == 0).collect();
        let name = "mixed/dim0";
        cx.sum.eval(name, &key, nontrivial);
        let res = guarded(|| RankSelectMixedIL256::new(make_bv(bits, mode), make_bv(&other, 0)).map(|m| {
            let mut bad = check_ops(&m.dim0(), &o, &ps, false);
            bad.extend(check_ops(&m.dim1(), &Oracle::new(&other), &positions(other.len(), false, &mut Rng::new(7)), false));
            bad }));
        match res {
            Err(p) => cx.sum.fail(name, class, cj.clone(), &format!("panicked: {}", p)),
            Ok(Err(e)) => cx.sum.fail(name, class, cj.clone(), &format!("construction refused: {:?}", e)),
            Ok(Ok(bad)) => if !bad.is_empty() { cx.sum.fail(name, class, cj.clone(), &bad.join("; ")); }
        }
        let name = "mixed/dim1";
        cx.sum.eval(name, &key, nontrivial);
        let res = guarded(|| RankSelectMixedIL256::new(make_bv(&other, 0), make_bv(bits, mode)).map(|m| check_ops(&m.dim1(), &o, &ps, false)));
        match res {
            Err(p) => cx.sum.fail(name, class, cj.clone(), &format!("panicked: {}", p)),
            Ok(Err(e)) => cx.sum.fail(name, class, cj.clone(), &format!("construction refused: {:?}", e)),
            Ok(Ok(bad)) => if !bad.is_empty() { cx.sum.fail(name, class, cj.clone(), &bad.join("; ")); }
        }
    }
    if o.ones.is_empty() { cell!("trivial", true, Ok::<_, zipora::ZiporaError>(RankSelectAllZero::new(n))); }
    if o.zeros.is_empty() { cell!("trivial", true, Ok::<_, zipora::ZiporaError>(RankSelectAllOne::new(n))); }
    // multi-dimensional wrappers: this vector and its negation as the two dimensions
    {
        let name = "multidim";
        cx.sum.eval(name, &key, nontrivial);
        let neg: Vec<bool> = bits.iter().map(|b| !b).collect();
        let res = guarded(|| {
            let mut bad: Vec<String> = vec![];
            let md = MultiDimRankSelect::<2>::new(vec![make_bv(bits, mode), make_bv(&neg, 0)]).map_err(|e| format!("{:?}", e))?;
            for &p in &ps {
                let got = md.bulk_rank_multidim(&[p, p]);
                if got != [o.pre[p], p - o.pre[p]] && bad.len() < 3 { bad.push(format!("bulk_rank_multidim([{p}, {p}]) = {:?} want [{}, {}]", got, o.pre[p], p - o.pre[p])); }
            }
            let (no, nz) = (o.ones.len(), o.zeros.len());
            for k in 0..no.min(300) { if nz > 0 {
                let got = md.bulk_select_multidim(&[k, k % nz]).ok();
                if got != Some([o.ones[k], o.zeros[k % nz]]) && bad.len() < 3 { bad.push(format!("bulk_select_multidim([{}, {}]) = {:?}", k, k % nz, got)); } } }
            if md.bulk_select_multidim(&[no, 0]).is_ok() { bad.push("bulk_select_multidim([ones, 0]) not refused".into()); }
            if md.bulk_select_multidim(&[0, nz]).is_ok() { bad.push("bulk_select_multidim([0, zeros]) not refused".into()); }
            let amd = AdaptiveMultiDimensional::new_dual(make_bv(bits, mode), make_bv(&neg, 0)).map_err(|e| format!("{:?}", e))?;
            bad.extend(check_ops(&amd, &o, &ps, true));
            Ok::<_, String>(bad)
        });
        match res {
            Err(p) => cx.sum.fail(name, class, cj.clone(), &format!("panicked: {}", p)),
            Ok(Err(e)) => cx.sum.fail(name, class, cj.clone(), &format!("construction refused: {}", e)),
            Ok(Ok(bad)) => if !bad.is_empty() { cx.sum.fail(name, class, cj.clone(), &bad.join("; ")); }
        }
    }
    // the bit vector's own rank, and the accelerated / bulk entry points
    {
        let name = "bitvector";
        cx.sum.eval(name, &key, nontrivial);
        let res = guarded(|| {
            let bv = make_bv(bits, mode);
            let mut bad = vec![];
            if bv.count_ones() != o.ones.len() { bad.push(format!("count_ones {} want {}", bv.count_ones(), o.ones.len())); }
            for &p in &ps { if bv.rank1(p) != o.pre[p] && bad.len() < 3 { bad.push(format!("rank1({}) = {} want {}", p, bv.rank1(p), o.pre[p])); }
                            if bv.rank0(p) != p - o.pre[p] && bad.len() < 3 { bad.push(format!("rank0({})", p)); } }
            bad
        });
        match res { Err(p) => cx.sum.fail(name, class, cj.clone(), &format!("panicked: {}", p)),
                    Ok(bad) => if !bad.is_empty() { cx.sum.fail(name, class, cj.clone(), &bad.join("; ")); } }
        let name = "bitvector/rank1_bulk_simd";
        cx.sum.eval(name, &key, nontrivial);
        let res = guarded(|| {
            let bv = make_bv(bits, mode);
            let mut bad = vec![];
            let bulk = bv.rank1_bulk_simd(&ps);
            if bulk != ps.iter().map(|&p| o.pre[p]).collect::<Vec<_>>() { bad.push("rank1_bulk_simd".to_string()); }
            bad
        });
        match res { Err(p) => cx.sum.fail(name, class, cj.clone(), &format!("panicked: {}", p)),
                    Ok(bad) => if !bad.is_empty() { cx.sum.fail(name, class, cj.clone(), &bad.join("; ")); } }
        let name = "interleaved256/perf";
        cx.sum.eval(name, &key, nontrivial);
        let res = guarded(|| {
            let rs = RankSelectInterleaved256::new(make_bv(bits, mode)).unwrap();
            let mut bad = vec![];
            let want: Vec<usize> = ps.iter().map(|&p| o.pre[p]).collect();
            for &p in &ps {
                if rs.rank1_hardware_accelerated(p) != o.pre[p] && bad.len() < 3 { bad.push(format!("rank1_hardware_accelerated({})", p)); }
                if rs.rank1_adaptive(p) != o.pre[p] && bad.len() < 3 { bad.push(format!("rank1_adaptive({})", p)); }
                if rs.rank1_optimized(p) != o.pre[p] && bad.len() < 3 { bad.push(format!("rank1_optimized({})", p)); }
            }
            if rs.rank1_bulk(&ps) != want { bad.push("rank1_bulk".into()); }
            if rs.rank1_bulk_optimized(&ps) != want { bad.push("rank1_bulk_optimized".into()); }
            let ks: Vec<usize> = (0..o.ones.len().min(1200)).collect();
            let wantk: Vec<usize> = ks.iter().map(|&k| o.ones[k]).collect();
            for &k in &ks {
                if rs.select1_hardware_accelerated(k).ok() != Some(o.ones[k]) && bad.len() < 3 { bad.push(format!("select1_hardware_accelerated({})", k)); }
                if rs.select1_adaptive(k).ok() != Some(o.ones[k]) && bad.len() < 3 { bad.push(format!("select1_adaptive({})", k)); }
                if rs.select1_optimized(k).ok() != Some(o.ones[k]) && bad.len() < 3 { bad.push(format!("select1_optimized({})", k)); }
            }
            if rs.select1_bulk(&ks).ok() != Some(wantk.clone()) { bad.push("select1_bulk".into()); }
            if rs.select1_bulk_optimized(&ks).ok() != Some(wantk) { bad.push("select1_bulk_optimized".into()); }
            bad
        });
        match res { Err(p) => cx.sum.fail(name, class, cj.clone(), &format!("panicked: {}", p)),
                    Ok(bad) => if !bad.is_empty() { cx.sum.fail(name, class, cj.clone(), &bad.join("; ")); } }
        let name = "bulk_simd";
        cx.sum.eval(name, &key, nontrivial);
        let res = guarded(|| {
            let bv = make_bv(bits, 0);
            let mut bad = vec![];
            let psin: Vec<usize> = ps.iter().cloned().filter(|&p| p <= n).collect();
            let got = bulk_rank1_simd(bv.blocks(), &psin);
            let want: Vec<usize> = psin.iter().map(|&p| o.pre[p]).collect();
            if got != want { bad.push(format!("bulk_rank1_simd differs at {:?}", got.iter().zip(&want).position(|(a, b)| a != b))); }
            // batches in which the order is not ascending, positions repeat, and the end of the vector (p = len, and p > len,
            // which the kernels answer with the total) is NOT the last element of the batch: kernels that carry state from one
            // position of a batch to the next must not depend on the batch's shape
            let total = o.pre[n];
            let pick = |i: usize| -> usize { if psin.is_empty() { 0 } else { psin[(i * 7 + 3) % psin.len()] } };
            let batches: Vec<Vec<usize>> = vec![
                psin.iter().rev().cloned().collect(),
                vec![n, n],
                vec![pick(0), n, pick(1)],
                vec![n, 0, pick(2), n, n, pick(3), n + 1, pick(4), n + 64, 0],
                (0..9).map(|i| if i % 3 == 1 { n } else { pick(i) }).collect(),
                (0..17).map(|i| if i % 5 == 2 { n + i } else { pick(i + 9) }).collect(),
            ];
            for b in &batches {
                let got = bulk_rank1_simd(bv.blocks(), b);
                let want: Vec<usize> = b.iter().map(|&p| if p <= n { o.pre[p] } else { total }).collect();
                if got != want && bad.len() < 3 { bad.push(format!("bulk_rank1_simd({:?}) = {:?}, the prefix counts are {:?}", &b[..b.len().min(10)], &got[..got.len().min(10)], &want[..want.len().min(10)])); }
            }
            if o.ones.len() >= 2 {
                let m = o.ones.len();
                let kb: Vec<usize> = vec![m - 1, 0, m / 2, m - 1, 0, 0, m / 3];
                let gotk = bulk_select1_simd(bv.blocks(), &kb).ok();
                if gotk != Some(kb.iter().map(|&k| o.ones[k]).collect::<Vec<_>>()) && bad.len() < 3 { bad.push(format!("bulk_select1_simd on the unsorted batch {:?}", kb)); }
            }
            let ks: Vec<usize> = (0..o.ones.len().min(1200)).collect();
            let gotk = bulk_select1_simd(bv.blocks(), &ks).ok();
            if gotk != Some(ks.iter().map(|&k| o.ones[k]).collect::<Vec<_>>()) { bad.push("bulk_select1_simd".into()); }
            let pcs = bulk_popcount_simd(bv.blocks());
            if pcs != bv.blocks().iter().map(|w| w.count_ones() as usize).collect::<Vec<_>>() { bad.push("bulk_popcount_simd".into()); }
            bad
        });
        match res { Err(p) => cx.sum.fail(name, None, cj.clone(), &format!("panicked: {}", p)),
                    Ok(bad) => if !bad.is_empty() { cx.sum.fail(name, None, cj.clone(), &bad.join("; ")); } }
    }
    // --- oracle breadth: secondary entry points, presets, word-level and bulk kernels (c04_x.rs; oracle-only cells)
    x::extra_cells(cx, bits, mode, &o, &ps, &cj, &key, nontrivial);
    // --- Coq model comparison for SE512 (4 option combos) and FewOne
    if to_coq && (mode == 0 || mode == 2) && n <= 2600 && cx.shards.len() < cx.budget {
        let combo = (r.below(2) == 1, r.below(2) == 1);
        let rate = *r.pick(&[1usize, 3, 64, 100, 256, 512, 512]);
        // the other dimension of the mixed structure: shorter, equal, longer (extra all-zero lines), a line longer
        let olen = match r.below(5) { 0 => 0, 1 => n / 2 + 3, 2 => n, 3 => n + 1, _ => n + 300 };
        // storage words beyond ceil(len/64): a vector that was popped keeps its (zeroed) blocks
        let extra = make_bv(bits, mode).blocks().len() - (n + 63) / 64;
        let res = guarded(|| {
            let rs = RankSelectSE512::with_options(make_bv(bits, mode), combo.0, combo.1).unwrap();
            let fw = RankSelectFewOne::from_bitvector(&make_bv(bits, mode)).unwrap();
            let il = RankSelectInterleaved256::new(make_bv(bits, mode)).unwrap();
            let ila = RankSelectInterleaved256::with_options(make_bv(bits, mode), true, rate).unwrap();
            let ilb = RankSelectInterleaved256::with_options(make_bv(bits, mode), false, rate).unwrap();
            let s2 = RankSelectSE256::with_options(make_bv(bits, mode), combo.0, combo.1).unwrap();
            let sm = RankSelectSimple::new(make_bv(bits, mode)).unwrap();
            let fz = RankSelectFewZero::from_bitvector(&make_bv(bits, mode)).unwrap();
            let ad = AdaptiveRankSelect::new(make_bv(bits, mode)).unwrap();
            let other: Vec<bool> = (0..olen).map(|i| i % 3 == 0).collect();
            let mx0 = RankSelectMixedIL256::new(make_bv(bits, mode), make_bv(&other, 0)).unwrap();
            let mx1 = RankSelectMixedIL256::new(make_bv(&other, 0), make_bv(bits, mode)).unwrap();
            let (d0, d1) = (mx0.dim0(), mx1.dim1());
            let az = RankSelectAllZero::new(n); let ao = RankSelectAllOne::new(n);
            let neg: Vec<bool> = bits.iter().map(|b| !b).collect();
            let md = MultiDimRankSelect::<2>::new(vec![make_bv(bits, mode), make_bv(&neg, 0)]).unwrap();
            let mut qs: Vec<(u32, usize)> = vec![];
            let mut sample: Vec<usize> = vec![0, n, n / 2];
            for b in [63usize, 64, 65, 511, 512, 513, 1023, 1024, 1025] { if b <= n { sample.push(b); } }
            for _ in 0..6 { sample.push(Rng::new(n as u64 + qs.len() as u64).below(n as u64 + 1) as usize); }
            for b in [255usize, 256, 257] { if b <= n { sample.push(b); } }
            for &p in &sample { qs.push((0, p)); qs.push((1, p)); qs.push((5, p)); qs.push((8, p)); qs.push((9, p)); qs.push((10, p)); if p < n { qs.push((4, p)); qs.push((7, p)); } }
            sample.sort(); sample.dedup();
            for &p in &sample {
                for op in [20u32, 21, 30, 31, 40, 41, 45] { qs.push((op, p)); }
                if p < n { for op in [24u32, 34, 44] { qs.push((op, p)); } }
            }
            for op in [24u32, 34, 44, 64, 73, 78] { qs.push((op, n)); }
            for &p in &sample {
                for op in [60u32, 61, 70, 71, 75, 76, 92, 93] { qs.push((op, p)); }
                if p < n { for op in [64u32, 73, 78] { qs.push((op, p)); } }
            }
            qs.push((60, n + 9)); qs.push((61, n + 9)); qs.push((92, n + 1)); qs.push((93, n + 1));
            for op in [65u32, 74, 79] { qs.push((op, 0)); }
            if o.ones.is_empty() { for &p in &sample { qs.push((80, p)); qs.push((81, p)); qs.push((82, p)); qs.push((83, p)); qs.push((84, p)); } qs.push((83, n)); qs.push((84, n)); qs.push((85, 0)); }
            if o.zeros.is_empty() { for &p in &sample { qs.push((86, p)); qs.push((87, p)); qs.push((88, p)); qs.push((89, p)); qs.push((90, p)); } qs.push((88, n)); qs.push((90, n)); qs.push((91, 0)); }
            for op in 50u32..=55 { qs.push((op, 0)); }
            for &p in &[0usize, n / 3, n, n + 5] { for op in 56u32..=59 { qs.push((op, p)); } }
            qs.push((8, n + 1)); qs.push((9, n + 77)); qs.push((8, n + 300));
            let no = o.ones.len(); let nz = o.zeros.len();
            for k in [0usize, 1, no / 2, no.saturating_sub(1), no, no + 1] { qs.push((2, k)); qs.push((6, k)); }
            for k in [0usize, 1, nz / 2, nz.saturating_sub(1), nz] { qs.push((3, k)); }
            // interleaved-256 select: cache on (sampled hints + linear search), cache off (binary search + in-line scan),
            // select0, and the entry points that forward to select1_cache_optimized
            let mut ks1: Vec<usize> = vec![0, 1, no / 2, no.saturating_sub(1), no, no + 1, rate.saturating_sub(1), rate, 2 * rate];
            for _ in 0..3 { ks1.push(Rng::new((n + no + ks1.len()) as u64).below(no as u64 + 1) as usize); }
            // the ones just before / at / after every 256-bit line boundary
            for b in [256usize, 512, 768, 1024, 2048] { if b <= n { let q = o.pre[b]; ks1.push(q.saturating_sub(1)); ks1.push(q); } }
            ks1.sort(); ks1.dedup();
            for &k in &ks1 { qs.push((11, k)); qs.push((13, k)); qs.push((22, k)); qs.push((32, k)); qs.push((42, k)); qs.push((72, k)); qs.push((77, k)); }
            // the forwarders onto the (linear-search) cached select of interleaved-256: a few indices are enough
            for (i, &k) in ks1.iter().enumerate() { if i % 4 == 0 || k + 1 >= no { qs.push((62, k)); qs.push((94, k)); } }
            let mut ks0: Vec<usize> = vec![0, 1, nz / 2, nz.saturating_sub(1), nz, nz + 1];
            for _ in 0..3 { ks0.push(Rng::new((n + nz + ks0.len()) as u64).below(nz as u64 + 1) as usize); }
            for b in [256usize, 512, 768, 1024, 2048] { if b <= n { let q = b - o.pre[b]; ks0.push(q.saturating_sub(1)); ks0.push(q); } }
            ks0.sort(); ks0.dedup();
            for &k in &ks0 { qs.push((12, k)); qs.push((23, k)); qs.push((33, k)); qs.push((43, k)); qs.push((46, k)); qs.push((63, k)); }
            for (i, &k) in ks0.iter().enumerate() { if i % 4 == 0 || k + 1 >= nz { qs.push((95, k)); } }
            for k in [0usize, no / 3, no.saturating_sub(1), no] { qs.push((14, k)); qs.push((15, k)); qs.push((16, k)); qs.push((17, k)); qs.push((18, k)); }
            qs.push((4, n));
            let ans: Vec<i128> = qs.iter().map(|&(op, a)| match op {
                0 => rs.rank1(a) as i128, 1 => rs.rank0(a) as i128,
                2 => rs.select1(a).map(|x| x as i128).unwrap_or(-1), 3 => rs.select0(a).map(|x| x as i128).unwrap_or(-1),
                4 => rs.get(a).map(|b| b as i128).unwrap_or(-1),
                5 => fw.rank1(a) as i128, 6 => fw.select1(a).map(|x| x as i128).unwrap_or(-1),
                8 => il.rank1(a) as i128, 9 => il.rank0(a) as i128, 10 => il.get(a).map(|b| b as i128).unwrap_or(-1),
                11 => ila.select1(a).map(|x| x as i128).unwrap_or(-1), 12 => ila.select0(a).map(|x| x as i128).unwrap_or(-1),
                13 => ilb.select1(a).map(|x| x as i128).unwrap_or(-1),
                14 => ila.select1_hardware_accelerated(a).map(|x| x as i128).unwrap_or(-1),
                15 => ila.select1_adaptive(a).map(|x| x as i128).unwrap_or(-1),
                16 => ilb.select1_optimized(a).map(|x| x as i128).unwrap_or(-1),
                17 => ila.select1_bulk(&[a]).map(|v| v[0] as i128).unwrap_or(-1),
                18 => ilb.select1_bulk_optimized(&[0, a]).map(|v| v[1] as i128).unwrap_or(-1),
                20 => s2.rank1(a) as i128, 21 => s2.rank0(a) as i128,
                22 => s2.select1(a).map(|x| x as i128).unwrap_or(-1), 23 => s2.select0(a).map(|x| x as i128).unwrap_or(-1),
                24 => s2.get(a).map(|b| b as i128).unwrap_or(-1),
                30 => sm.rank1(a) as i128, 31 => sm.rank0(a) as i128,
                32 => sm.select1(a).map(|x| x as i128).unwrap_or(-1), 33 => sm.select0(a).map(|x| x as i128).unwrap_or(-1),
                34 => sm.get(a).map(|b| b as i128).unwrap_or(-1),
                40 => fz.rank1(a) as i128, 41 => fz.rank0(a) as i128,
                42 => fz.select1(a).map(|x| x as i128).unwrap_or(-1), 43 => fz.select0(a).map(|x| x as i128).unwrap_or(-1),
                44 => fz.get(a).map(|b| b as i128).unwrap_or(-1),
                45 => fw.rank0(a) as i128, 46 => fw.select0(a).map(|x| x as i128).unwrap_or(-1),
                50 => rs.count_ones() as i128, 51 => s2.count_ones() as i128, 52 => sm.count_ones() as i128,
                53 => fz.count_ones() as i128, 54 => fw.count_ones() as i128, 55 => il.count_ones() as i128,
                56 => il.rank1_hardware_accelerated(a) as i128, 57 => il.rank1_adaptive(a) as i128,
                58 => il.rank1_optimized(a) as i128, 59 => il.rank1_bulk(&[a])[0] as i128,
                60 => ad.rank1(a) as i128, 61 => ad.rank0(a) as i128,
                62 => ad.select1(a).map(|x| x as i128).unwrap_or(-1), 63 => ad.select0(a).map(|x| x as i128).unwrap_or(-1),
                64 => ad.get(a).map(|b| b as i128).unwrap_or(-1), 65 => ad.count_ones() as i128,
                70 => d0.rank1(a) as i128, 71 => d0.rank0(a) as i128, 72 => d0.select1(a).map(|x| x as i128).unwrap_or(-1),
                73 => d0.get(a).map(|b| b as i128).unwrap_or(-1), 74 => d0.count_ones() as i128,
                75 => d1.rank1(a) as i128, 76 => d1.rank0(a) as i128, 77 => d1.select1(a).map(|x| x as i128).unwrap_or(-1),
                78 => d1.get(a).map(|b| b as i128).unwrap_or(-1), 79 => d1.count_ones() as i128,
                80 => az.rank1(a) as i128, 81 => az.rank0(a) as i128, 82 => az.select1(a).map(|x| x as i128).unwrap_or(-1),
                83 => az.select0(a).map(|x| x as i128).unwrap_or(-1), 84 => az.get(a).map(|b| b as i128).unwrap_or(-1), 85 => az.count_ones() as i128,
                86 => ao.rank1(a) as i128, 87 => ao.rank0(a) as i128, 88 => ao.select1(a).map(|x| x as i128).unwrap_or(-1),
                89 => ao.select0(a).map(|x| x as i128).unwrap_or(-1), 90 => ao.get(a).map(|b| b as i128).unwrap_or(-1), 91 => ao.count_ones() as i128,
                92 => md.bulk_rank_multidim(&[a, a])[0] as i128, 93 => md.bulk_rank_multidim(&[a, a])[1] as i128,
                94 => md.bulk_select_multidim(&[a, 0]).map(|v| v[0] as i128).unwrap_or(-1),
                95 => md.bulk_select_multidim(&[0, a]).map(|v| v[1] as i128).unwrap_or(-1),
                _ => fw.get(a).map(|b| b as i128).unwrap_or(-1) }).collect();
            (qs, ans)
        });
        if let Ok((qs, ans)) = res {
            let runs_coq: Vec<String> = runs.iter().map(|(b, k)| format!("({}, {}%N)", coq_bool(*b), k)).collect();
            let qs_coq: Vec<String> = qs.iter().map(|(op, a)| format!("({}%N, {}%N)", op, a)).collect();
            let term = format!("RS [{}] {} {} {}%N {}%N {}%N [{}] {}", runs_coq.join("; "), coq_bool(combo.0), coq_bool(combo.1), rate, olen, extra, qs_coq.join("; "), coq_z_list(ans.iter().cloned()));
            cx.shards.push(term, json!({"runs": cj["runs"], "mode": mode, "speed_select": [combo.0, combo.1], "il_sample_rate": rate, "mixed_other_len": olen, "extra_words": extra}));
        }
    }
}


// ---------------------------------------------------------------------------------------------
// BitVector operation histories: the vector's own observations against a Vec<bool>, the structures built from
// the resulting vector (they popcount whole storage words, so bits past the end must be zero), and the Coq
// state-machine model (observations, final blocks(), final len()).
// op codes: 0 push(b) 1 pop 2 set(i,b) 3 resize(n,b) 4 ensure_set1(i) 5 fast_ensure_set1(i) 6 insert(i,b) 7 clear
//           8 get(i) 9 rank1(p) 10 rank0(p) 11 count_ones 12 len
type BvOp = (u32, usize, bool);

fn bv_apply(bv: &mut BitVector, op: BvOp) -> i128 {
    let (c, a, b) = op;
    fn r(x: zipora::Result<()>) -> i128 { if x.is_ok() { 0 } else { -1 } }
    match c {
        0 => r(bv.push(b)),
        1 => bv.pop().map(|x| x as i128).unwrap_or(-1),
        2 => r(bv.set(a, b)),
        3 => r(bv.resize(a, b)),
        4 => r(bv.ensure_set1(a)),
        5 => r(bv.fast_ensure_set1(a)),
        6 => r(bv.insert(a, b)),
        7 => { bv.clear(); 0 }
        8 => bv.get(a).map(|x| x as i128).unwrap_or(-1),
        9 => bv.rank1(a) as i128,
        10 => bv.rank0(a) as i128,
        11 => bv.count_ones() as i128,
        _ => bv.len() as i128,
    }
}

fn ref_apply(l: &mut Vec<bool>, op: BvOp) -> i128 {
    let (c, a, b) = op;
    match c {
        0 => { l.push(b); 0 }
        1 => l.pop().map(|x| x as i128).unwrap_or(-1),
        2 => if a < l.len() { l[a] = b; 0 } else { -1 },
        3 => { l.resize(a, b); 0 }
        4 | 5 => { if a >= l.len() { l.resize(a + 1, false); } l[a] = true; 0 }
        6 => if a <= l.len() { l.insert(a, b); 0 } else { -1 },
        7 => { l.clear(); 0 }
        8 => l.get(a).map(|x| *x as i128).unwrap_or(-1),
        9 => l.iter().take(a).filter(|x| **x).count() as i128,
        10 => l.iter().take(a).filter(|x| !**x).count() as i128,
        11 => l.iter().filter(|x| **x).count() as i128,
        _ => l.len() as i128,
    }
}

fn bv_gen_ops(r: &mut Rng) -> (bool, usize, bool, Vec<BvOp>) {
    let use_init = r.chance(1, 2);
    let init_size = *r.pick(&[0usize, 1, 63, 64, 65, 127, 128, 129, 255, 256, 257, 511, 512, 513, 1000]);
    let init_val = r.chance(1, 2);
    let mut len = if use_init { init_size } else { 0 };
    let mut ops: Vec<BvOp> = vec![];
    let nops = 15 + r.below(70) as usize;
    while ops.len() < nops {
        let near = |r: &mut Rng, len: usize| -> usize {
            match r.below(8) { 0 => 0, 1 => len, 2 => len + 1, 3 => len.saturating_sub(1), 4 => (len / 64) * 64, 5 => (len / 64) * 64 + 64,
                               6 => len + *r.pick(&[2usize, 63, 64, 65, 200]), _ => r.below(len as u64 + 1) as usize } };
        match r.below(100) {
            0..=27 => { let burst = if r.chance(1, 4) { 1 + r.below(70) as usize } else { 1 }; let dense = r.chance(1, 2);
                        for _ in 0..burst { ops.push((0, 0, if dense { !r.chance(1, 8) } else { r.chance(1, 2) })); len += 1; } }
            28..=35 => { let k = if r.chance(1, 5) { 1 + r.below(70) as usize } else { 1 }; for _ in 0..k { ops.push((1, 0, false)); len = len.saturating_sub(1); } }
            36..=43 => { let i = near(r, len); ops.push((2, i, r.chance(1, 2))); }
            44..=50 => { let n = { let x = near(r, len); if r.chance(1, 6) { *r.pick(&[0usize, 63, 64, 65, 128, 700]) } else { x } }; ops.push((3, n, r.chance(1, 2))); len = n; }
            51..=57 => { let i = near(r, len); ops.push((4, i, false)); if i >= len { len = i + 1; } }
            58..=62 => { let i = near(r, len); ops.push((5, i, false)); if i >= len { len = i + 1; } }
            63..=64 => { if len < 300 { let i = near(r, len); ops.push((6, i, r.chance(1, 2))); if i <= len { len += 1; } } }
            65 => { ops.push((7, 0, false)); len = 0; }
            66..=73 => { let i = near(r, len); ops.push((8, i, false)); }
            74..=86 => { let i = near(r, len); ops.push((9, i, false)); }
            87..=91 => { let i = near(r, len); ops.push((10, i, false)); }
            92..=96 => ops.push((11, 0, false)),
            _ => ops.push((12, 0, false)),
        }
        if len > 2600 { ops.push((3, 100, false)); len = 100; }
    }
    ops.push((11, 0, false)); ops.push((12, 0, false)); ops.push((9, len, false));
    (use_init, init_size, init_val, ops)
}

fn bv_history(cx: &mut Ctx, use_init: bool, init_size: usize, init_val: bool, ops: &[BvOp], to_coq: bool) {
    let name = "bitvector";
    let cj = json!({"cell": "bitvector/history", "init": {"use": use_init, "size": init_size, "val": init_val},
                    "ops": ops.iter().map(|(c, a, b)| json!([c, a, *b as u8])).collect::<Vec<_>>()});
    if !cx.begin_case(&cj) { return; }
    let key = format!("{:?} {} {} {:?}", use_init, init_size, init_val, ops);
    let crosses = ops.iter().filter(|o| o.0 <= 7).count() >= 5;
    cx.sum.eval(name, &key, crosses);
    let res = guarded(|| {
        let mut bad: Vec<String> = vec![];
        let mut bv = if use_init { BitVector::with_size(init_size, init_val).unwrap() } else { BitVector::new() };
        let mut l: Vec<bool> = if use_init { vec![init_val; init_size] } else { vec![] };
        let mut obs: Vec<i128> = vec![];
        for (k, &op) in ops.iter().enumerate() {
            let got = bv_apply(&mut bv, op);
            let want = ref_apply(&mut l, op);
            if got != want && bad.len() < 3 { bad.push(format!("op #{} {:?}: got {} want {}", k, op, got, want)); }
            obs.push(got);
        }
        // the final vector, bit by bit, and its own rank at every position
        if bv.len() != l.len() { bad.push(format!("len {} want {}", bv.len(), l.len())); }
        let o = Oracle::new(&l);
        if bv.count_ones() != o.ones.len() { bad.push(format!("count_ones {} want {}", bv.count_ones(), o.ones.len())); }
        for p in 0..=l.len() {
            if p < l.len() && bv.get(p) != Some(l[p]) && bad.len() < 4 { bad.push(format!("get({})", p)); }
            if bv.rank1(p) != o.pre[p] && bad.len() < 4 { bad.push(format!("rank1({}) = {} want {}", p, bv.rank1(p), o.pre[p])); }
        }
        // structures built from this vector count whole storage words: stale bits past the end would show here
        let ps: Vec<usize> = (0..=l.len()).collect();
        let blocks: Vec<u64> = bv.blocks().to_vec();
        let flen = bv.len();
        if bad.is_empty() {
            for (nm, b) in [("interleaved256", RankSelectInterleaved256::new(bv.clone()).map(|x| check_ops(&x, &o, &ps, true))),
                            ("se256", RankSelectSE256::new(bv.clone()).map(|x| check_ops(&x, &o, &ps, true))),
                            ("se512", RankSelectSE512::new(bv.clone()).map(|x| check_ops(&x, &o, &ps, true))),
                            ("simple", RankSelectSimple::new(bv.clone()).map(|x| check_ops(&x, &o, &ps, true)))] {
                match b { Ok(v) => for e in v.into_iter().take(2) { bad.push(format!("{} built from the vector: {}", nm, e)); },
                          Err(e) => bad.push(format!("{} construction refused: {:?}", nm, e)) }
            }
        }
        (bad, obs, blocks, flen)
    });
    match res {
        Err(p) => cx.sum.fail(name, None, cj.clone(), &format!("panicked: {}", p)),
        Ok((bad, obs, blocks, flen)) => {
            if !bad.is_empty() { cx.sum.fail(name, None, cj.clone(), &bad.join("; ")); }
            if to_coq && cx.shards.len() < cx.budget {
                let ops_coq: Vec<String> = ops.iter().map(|(c, a, b)| format!("({}%N, {}%N, {}%N)", c, a, *b as u8)).collect();
                let term = format!("BV {}%N {} {} [{}] {} {} {}%N", init_size, coq_bool(init_val), coq_bool(use_init), ops_coq.join("; "),
                                   coq_z_list(obs.iter().cloned()), coq_n_list(blocks.iter().map(|&w| w as u128)), flen);
                cx.shards.push(term, cj.clone());
            }
        }
    }
}

fn gen_bits(r: &mut Rng, thorough: bool) -> Vec<bool> {
    let lens = [0usize, 1, 63, 64, 65, 255, 256, 257, 511, 512, 513, 1023, 1024, 1025, 2047, 2048, 2049, 4096];
    let big = [65535usize, 65536, 65537];
    let n = if thorough && r.chance(1, 12) { *r.pick(&big) } else if r.chance(2, 3) { *r.pick(&lens) } else { r.below(3000) as usize };
    match r.below(9) {
        0 => vec![false; n],
        1 => vec![true; n],
        2 => { let mut v = vec![false; n]; if n > 0 { let p = *r.pick(&[0usize, 63, 64, 255, 256, 511, 512, n - 1]); v[p.min(n - 1)] = true; } v }
        3 => { let mut v = vec![true; n]; if n > 0 { let p = *r.pick(&[0usize, 63, 64, 255, 256, 511, 512, n - 1]); v[p.min(n - 1)] = false; } v }
        4 => (0..n).map(|_| r.chance(1, 1000)).collect(),
        5 => (0..n).map(|_| r.chance(1, 2)).collect(),
        6 => (0..n).map(|_| r.chance(999, 1000)).collect(),
        7 => { // long runs
            let mut v = vec![]; let mut b = r.chance(1, 2);
            while v.len() < n { let l = *r.pick(&[1usize, 7, 64, 200, 256, 300, 512, 700]); for _ in 0..l { if v.len() < n { v.push(b); } } b = !b; } v }
        _ => (0..n).map(|_| r.chance(7, 8)).collect(),
    }
}

fn run_one(cx: &mut Ctx, c: &Value) {
    if c.get("cell").and_then(|x| x.as_str()) == Some("bitvector/history") {
        let ops: Vec<BvOp> = c["ops"].as_array().map(|a| a.iter().map(|o| (o[0].as_u64().unwrap_or(12) as u32, o[1].as_u64().unwrap_or(0) as usize, o[2].as_u64().unwrap_or(0) == 1)).collect()).unwrap_or_default();
        let init = &c["init"];
        bv_history(cx, init["use"].as_bool().unwrap_or(false), init["size"].as_u64().unwrap_or(0) as usize, init["val"].as_bool().unwrap_or(false), &ops, true);
        return;
    }
    if c.get("cell").and_then(|x| x.as_str()) == Some("bitvector/xhistory") { x::x_history_replay(cx, c); return; }
    if c.get("cell").and_then(|x| x.as_str()) == Some("big") { x::big_replay(cx, c); return; }
    if c.get("cell").and_then(|x| x.as_str()) == Some("few_described") { x::few_described_replay(cx, c); return; }
    let mut bits = vec![];
    for rn in c["runs"].as_array().unwrap() { for _ in 0..rn[1].as_u64().unwrap() { bits.push(rn[0].as_u64().unwrap() == 1); } }
    let mode = c["mode"].as_u64().unwrap_or(0) as u32;
    let mut r = Rng::new(1);
    one_vector(cx, &bits, mode, &mut r, true);
}

pub fn run(args: &Args) {
    let mut cx = Ctx {
        sum: Summary::new("C04", "all bit strings of length <= 10 (quick) / 12 (thorough); generated vectors at lengths around 64/256/512/2048/65536 boundaries with densities all-0, all-1, single bit at a boundary, 1/1000, 1/2, 7/8, 999/1000, long runs; bit vectors built by push, by over-push + resize-down, by over-push + pop, by with_size(false) + set, by with_size(true) + clear, by growing with resize(n, true); four vectors with runs of 8200..20032 ones at 8192-bit boundaries; every position for rank0/rank1/get and every k (plus ones, ones+1) for select0/select1 when len <= 1400, boundary + random sample otherwise; non-trivial = length >= 65 with both bit values present; BitVector operation histories (15..85 steps from new or with_size(n, v) at block-boundary sizes: push bursts, pop bursts, set, resize, ensure_set1, fast_ensure_set1, insert, clear, get, rank1, rank0, count_ones, len at and around len and the 64-bit block edges) compared step by step with a Vec<bool>, then every position of the final vector and the structures built from it; non-trivial history = at least 5 mutations; oracle breadth (c04_x.rs): on every vector the other constructors (RankSelectBuilder from_bit_vector / from_iter / from_bytes / with_optimizations presets, Default, Clone, from_words, FewOne/FewZero::new, from_raw_bits, with_capacity), the mixed select-cache options, the per-dimension functions of mixed IL256, AdaptiveRankSelect::with_criteria over 7 non-default criteria, MultiDimRankSelect with 1/3/5 dimensions and BLOCK_SIZE 512 incl. intersect/union, and the word-level and bulk entry points of bmi2_acceleration / bmi2_comprehensive / SimdOps; 26 vectors given by (kind, n, seed) at 4097, 8191..8193, 8447..8449, 9999..10001, 12288, 16383..16385, 65535..65537, 131072, 2^20-1..2^20+1, 999999..1000001 bits (10 kinds); 700 extended BitVector histories (12..62 steps from new / with_size / with_capacity / from_raw_bits / default) mixing the operations above with reserve, get_mut, set_range_simd, bulk_bitwise_op_simd against generated vectors of other lengths, clone, ==, unchecked accessors, from_raw_bits round trips"),
        shards: CoqShards::new(HEADER, 40),
        budget: if args.thorough { 6000 } else { 600 },
        all_queries: args.thorough,
        probe_log: None, case_no: 0, skip: Default::default(), stop_at: usize::MAX,
    };
    let mut rng = Rng::new(args.seed);
    let mut replay_case: Option<Value> = None;
    let mut is_child = false;
    if let Some(f) = &args.replay {
        let v: Value = serde_json::from_str(&std::fs::read_to_string(f).expect("replay file")).expect("json");
        if v.get("probe").and_then(|x| x.as_bool()) == Some(true) {
            // worker mode: every case is logged before it runs
            is_child = true;
            unsafe { libc::prctl(libc::PR_SET_PDEATHSIG, libc::SIGKILL); }
            cx.probe_log = std::fs::File::create(format!("{}/probe.log", args.out)).ok();
            if let Some(a) = v["skip"].as_array() { for x in a { cx.skip.insert(x.as_u64().unwrap_or(0) as usize); } }
            if let Some(n) = v["stop_at"].as_u64() { cx.stop_at = n as usize; }
            if let Some(a) = v["aborted"].as_array() {
                for c in a {
                    let cell = match c.get("cell").and_then(|x| x.as_str()) { Some("bitvector/xhistory") => "bitvector/xhistory", Some("big") => "process", Some("few_described") => "few/described", Some(_) => "bitvector", None => "process" };
                    cx.sum.eval(cell, &format!("abort {}", c), true);
                    cx.sum.fail(cell, None, c.clone(), "the process aborted (bounds failure / abort inside the library) while running this case");
                }
            }
            if !v["case"].is_null() { replay_case = Some(v["case"].clone()); }
        } else {
            replay_case = Some(if v.get("case").is_some() { v["case"].clone() } else { v });
        }
    }
    if !is_child {
        // supervisor: the worker writes summary.json and the shards; rerun it past every case it aborts in
        let mut skip: Vec<usize> = vec![];
        let mut aborted: Vec<Value> = vec![];
        let mut stop_at: Option<usize> = None;
        for round in 0..8 {
            let spec = json!({"probe": true, "skip": skip, "aborted": aborted, "stop_at": stop_at, "case": replay_case.clone().unwrap_or(Value::Null)});
            let (ok, last) = probe_child(args, &spec);
            if ok { return; }
            match last {
                Some(l) => {
                    let n = l["n"].as_u64().unwrap_or(0) as usize;
                    if n == 0 || skip.contains(&n) { break; }
                    skip.push(n);
                    if aborted.len() < 4 { aborted.push(l["case"].clone()); }
                    // many cases abort: from the fifth one on, only the cases before it are run
                    if round >= 4 { stop_at = Some(n); }
                }
                None => break,
            }
        }
        // the worker never got through: report what was seen
        for c in aborted {
            let cell = match c.get("cell").and_then(|x| x.as_str()) { Some("bitvector/xhistory") => "bitvector/xhistory", Some("big") => "process", Some("few_described") => "few/described", Some(_) => "bitvector", None => "process" };
            cx.sum.eval(cell, &format!("abort {}", c), true);
            cx.sum.fail(cell, None, c, "the process aborted (bounds failure / abort inside the library) while running this case");
        }
        let sh = cx.shards.write(&args.out);
        cx.sum.write(&args.out, sh);
        return;
    }
    if let Some(c) = replay_case {
        run_one(&mut cx, &c);
        let sh = cx.shards.write(&args.out);
        cx.sum.write(&args.out, sh);
        return;
    }
    if let Ok(rd) = std::fs::read_dir("corpus/C04") {
        let mut files: Vec<_> = rd.filter_map(|e| e.ok()).map(|e| e.path()).collect();
        files.sort();
        for p in files {
            if let Ok(v) = serde_json::from_str::<Value>(&std::fs::read_to_string(&p).unwrap_or_default()) {
                let c = if v.get("case").is_some() { v["case"].clone() } else { v };
                run_one(&mut cx, &c);
                cx.sum.dist("corpus_cases");
            }
        }
    }
    let mut t0 = std::time::Instant::now();
    macro_rules! lap { ($k:expr) => { cx.sum.dist_max(concat!("ms_", $k), t0.elapsed().as_millis() as u64); t0 = std::time::Instant::now(); } }
    // enumerated: all bit strings up to a small length
    let maxlen = if args.thorough { 12 } else { 10 };
    for len in 0..=maxlen {
        for v in 0..(1u32 << len) {
            let bits: Vec<bool> = (0..len).map(|i| (v >> i) & 1 == 1).collect();
            one_vector(&mut cx, &bits, 0, &mut rng, v % 61 == 0);
        }
    }
    lap!("enumerated");
    // long runs of ones (byte-wide lane counters of the bulk popcount kernels wrap at 256 per lane)
    for (lead, ones, tail, mode) in [(0usize, 20032usize, 0usize, 0u32), (8192, 8200, 100, 0), (8192, 16384, 37, 4), (100, 9000, 7000, 5)] {
        let mut bits = vec![false; lead]; bits.extend(std::iter::repeat(true).take(ones)); bits.extend(std::iter::repeat(false).take(tail));
        cx.sum.dist("long_run_vectors");
        let mut r2 = rng.clone();
        one_vector(&mut cx, &bits, mode, &mut r2, false);
    }
    // vectors given by (kind, n, seed): internal thresholds (32/33 blocks, 10^4, 2^14, 2^16, 2^20, 10^6)
    x::big_family(&mut cx, args.thorough);
    x::few_described_family(&mut cx, args.thorough);
    lap!("kind_n_seed");
    let ngen = if args.thorough { 6000 } else { 420 };
    for i in 0..ngen {
        let bits = gen_bits(&mut rng, args.thorough);
        let mode = if i % 7 == 3 { 1 } else if i % 7 == 5 { 2 } else if i % 7 == 6 { 3 } else if i % 7 == 1 { 4 } else if i % 7 == 2 { 5 } else { 0 };
        if i < 3 { cx.sum.sample(json!({"len": bits.len(), "ones": bits.iter().filter(|b| **b).count(), "mode": mode, "first_runs": runs_of(&bits).iter().take(6).map(|(b, k)| json!([*b as u8, k])).collect::<Vec<_>>()})); }
        cx.sum.dist(&format!("build_mode={}", mode));
        cx.sum.dist_max("max_len", bits.len() as u64);
        let mut r2 = rng.clone();
        one_vector(&mut cx, &bits, mode, &mut r2, true);
        rng.next();
    }
    lap!("generated");
    // BitVector operation histories
    let nhist = if args.thorough { 4000 } else { 400 };
    for i in 0..nhist {
        let (u, n, v, ops) = bv_gen_ops(&mut rng);
        if i < 2 { cx.sum.sample(json!({"bitvector_history": {"with_size": u, "size": n, "val": v, "ops": ops.len(), "first_ops": ops.iter().take(8).map(|(c, a, b)| json!([c, a, *b as u8])).collect::<Vec<_>>()}})); }
        cx.sum.dist("bitvector_histories");
        bv_history(&mut cx, u, n, v, &ops, i % 2 == 0 || args.thorough);
    }
    lap!("histories");
    // extended histories: the same operations mixed with reserve / get_mut / set_range_simd / bulk_bitwise_op_simd / clone / == /
    // from_raw_bits / unchecked accessors (oracle only)
    let nx = if args.thorough { 6000 } else { 700 };
    for i in 0..nx {
        let (st, n0, v0, sd, ops) = x::x_gen_ops(&mut rng);
        if i < 1 { cx.sum.sample(json!({"bitvector_xhistory": {"start": st, "n": n0, "ops": ops.len()}})); }
        cx.sum.dist("bitvector_xhistories");
        x::x_history(&mut cx, st, n0, v0, sd, &ops);
    }
    lap!("xhistories");
    let _ = t0;
    cx.sum.dist_max("coq_cases", cx.shards.len() as u64);
    let sh = cx.shards.write(&args.out);
    cx.sum.write(&args.out, sh);
}
