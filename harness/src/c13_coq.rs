//! C13: emission of Coq cases for the cells added after the varint codecs (model tie, stricter than the oracle).
use super::c13_io::Item;
use super::c13_rd::{Op, Out, WLog};
use super::Ctx;
use serde_json::json;

fn op_code(name: &str) -> Option<i128> {
    Some(match name {
        "read" => 0, "exact" => 1, "byte" => 2, "slice" => 3, "ensure" => 4, "simd" => 5, "bulk" => 6, "fill_buf" => 7, "consume" => 8,
        "seek_start" => 9, "seek_cur" => 10, "seek_end" => 11, "skip" => 12, "pos" => 13, "reset" => 14, "seek_in" => 15, "peek" => 16, "opt" => 17,
        _ => return None,
    })
}

impl Ctx {
    /// Like `coq`, but drawn from the budget reserved for the newer cells.
    pub fn coq2(&mut self, op: u32, s: usize, ints: &[i128], bytes: &[u8], obs: &Option<Vec<i128>>, force: bool) {
        self.coq(op, s, ints, bytes, obs, force);
    }
    pub fn coq_bytes_case(&mut self, op: u32, ints: &[i128], bytes: &[u8]) {
        self.coq2(op, 0, ints, &[], &Some(bytes.iter().map(|&b| b as i128).collect()), false);
    }
    /// DataOutput script -> bytes (op 18) and bytes -> values + consumed (op 19).
    pub fn coq_items(&mut self, items: &[Item], bytes: &[u8]) {
        if bytes.len() > 300 { return; }
        let mut enc: Vec<i128> = vec![];
        let mut dec_script: Vec<i128> = vec![];
        let mut dec_out: Vec<i128> = vec![];
        for it in items {
            let blob = |tag: i128, b: &[u8], enc: &mut Vec<i128>| { enc.push(tag); enc.push(b.len() as i128); enc.extend(b.iter().map(|&x| x as i128)); };
            match it {
                Item::U8(v) => { enc.extend([1, *v as i128]); dec_script.push(1); dec_out.push(*v as i128); }
                Item::U16(v) => { enc.extend([2, *v as i128]); dec_script.push(2); dec_out.push(*v as i128); }
                Item::U32(v) => { enc.extend([3, *v as i128]); dec_script.push(3); dec_out.push(*v as i128); }
                Item::U64(v) => { enc.extend([4, *v as i128]); dec_script.push(4); dec_out.push(*v as i128); }
                Item::Var(v) => { enc.extend([5, *v as i128]); dec_script.push(5); dec_out.push(*v as i128); }
                Item::Bytes(b) => { blob(6, b, &mut enc); dec_script.push(6); dec_out.push(b.len() as i128); dec_out.extend(b.iter().map(|&x| x as i128)); }
                Item::Str(s) => { blob(6, s.as_bytes(), &mut enc); dec_script.push(6); dec_out.push(s.len() as i128); dec_out.extend(s.bytes().map(|x| x as i128)); }
                Item::Raw(b) | Item::Skip(b) => { blob(7, b, &mut enc); dec_script.extend([7, b.len() as i128]); dec_out.extend(b.iter().map(|&x| x as i128)); }
                Item::RawStr(s) => { blob(7, s.as_bytes(), &mut enc); dec_script.extend([7, s.len() as i128]); dec_out.extend(s.bytes().map(|x| x as i128)); }
                Item::Gen(..) => return,
            }
        }
        self.coq2(18, 0, &enc, &[], &Some(bytes.iter().map(|&b| b as i128).collect()), false);
        let mut buf = bytes.to_vec();
        buf.extend_from_slice(&[0xAA, 0x55]);
        dec_out.push(bytes.len() as i128);
        self.coq2(19, 0, &dec_script, &buf, &Some(dec_out), false);
    }
    /// A reader history with the implementation's observations (kinds sbr, range, zero-copy; plain and short-read inner).
    pub fn coq_reader(&mut self, kind: usize, data: &[u8], cfg: &[u64], obs: &[(Op, Out)], force: bool) {
        let gc = |i: usize, d: u64| cfg.get(i).copied().unwrap_or(d);
        // a buffered reader stacked on a RangeReader over a cursor reads a cursor over the range's bytes
        // (theorem range_read_is_cursor_read): the buffered-reader model over the slice
        let slice_owned: Vec<u8>;
        let data: &[u8] = if kind == 10 {
            let dl0 = data.len() as u64;
            let (st, ln) = (gc(7, 0), gc(8, dl0));
            slice_owned = data[(st.min(dl0) as usize)..(st.saturating_add(ln).min(dl0) as usize)].to_vec();
            &slice_owned
        } else { data };
        let dl = data.len() as u64;
        // the preset constructors whose growth factor the model has (performance_optimized 2.0, low_latency 1.5) and ZeroCopyReader::new:
        // the same state machines with the preset's numbers (page alignment 4096 divides every preset capacity)
        let preset: Option<(i128, [i128; 6])> = match kind {
            11 => match gc(0, 0) % 5 { 1 => Some((0, [131072, 4194304, 1, 4, 4096, 0])), 3 => Some((0, [8192, 262144, 0, 1, 2048, 1])), _ => return },
            12 => Some((2, [65536, 65536, 1, 2, 8192, 0])),
            // MmapZeroCopyReader: a position over the mapped bytes (no configuration)
            6 => Some((3, [0, 0, 0, 0, 0, 0])),
            10 => {
                if gc(10, 0) > 1 { return; }
                let cap = gc(0, 8).max(1);
                Some((0, [cap as i128, gc(1, 0).max(cap) as i128, gc(2, 1) as i128, gc(3, 2) as i128, gc(4, 8192).max(1) as i128, gc(5, 0) as i128]))
            }
            _ => None,
        };
        let mut force = force;
        let preset_cell = format!("reader/{}", super::c13_rd::rkind_name(kind));
        if preset.is_some() {
            if *self.uni_used.get(&preset_cell).unwrap_or(&0) >= 40 * self.coq_budget / 2400 || data.len() > 5000 || obs.len() > 80 { return; }
            force = true;
        }
        let (model_kind, chunky) = match kind { 0 => (0, false), 1 => (0, true), 2 => (1, false), 3 => (1, true), 4 => (2, false), 5 => (2, true), 11 => (0, gc(6, 0) != 0), 12 => (2, gc(6, 0) != 0), 10 => (0, false), 6 => (3, false), _ => return };
        if (preset.is_none() && data.len() > 200) || obs.len() > 80 { return; }
        // non-default page alignment changes the capacity, the other constructors are not modelled
        if preset.is_none() && (cfg.get(10).copied().unwrap_or(0) > 1 || cfg.get(11).copied().unwrap_or(0) != 0) { return; }
        let cap = gc(0, 8).max(1);
        let start = if kind == 3 { gc(7, 0).min(dl) } else { gc(7, 0) };
        let mut ints: Vec<i128> = match preset {
            Some((_, p)) => vec![p[0], p[1], p[2], p[3], p[4], p[5], 0, dl as i128],
            None => vec![cap as i128, gc(1, 0).max(cap) as i128, gc(2, 1) as i128, gc(3, 2) as i128, gc(4, 8192).max(1) as i128, gc(5, 0) as i128, start as i128, gc(8, dl) as i128],
        };
        let chunk = if chunky { gc(6, 1).max(1) as usize } else { 0 };
        let mut out: Vec<i128> = vec![];
        for ((name, n), o) in obs {
            // a run of reads is one entry in the history but many operations; the widened constructors and options are not modelled
            if name == "reads" { return; }
            if *o == Out::Unsupported { continue; }
            // observers the model does not know leave the state alone: left out of the comparison
            if matches!(name.as_str(), "utf8" | "crc" | "vcrc" | "usage" | "rinfo" | "inner_pos") { continue; }
            // any other unmodelled operation (vectored read, set_total_size) changes the state: the history is oracle-only
            let code = match op_code(name) { Some(c) => c, None => return };
            ints.push(code);
            ints.push(*n as i128);
            match o {
                Out::Bytes(b) | Out::Peek(b) => { out.push(b.len() as i128); out.extend(b.iter().map(|&x| x as i128)); }
                Out::Nothing => out.push(-1),
                Out::Avail(k) => out.push(*k as i128),
                Out::Skipped => out.push(-2),
                Out::Pos(q) => out.push(*q as i128),
                Out::Err(_) => out.push(-3),
                Out::Unsupported | Out::Flag(..) | Out::Crc(..) | Out::Info(..) => {}
            }
        }
        if preset.is_some() { *self.uni_used.entry(preset_cell).or_insert(0) += 1; self.sum.dist("coq_preset_reader_histories"); }
        self.coq2(30 + model_kind, chunk, &ints, data, &Some(out), force);
        let _ = json!(null);
    }
    /// A writer history (StreamBufferedWriter op 50 / ZeroCopyWriter op 51): per operation the outcome and the destination
    /// length the implementation showed, then the destination after into_inner.
    pub fn coq_writer(&mut self, cell: &str, zc: bool, cap: i128, bulk: i128, chunk: i128, log: &[WLog], dest: &[u8]) {
        if log.iter().any(|l| l.code < 0) || log.len() > 60 { return; }
        if log.iter().map(|l| l.data.len()).sum::<usize>() > 6000 { return; }
        let used = self.uni_used.entry(cell.to_string()).or_insert(0);
        if *used >= 45 * self.coq_budget / 2400 { return; }
        *used += 1;
        let mut ints: Vec<i128> = vec![cap, bulk];
        let mut obs: Vec<i128> = vec![];
        for l in log {
            ints.extend([l.code, l.arg, l.data.len() as i128]);
            ints.extend(l.data.iter().map(|&b| b as i128));
            obs.extend([l.out, l.dest]);
        }
        obs.extend(dest.iter().map(|&b| b as i128));
        self.sum.dist("coq_writer_histories");
        self.coq2(if zc { 51 } else { 50 }, chunk as usize, &ints, &[], &Some(obs), true);
    }
    /// A RangeWriter history (op 52): the outcome of every write / flush / seek, then the destination afterwards
    /// (the model replays the inner writes it derives on a cursor over the original destination).
    pub fn coq_range_writer(&mut self, cell: &str, start: u64, end: u64, orig: &[u8], log: &[WLog], out: &[u8]) {
        if log.iter().any(|l| l.code < 0) || log.len() > 60 || orig.len() > 3000 || out.len() > 3000 { return; }
        if log.iter().map(|l| l.data.len()).sum::<usize>() > 6000 { return; }
        let used = self.uni_used.entry(cell.to_string()).or_insert(0);
        if *used >= 45 * self.coq_budget / 2400 { return; }
        *used += 1;
        let mut ints: Vec<i128> = vec![start as i128, end as i128];
        let mut obs: Vec<i128> = vec![];
        for l in log {
            ints.extend([l.code, l.arg, l.data.len() as i128]);
            ints.extend(l.data.iter().map(|&b| b as i128));
            obs.push(l.out);
        }
        obs.extend(out.iter().map(|&b| b as i128));
        self.sum.dist("coq_range_writer_histories");
        self.coq2(52, 0, &ints, orig, &Some(obs), true);
    }
}
