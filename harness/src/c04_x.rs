//! C04 oracle breadth: secondary public entry points of the anchor files, non-default options / presets, internal
//! thresholds, extended BitVector histories.  Everything here is judged by the same dumb shadow as c04.rs (prefix counts
//! of a Vec<bool>); none of these operations is known to the Coq model, so the cells are oracle-only ("S-only") and the
//! histories that contain them are not emitted as Coq cases.
use super::*;
use zipora::succinct::rank_select::bmi2_acceleration as ba;
use zipora::succinct::rank_select::bmi2_comprehensive as bc;
use zipora::succinct::BitwiseOp;

// ------------------------------------------------------------------------------------------------------------
// helpers

pub fn words_of(bits: &[bool]) -> Vec<u64> {
    let mut w = vec![0u64; (bits.len() + 63) / 64];
    for (i, &b) in bits.iter().enumerate() { if b { w[i / 64] |= 1u64 << (i % 64); } }
    w
}

fn bytes_of(bits: &[bool]) -> Vec<u8> {
    let mut w = vec![0u8; (bits.len() + 7) / 8];
    for (i, &b) in bits.iter().enumerate() { if b { w[i / 8] |= 1u8 << (i % 8); } }
    w
}

/// Bit strings described by (kind, n, seed): big inputs are never spelled out in a case.
pub const KINDS: [&str; 10] = ["zeros", "ones", "half", "sparse", "dense", "runs", "alt", "single_last", "blocks", "sparse_words"];
pub fn gen_kind(kind: &str, n: usize, seed: u64) -> Vec<bool> {
    let mut r = Rng::new(seed ^ 0x9e37_79b9_7f4a_7c15);
    match kind {
        "zeros" => vec![false; n],
        "ones" => vec![true; n],
        "half" => (0..n).map(|_| r.chance(1, 2)).collect(),
        "sparse" => (0..n).map(|_| r.chance(1, 1000)).collect(),
        "dense" => (0..n).map(|_| r.chance(999, 1000)).collect(),
        "alt" => (0..n).map(|i| i % 2 == 1).collect(),
        "single_last" => { let mut v = vec![false; n]; if n > 0 { v[n - 1] = true; } v }
        // whole 64-bit words alternately full / empty in irregular groups: runs of empty words between populated ones
        "blocks" => { let mut v = Vec::with_capacity(n); let mut b = r.chance(1, 2);
                      while v.len() < n { let k = 64 * (1 + r.below(5) as usize); for _ in 0..k { if v.len() < n { v.push(b); } } b = !b; } v }
        // one set bit per populated word, populated words separated by 0..6 empty words
        "sparse_words" => { let mut v = vec![false; n]; let mut w = 0usize;
                            while w * 64 < n { let p = w * 64 + *r.pick(&[0usize, 1, 31, 62, 63]); if p < n { v[p] = true; } w += 1 + r.below(7) as usize; } v }
        _ => { let mut v = Vec::with_capacity(n); let mut b = r.chance(1, 2);
               while v.len() < n { let l = *r.pick(&[1usize, 7, 64, 200, 256, 300, 512, 700]); for _ in 0..l { if v.len() < n { v.push(b); } } b = !b; } v }
    }
}

fn run_cell(cx: &mut Ctx, name: &str, key: &str, nontrivial: bool, cj: &Value, f: impl FnOnce() -> Result<Vec<String>, String>) {
    cx.sum.eval(name, key, nontrivial);
    cx.sum.cell_status(name, "S-only");
    match guarded(f) {
        Err(p) => cx.sum.fail(name, None, cj.clone(), &format!("panicked: {}", p)),
        Ok(Err(e)) => cx.sum.fail(name, None, cj.clone(), &format!("construction refused: {}", e)),
        Ok(Ok(bad)) => if !bad.is_empty() { cx.sum.fail(name, None, cj.clone(), &bad.iter().take(4).cloned().collect::<Vec<_>>().join("; ")); }
    }
}

fn tag(t: &str, v: Vec<String>) -> Vec<String> { v.into_iter().take(2).map(|e| format!("{}: {}", t, e)).collect() }
fn es<E: std::fmt::Debug>(e: E) -> String { format!("{:?}", e) }

/// A cheaper check than check_ops: the given positions / indices only.
fn check_sample(rs: &dyn RankSelectOps, o: &Oracle, ps: &[usize], ks1: &[usize], ks0: &[usize], has_select0: bool) -> Vec<String> {
    let mut bad = vec![];
    let n = o.bits.len();
    macro_rules! chk { ($cond:expr, $($arg:tt)*) => { if !$cond && bad.len() < 4 { bad.push(format!($($arg)*)); } } }
    chk!(rs.len() == n, "len {} want {}", rs.len(), n);
    chk!(rs.is_empty() == (n == 0), "is_empty");
    chk!(rs.count_ones() == o.ones.len(), "count_ones {} want {}", rs.count_ones(), o.ones.len());
    chk!(rs.count_zeros() == o.zeros.len(), "count_zeros {} want {}", rs.count_zeros(), o.zeros.len());
    for &p in ps {
        if p > n { continue; }
        let r1 = rs.rank1(p);
        chk!(r1 == o.pre[p], "rank1({}) = {} want {}", p, r1, o.pre[p]);
        let r0 = rs.rank0(p);
        chk!(r0 == p - o.pre[p], "rank0({}) = {} want {}", p, r0, p - o.pre[p]);
        if p < n { chk!(rs.get(p) == Some(o.bits[p]), "get({}) = {:?}", p, rs.get(p)); }
    }
    chk!(rs.get(n).is_none(), "get(len) not refused");
    for &k in ks1 {
        if k < o.ones.len() { let g = rs.select1(k).ok(); chk!(g == Some(o.ones[k]), "select1({}) = {:?} want {}", k, g, o.ones[k]); }
        else { chk!(rs.select1(k).is_err(), "select1({}) not refused ({} ones)", k, o.ones.len()); }
    }
    if has_select0 { for &k in ks0 {
        if k < o.zeros.len() { let g = rs.select0(k).ok(); chk!(g == Some(o.zeros[k]), "select0({}) = {:?} want {}", k, g, o.zeros[k]); }
        else { chk!(rs.select0(k).is_err(), "select0({}) not refused ({} zeros)", k, o.zeros.len()); }
    } }
    bad
}

fn sample_ks(m: usize, ps: &[usize], lim: usize) -> Vec<usize> {
    let mut v = vec![0usize, 1, m / 2, m.saturating_sub(1), m, m + 1];
    for b in [255usize, 256, 257, 511, 512, 513, 1023, 1024, 1025] { v.push(b); }
    if m > 0 { for (i, &p) in ps.iter().enumerate() { if v.len() >= lim { break; } if i % 3 == 0 { v.push(p % m); } } }
    v.sort(); v.dedup(); v
}

// ------------------------------------------------------------------------------------------------------------
// extra cells of the RS family (one bit string + one way of building the BitVector)

pub fn extra_cells(cx: &mut Ctx, bits: &[bool], mode: u32, o: &Oracle, ps: &[usize], cj: &Value, key: &str, nontrivial: bool) {
    let n = bits.len();
    let words = words_of(bits);
    let (no, nz) = (o.ones.len(), o.zeros.len());
    // the thorough tier asks the primary cells at every position of its 65536-bit vectors; the secondary entry points get
    // the boundary + random sample there
    let thin: Vec<usize>;
    let ps: &[usize] = if ps.len() > 3000 {
        let all_p = positions(n, false, &mut Rng::new(n as u64 + no as u64)); let l = all_p.len();
        thin = all_p.into_iter().enumerate().filter(|(i, _)| i % 3 == 0 || *i < 20 || *i + 20 >= l).map(|(_, p)| p).collect(); &thin } else { ps };
    // which of the rotating variants this vector gets (small vectors get all of them)
    let all = n <= 700;
    let rot = (n + mode as usize + no) % 4;
    let ks1 = sample_ks(no, ps, 60);
    let ks0 = sample_ks(nz, ps, 60);

    // ---- interleaved-256 through its other constructors, Clone, Default, raw-word export, prefetch calls
    run_cell(cx, "interleaved256/entry", key, nontrivial, cj, || {
        use zipora::succinct::rank_select::RankSelectBuilder as B;
        type IL = RankSelectInterleaved256;
        let mut bad: Vec<String> = vec![];
        let a = <IL as B<IL>>::from_bit_vector(make_bv(bits, mode)).map_err(es)?;
        bad.extend(tag("from_bit_vector", check_ops(&a, o, ps, true)));
        if all || rot == 0 {
            let b = <IL as B<IL>>::from_iter(bits.iter().cloned()).map_err(es)?;
            bad.extend(tag("from_iter", check_ops(&b, o, ps, true)));
        }
        if all || rot == 1 {
            let by = bytes_of(bits);
            let c = <IL as B<IL>>::from_bytes(&by, n).map_err(es)?;
            bad.extend(tag("from_bytes", check_ops(&c, o, ps, true)));
            // surplus input: set bits after bit_len in the last byte and whole extra bytes must be ignored
            let mut by2 = by.clone();
            if n % 8 != 0 { let l = by2.len() - 1; by2[l] |= !((1u8 << (n % 8)) - 1); }
            by2.extend_from_slice(&[0xFF, 0xA5, 0xFF]);
            let c2 = <IL as B<IL>>::from_bytes(&by2, n).map_err(es)?;
            bad.extend(tag("from_bytes(+surplus)", check_ops(&c2, o, ps, true)));
        }
        if all || rot == 2 {
            let presets = [
                BuilderOptions { optimize_select: false, ..BuilderOptions::default() },
                BuilderOptions { select_sample_rate: 1, ..BuilderOptions::default() },
                BuilderOptions { optimize_select: true, block_size: 1024, select_sample_rate: 1024, enable_simd: false, prefer_space: true },
                BuilderOptions { optimize_select: false, block_size: 512, select_sample_rate: 7, enable_simd: false, prefer_space: true },
                BuilderOptions::default(),
            ];
            for (i, opt) in presets.iter().enumerate() {
                if !all && i != (n / 4) % presets.len() { continue; }
                let d = <IL as B<IL>>::with_optimizations(make_bv(bits, mode), opt.clone()).map_err(es)?;
                bad.extend(tag(&format!("with_optimizations({:?})", opt), check_ops(&d, o, ps, true)));
            }
        }
        if all || rot == 3 {
            let e = a.clone();
            let e2 = RankSelectInterleaved256::with_options(make_bv(bits, mode), false, 64).map_err(es)?.clone();
            bad.extend(tag("clone", check_ops(&e, o, ps, true)));
            bad.extend(tag("clone(nocache)", check_ops(&e2, o, ps, true)));
        }
        if n == 0 {
            let d = RankSelectInterleaved256::default();
            bad.extend(tag("default()", check_ops(&d, o, ps, true)));
        }
        // raw words: ceil(n/64) of them, bit i of the sequence is bit i%64 of word i/64
        let gd = a.get_bit_data();
        if gd.len() != words.len() { bad.push(format!("get_bit_data: {} words want {}", gd.len(), words.len())); }
        else { for i in 0..n { if (gd[i / 64] >> (i % 64)) & 1 != bits[i] as u64 { bad.push(format!("get_bit_data: bit {}", i)); break; } } }
        // the prefetch helpers are documented as safe for any argument; answers afterwards are unchanged
        let mut strat = zipora::memory::PrefetchStrategy::new(zipora::memory::PrefetchConfig::default());
        for p in [0usize, n.saturating_sub(1), n, n + 1, n + 256, n + 100_000, usize::MAX / 2] {
            a.prefetch_rank1(p);
        }
        for k in [0usize, no.saturating_sub(1), no, no + 512, usize::MAX / 2] { a.prefetch_select1(k); }
        for (b, c) in [(0usize, 1usize), (n, 1), (n / 2, 3), (0, n / 256 + 2), (n + 300, 2), (0, 0), (n.saturating_sub(1), 1)] {
            unsafe { a.prefetch_ahead(b, c, &mut strat); }
        }
        bad.extend(tag("after prefetch", check_sample(&a, o, ps, &ks1, &ks0, true)));
        Ok(bad)
    });

    // ---- SE256 / SE512: the two mixed option settings, accessors, aliases
    run_cell(cx, "se/options", key, nontrivial, cj, || {
        let mut bad: Vec<String> = vec![];
        for (s0, s1) in [(true, false), (false, true)] {
            if !all && ((s0 as usize) + n) % 2 == 0 { continue; }
            let a = RankSelectSE256::with_options(make_bv(bits, mode), s0, s1).map_err(es)?;
            bad.extend(tag(&format!("SE256({},{})", s0, s1), check_ops(&a, o, ps, true)));
            let b = RankSelectSE512::with_options(make_bv(bits, mode), s0, s1).map_err(es)?;
            bad.extend(tag(&format!("SE512({},{})", s0, s1), check_ops(&b, o, ps, true)));
        }
        let a = RankSelectSE256::new(make_bv(bits, mode)).map_err(es)?;
        if a.max_rank1() != no || a.max_rank0() != nz { bad.push(format!("SE256 max_rank1/0 = {}/{} want {}/{}", a.max_rank1(), a.max_rank0(), no, nz)); }
        for p in [0usize, n, n + 1, n + 257, usize::MAX / 2] { a.prefetch_rank1(p); }
        bad.extend(tag("SE256 after prefetch", check_sample(&a, o, ps, &ks1, &ks0, true)));
        let b = RankSelectSE512_32::new(make_bv(bits, mode)).map_err(es)?;
        if b.max_rank1() != no || b.max_rank0() != nz { bad.push(format!("SE512 max_rank1/0 = {}/{} want {}/{}", b.max_rank1(), b.max_rank0(), no, nz)); }
        let c = RankSelectSE512_64::with_options(make_bv(bits, mode), true, true).map_err(es)?;
        bad.extend(tag("SE512_64", check_sample(&c, o, ps, &ks1, &ks0, true)));
        let s = RankSelectSimple::new(make_bv(bits, mode)).map_err(es)?;
        if s.max_rank1() != no || s.max_rank0() != nz { bad.push(format!("Simple max_rank1/0 = {}/{}", s.max_rank1(), s.max_rank0())); }
        Ok(bad)
    });

    // ---- RankSelectSimple::from_words
    run_cell(cx, "simple/from_words", key, nontrivial, cj, || {
        let mut bad: Vec<String> = vec![];
        let a = RankSelectSimple::from_words(words.clone(), n).map_err(es)?;
        bad.extend(tag("from_words", check_ops(&a, o, ps, true)));
        // surplus: bits past `size` in the last word and extra words are not part of the sequence
        let mut w2 = words.clone();
        if n % 64 != 0 { let l = w2.len() - 1; w2[l] |= !((1u64 << (n % 64)) - 1); }
        w2.push(u64::MAX); w2.push(0x5555_5555_5555_5555);
        let b = RankSelectSimple::from_words(w2, n).map_err(es)?;
        bad.extend(tag("from_words(+surplus)", check_ops(&b, o, ps, true)));
        // missing words read as zeros
        if words.len() >= 2 {
            let cut = words.len() / 2;
            let mut bits2 = bits.to_vec(); for i in cut * 64..n { bits2[i] = false; }
            let o2 = Oracle::new(&bits2);
            let c = RankSelectSimple::from_words(words[..cut].to_vec(), n).map_err(es)?;
            bad.extend(tag("from_words(short)", check_sample(&c, &o2, ps, &sample_ks(o2.ones.len(), ps, 40), &sample_ks(o2.zeros.len(), ps, 40), true)));
        }
        Ok(bad)
    });

    // ---- FewOne / FewZero from explicit position lists
    run_cell(cx, "few/new", key, nontrivial, cj, || {
        let mut bad: Vec<String> = vec![];
        let p1: Vec<u32> = o.ones.iter().map(|&x| x as u32).collect();
        let p0: Vec<u32> = o.zeros.iter().map(|&x| x as u32).collect();
        let a = RankSelectFewOne::new(p1.clone(), n).map_err(es)?;
        bad.extend(tag("FewOne::new", check_ops(&a, o, ps, true)));
        if a.num_ones() != no || a.num_zeros() != nz { bad.push(format!("FewOne num_ones/num_zeros = {}/{}", a.num_ones(), a.num_zeros())); }
        let b = RankSelectFewZero::new(p0.clone(), n).map_err(es)?;
        bad.extend(tag("FewZero::new", check_ops(&b, o, ps, true)));
        if b.num_ones() != no || b.num_zeros() != nz { bad.push(format!("FewZero num_ones/num_zeros = {}/{}", b.num_ones(), b.num_zeros())); }
        // lists that describe no bit sequence of this length must be refused
        let mut inv: Vec<(String, Vec<u32>)> = vec![("position = size".into(), { let mut v = p1.clone(); v.push(n as u32); v })];
        if p1.len() >= 2 { let mut v = p1.clone(); let l = v.len(); v.swap(l - 1, l - 2); inv.push(("unsorted".into(), v));
                           let mut v = p1.clone(); v[1] = v[0]; inv.push(("duplicate".into(), v)); }
        for (what, v) in inv {
            if RankSelectFewOne::new(v.clone(), n).is_ok() { bad.push(format!("FewOne::new accepted a list with {}", what)); }
            if RankSelectFewZero::new(v, n).is_ok() { bad.push(format!("FewZero::new accepted a list with {}", what)); }
        }
        Ok(bad)
    });

    // ---- mixed IL256: the per-dimension functions called directly
    run_cell(cx, "mixed/direct", key, nontrivial, cj, || {
        let mut bad: Vec<String> = vec![];
        let olen = [0usize, n / 2 + 3, n, n + 1, n + 300][(n + mode as usize) % 5];
        let other: Vec<bool> = (0..olen).map(|i| (i * 7 + n) % 5 < 2).collect();
        let oo = Oracle::new(&other);
        for flip in [false, true] {
            let m = if !flip { RankSelectMixedIL256::new(make_bv(bits, mode), make_bv(&other, 0)) } else { RankSelectMixedIL256::new(make_bv(&other, 0), make_bv(bits, mode)) }.map_err(es)?;
            for (d, od) in [(flip as usize, o), (1 - flip as usize, &oo)] {
                let nd = od.bits.len();
                if m.size_dim(d) != nd { bad.push(format!("size_dim({}) = {} want {}", d, m.size_dim(d), nd)); }
                if m.max_rank1_dim(d) != od.ones.len() { bad.push(format!("max_rank1_dim({}) = {} want {}", d, m.max_rank1_dim(d), od.ones.len())); }
                let pd: Vec<usize> = if std::ptr::eq(od, o) { ps.to_vec() } else { positions(nd, false, &mut Rng::new(11)) };
                for &p in &pd {
                    if p > nd { continue; }
                    if m.rank1_dim(d, p) != od.pre[p] && bad.len() < 4 { bad.push(format!("rank1_dim({}, {}) = {} want {}", d, p, m.rank1_dim(d, p), od.pre[p])); }
                    if m.rank0_dim(d, p) != p - od.pre[p] && bad.len() < 4 { bad.push(format!("rank0_dim({}, {})", d, p)); }
                    if p < nd && m.get_dim(d, p) != Some(od.bits[p]) && bad.len() < 4 { bad.push(format!("get_dim({}, {})", d, p)); }
                }
                if m.get_dim(d, nd).is_some() { bad.push(format!("get_dim({}, len) not refused", d)); }
                for &k in &sample_ks(od.ones.len(), &pd, 80) {
                    let g = m.select1_dim(d, k).ok();
                    let want = od.ones.get(k).cloned();
                    if g != want && bad.len() < 4 { bad.push(format!("select1_dim({}, {}) = {:?} want {:?}", d, k, g, want)); }
                }
            }
        }
        Ok(bad)
    });

    // ---- trivial structures: the helper predicates
    if no == 0 || nz == 0 {
        run_cell(cx, "trivial/extras", key, nontrivial, cj, || {
            let mut bad: Vec<String> = vec![];
            if no == 0 {
                let z = RankSelectAllZero::new(n);
                if z.max_rank0() != n || z.max_rank1() != 0 { bad.push("AllZero max_rank".into()); }
                for i in 0..n.min(700) { if !(z.is0(i) && !z.is1(i) && z.zero_seq_len(i) == n - i && z.one_seq_len(i) == 0) && bad.len() < 3 { bad.push(format!("AllZero is0/is1/seq_len at {}", i)); } }
            }
            if nz == 0 {
                let z = RankSelectAllOne::new(n);
                if z.max_rank1() != n || z.max_rank0() != 0 { bad.push("AllOne max_rank".into()); }
                for i in 0..n.min(700) { if !(z.is1(i) && !z.is0(i) && z.one_seq_len(i) == n - i && z.zero_seq_len(i) == 0) && bad.len() < 3 { bad.push(format!("AllOne is0/is1/seq_len at {}", i)); } }
            }
            Ok(bad)
        });
    }

    // ---- AdaptiveRankSelect with non-default selection criteria
    run_cell(cx, "adaptive/criteria", key, nontrivial, cj, || {
        let mut bad: Vec<String> = vec![];
        let d = SelectionCriteria::default;
        let crits: Vec<SelectionCriteria> = vec![
            SelectionCriteria { enable_select_cache: false, ..d() },
            SelectionCriteria { prefer_space: true, access_pattern: AccessPattern::SelectHeavy, ..d() },
            SelectionCriteria { enable_adaptive_thresholds: false, access_pattern: AccessPattern::RankHeavy, ..d() },
            SelectionCriteria { sparse_threshold: 1.0, dense_threshold: 0.0, access_pattern: AccessPattern::Sequential, ..d() },
            SelectionCriteria { sparse_threshold: 0.0, dense_threshold: 1.0, access_pattern: AccessPattern::Random, min_hardware_tier: 4, ..d() },
            SelectionCriteria { small_dataset_threshold: 0, large_dataset_threshold: 1, very_large_dataset_threshold: 2, pattern_complexity_weight: 1.0, clustering_weight: 1.0, ..d() },
            SelectionCriteria { pattern_complexity_weight: 0.0, clustering_weight: 0.0, prefer_space: true, enable_select_cache: false, ..d() },
        ];
        for (i, c) in crits.into_iter().enumerate() {
            if !all && i != (n + mode as usize) % 7 { continue; }
            let a = AdaptiveRankSelect::with_criteria(make_bv(bits, mode), c).map_err(es)?;
            bad.extend(tag(&format!("criteria #{}", i), if all { check_ops(&a, o, ps, true) } else { check_sample(&a, o, ps, &ks1, &ks0, true) }));
            let pr = a.data_profile();
            if pr.total_bits != n || pr.ones_count != no { bad.push(format!("data_profile: total_bits {} ones_count {} want {} {}", pr.total_bits, pr.ones_count, n, no)); }
            let _ = a.selection_criteria();
        }
        Ok(bad)
    });

    // ---- MultiDimRankSelect with 1, 3 and 5 dimensions (5 takes the scalar path), a non-default BLOCK_SIZE, Clone,
    //      and the set operations that hand back a BitVector
    run_cell(cx, "multidim/dims", key, nontrivial, cj, || {
        let mut bad: Vec<String> = vec![];
        let neg: Vec<bool> = bits.iter().map(|b| !b).collect();
        let alt: Vec<bool> = bits.iter().enumerate().map(|(i, b)| *b ^ (i % 3 == 0)).collect();
        let zer = vec![false; n]; let one = vec![true; n];
        let b0 = bits.to_vec();
        let dims: [&Vec<bool>; 5] = [&b0, &neg, &alt, &zer, &one];
        let os: Vec<Oracle> = dims.iter().map(|d| Oracle::new(d)).collect();
        let m1 = MultiDimRankSelect::<1>::new(vec![make_bv(bits, mode)]).map_err(es)?;
        let m3 = MultiDimRankSelect::<3>::new(vec![make_bv(bits, mode), make_bv(&neg, 0), make_bv(&alt, 0)]).map_err(es)?.clone();
        let m5 = MultiDimRankSelect::<5>::new(dims.iter().enumerate().map(|(i, d)| make_bv(d, if i == 0 { mode } else { 0 })).collect()).map_err(es)?;
        let m2b = MultiDimRankSelect::<2, 512>::new(vec![make_bv(&neg, 0), make_bv(bits, mode)]).map_err(es)?;
        if m1.total_bits() != n || m3.total_bits() != n || m5.total_bits() != n || m5.num_dimensions() != 5 { bad.push("total_bits / num_dimensions".into()); }
        for (i, &p) in ps.iter().enumerate() {
            let q = ps[(i * 5 + 1) % ps.len()]; let r = ps[(i * 11 + 2) % ps.len()];
            if m1.bulk_rank_multidim(&[p]) != [o.pre[p]] && bad.len() < 4 { bad.push(format!("<1> bulk_rank_multidim([{}])", p)); }
            let g3 = m3.bulk_rank_multidim(&[p, q, r]);
            if g3 != [os[0].pre[p], os[1].pre[q], os[2].pre[r]] && bad.len() < 4 { bad.push(format!("<3> bulk_rank_multidim([{}, {}, {}]) = {:?}", p, q, r, g3)); }
            let g5 = m5.bulk_rank_multidim(&[p, q, r, q, p]);
            if g5 != [os[0].pre[p], os[1].pre[q], os[2].pre[r], 0, p] && bad.len() < 4 { bad.push(format!("<5> bulk_rank_multidim([{}, {}, {}, {}, {}]) = {:?}", p, q, r, q, p, g5)); }
            let g2 = m2b.bulk_rank_multidim(&[q, p]);
            if g2 != [os[1].pre[q], os[0].pre[p]] && bad.len() < 4 { bad.push(format!("<2,512> bulk_rank_multidim([{}, {}]) = {:?}", q, p, g2)); }
        }
        let n2 = os[2].ones.len();
        for &k in ks1.iter().take(40) {
            let g = m1.bulk_select_multidim(&[k]).ok();
            if g != o.ones.get(k).map(|&x| [x]) && bad.len() < 4 { bad.push(format!("<1> bulk_select_multidim([{}]) = {:?}", k, g)); }
            if nz > 0 && n2 > 0 && n > 0 {
                let (k1, k2, k4) = (k % nz, (k * 3) % n2, (k * 5) % n);
                let g = m3.bulk_select_multidim(&[k, k1, k2]).ok();
                let want = o.ones.get(k).map(|&x| [x, os[1].ones[k1], os[2].ones[k2]]);
                if g != want && bad.len() < 4 { bad.push(format!("<3> bulk_select_multidim([{}, {}, {}]) = {:?} want {:?}", k, k1, k2, g, want)); }
                let g = m5.bulk_select_multidim(&[k, k1, k2, 0, k4]).ok();
                if g.is_some() && bad.len() < 4 { bad.push("<5> bulk_select_multidim with an all-zero dimension not refused".into()); }
                let g = m2b.bulk_select_multidim(&[k1, k]).ok();
                let want = o.ones.get(k).map(|&x| [os[1].ones[k1], x]);
                if g != want && bad.len() < 4 { bad.push(format!("<2,512> bulk_select_multidim([{}, {}]) = {:?} want {:?}", k1, k, g, want)); }
            }
        }
        // wrong shapes are refused
        if MultiDimRankSelect::<3>::new(vec![make_bv(bits, mode), make_bv(&neg, 0)]).is_ok() { bad.push("<3>::new with two vectors not refused".into()); }
        if n >= 1 && MultiDimRankSelect::<2>::new(vec![make_bv(bits, mode), make_bv(&neg[..n - 1], 0)]).is_ok() { bad.push("<2>::new with unequal lengths not refused".into()); }
        if n >= 1 && AdaptiveMultiDimensional::new_dual(make_bv(bits, mode), make_bv(&neg[..n - 1], 0)).is_ok() { bad.push("AdaptiveMultiDimensional::new_dual with unequal lengths not refused".into()); }
        match AdaptiveMultiDimensional::new_dual(make_bv(&neg, 0), make_bv(bits, mode)) {
            Ok(a) => { if a.dimensions() != 2 { bad.push("new_dual: dimensions() != 2".into()); } bad.extend(tag("new_dual(neg, bits)", check_sample(&a, &os[1], ps, &sample_ks(os[1].ones.len(), ps, 30), &sample_ks(os[1].zeros.len(), ps, 30), true))); }
            Err(e) => bad.push(format!("new_dual refused: {:?}", e)) }
        // intersection / union as bit vectors: every bit, the length, and (through a whole-word-counting structure) the tail
        let chk_bv = |what: &str, got: zipora::Result<BitVector>, want: Vec<bool>, bad: &mut Vec<String>| {
            match got {
                Err(e) => bad.push(format!("{} refused: {:?}", what, e)),
                Ok(bv) => {
                    if bv.len() != want.len() { bad.push(format!("{}: len {} want {}", what, bv.len(), want.len())); return; }
                    for i in 0..want.len() { if bv.get(i) != Some(want[i]) { bad.push(format!("{}: bit {}", what, i)); return; } }
                    let ow = Oracle::new(&want);
                    if bv.count_ones() != ow.ones.len() { bad.push(format!("{}: count_ones", what)); }
                    match RankSelectSE256::new(bv) { Ok(s) => bad.extend(tag(&format!("SE256 of {}", what), check_sample(&s, &ow, ps, &sample_ks(ow.ones.len(), ps, 30), &sample_ks(ow.zeros.len(), ps, 30), true))),
                                                     Err(e) => bad.push(format!("SE256 of {} refused: {:?}", what, e)) }
                }
            }
        };
        let and = |a: &Vec<bool>, b: &Vec<bool>| -> Vec<bool> { a.iter().zip(b.iter()).map(|(x, y)| *x & *y).collect() };
        let or = |a: &Vec<bool>, b: &Vec<bool>| -> Vec<bool> { a.iter().zip(b.iter()).map(|(x, y)| *x | *y).collect() };
        chk_bv("intersect(0,2)", m3.intersect_dimensions(0, 2), and(dims[0], dims[2]), &mut bad);
        chk_bv("intersect(1,0)", m3.intersect_dimensions(1, 0), vec![false; n], &mut bad);
        chk_bv("intersect(2,2)", m3.intersect_dimensions(2, 2), dims[2].clone(), &mut bad);
        chk_bv("intersect(0,4) of <5>", m5.intersect_dimensions(0, 4), dims[0].clone(), &mut bad);
        chk_bv("union([0,1])", m3.union_dimensions(&[0, 1]), vec![true; n], &mut bad);
        chk_bv("union([2])", m3.union_dimensions(&[2]), dims[2].clone(), &mut bad);
        chk_bv("union([2,0,2])", m3.union_dimensions(&[2, 0, 2]), or(dims[0], dims[2]), &mut bad);
        chk_bv("union([3,0]) of <5>", m5.union_dimensions(&[3, 0]), dims[0].clone(), &mut bad);
        if m3.intersect_dimensions(0, 3).is_ok() || m3.intersect_dimensions(3, 0).is_ok() { bad.push("intersect_dimensions with dimension 3 of 3 not refused".into()); }
        if m3.union_dimensions(&[]).is_ok() || m3.union_dimensions(&[0, 3]).is_ok() { bad.push("union_dimensions([]) / ([0,3]) not refused".into()); }
        Ok(bad)
    });

    // ---- BitVector: the non-mutating extras and the other ways of making a vector
    run_cell(cx, "bitvector/entry", key, nontrivial, cj, || {
        let mut bad: Vec<String> = vec![];
        let bv = make_bv(bits, mode);
        if bv.count_zeros() != nz { bad.push(format!("count_zeros {} want {}", bv.count_zeros(), nz)); }
        if bv.is_empty() != (n == 0) { bad.push("is_empty".into()); }
        if bv.capacity() < bv.len() { bad.push("capacity < len".into()); }
        for &p in ps { if p < n && unsafe { bv.get_unchecked(p) } != bits[p] && bad.len() < 3 { bad.push(format!("get_unchecked({})", p)); } }
        // equality is about the bit sequence, not about how the vector was made
        let plain = make_bv(bits, 0);
        let c = bv.clone();
        if !(c == bv && bv == c) { bad.push("clone != original".into()); }
        for m2 in 0..6u32 { let b2 = make_bv(bits, m2); if !(b2 == bv && bv == b2) && bad.len() < 3 { bad.push(format!("vector built by mode {} != vector built by mode {}", m2, mode)); } }
        if n > 0 {
            for &i in &[0usize, n - 1, n / 2, (n / 64) * 64 % n, ((n - 1) / 64) * 64] {
                let mut f = bits.to_vec(); f[i] = !f[i];
                let fb = make_bv(&f, 0);
                if (fb == bv || bv == fb) && bad.len() < 3 { bad.push(format!("vectors differing in bit {} compare equal", i)); }
            }
            let shorter = make_bv(&bits[..n - 1], 0);
            if shorter == bv || bv == shorter { bad.push("vectors of different length compare equal".into()); }
        }
        let mut longer = bits.to_vec(); longer.push(false);
        if make_bv(&longer, 0) == bv { bad.push("vector == vector + one zero bit".into()); }
        // from_raw_bits: exact words, surplus bits / words (ignored), too few words (refused)
        let a = BitVector::from_raw_bits(words.clone(), n).map_err(es)?;
        if !(a == plain) { bad.push("from_raw_bits(words, n) != pushed vector".into()); }
        let mut w2 = words.clone();
        if n % 64 != 0 { let l = w2.len() - 1; w2[l] |= !((1u64 << (n % 64)) - 1); }
        w2.push(u64::MAX);
        let b = BitVector::from_raw_bits(w2, n).map_err(es)?;
        if !(b == plain) || b.len() != n || b.count_ones() != no { bad.push("from_raw_bits(words + surplus, n) != pushed vector".into()); }
        for (nm, v) in [("from_raw_bits", a), ("from_raw_bits(+surplus)", b)] {
            let s = RankSelectSE512::new(v.clone()).map_err(es)?;
            bad.extend(tag(&format!("SE512 of {}", nm), check_sample(&s, o, ps, &ks1, &ks0, true)));
            let s = RankSelectSimple::new(v).map_err(es)?;
            bad.extend(tag(&format!("Simple of {}", nm), check_sample(&s, o, ps, &ks1, &ks0, true)));
        }
        if !words.is_empty() && BitVector::from_raw_bits(words[..words.len() - 1].to_vec(), n).is_ok() { bad.push("from_raw_bits with too few words not refused".into()); }
        // with_capacity / Default + push
        for (nm, mut v) in [("with_capacity(n)", BitVector::with_capacity(n).map_err(es)?), ("with_capacity(0)", BitVector::with_capacity(0).map_err(es)?), ("default()", BitVector::default())] {
            if v.len() != 0 || v.count_ones() != 0 { bad.push(format!("{} is not empty", nm)); }
            for &x in bits { v.push(x).map_err(es)?; }
            if !(v == plain) { bad.push(format!("{} + push != new() + push", nm)); }
        }
        Ok(bad)
    });

    word_level_cells(cx, bits, o, ps, cj, key, nontrivial, &words, &ks1);
}

// ------------------------------------------------------------------------------------------------------------
// word-level and bulk entry points of bmi2_acceleration.rs / bmi2_comprehensive.rs / simd.rs (SimdOps trait)

struct RawWords(Vec<u64>);
impl SimdOps for RawWords { fn get_bit_data(&self) -> &[u64] { &self.0 } }

fn ref_select_word(w: u64, k: usize) -> Option<u32> { let mut c = 0; for i in 0..64 { if (w >> i) & 1 == 1 { if c == k { return Some(i); } c += 1; } } None }
fn ref_count_range(w: u64, start: u32, len: u32) -> u32 { (0..64u32).filter(|&i| i >= start && ((i - start) as u64) < len as u64 && (w >> i) & 1 == 1).count() as u32 }

fn word_level_cells(cx: &mut Ctx, bits: &[bool], o: &Oracle, ps: &[usize], cj: &Value, key: &str, nontrivial: bool, words: &[u64], ks1: &[usize]) {
    let n = bits.len();
    let no = o.ones.len();
    run_cell(cx, "bmi2/word_ops", key, nontrivial, cj, || {
        let mut bad: Vec<String> = vec![];
        macro_rules! chk { ($cond:expr, $($arg:tt)*) => { match guarded(|| $cond) {
            Ok(true) => {}
            Ok(false) => if bad.len() < 6 { bad.push(format!($($arg)*)); },
            Err(e) => { let m = format!("panicked ({}) while checking: {}", e, stringify!($cond)); let m: String = m.chars().take(260).collect(); if bad.len() < 6 && !bad.contains(&m) { bad.push(m); } } } } }
        let acc = ba::Bmi2Accelerator::new();
        let disp = ba::Bmi2Dispatcher::new();
        let mut ws: Vec<u64> = words.iter().take(24).cloned().collect();
        ws.extend(words.iter().rev().take(6).cloned());
        if n % 97 == 0 { ws.extend_from_slice(&[0, u64::MAX, 1, 1u64 << 63, 0x8000_0000_0000_0001, u64::MAX >> 1, u64::MAX << 1]); }
        for &w in &ws {
            let pc = w.count_ones();
            chk!(ba::Bmi2RankOps::popcount_u64(w) == pc, "popcount_u64({:#x})", w);
            chk!(disp.dispatch_popcount(w) == pc, "dispatch_popcount({:#x})", w);
            chk!(ba::Bmi2RankOps::trailing_zeros(w) == w.trailing_zeros() && ba::Bmi2RankOps::leading_zeros(w) == w.leading_zeros(), "trailing/leading_zeros({:#x})", w);
            chk!(bc::Bmi2BitOps::trailing_zeros_optimized(w) == w.trailing_zeros() && bc::Bmi2BitOps::leading_zeros_optimized(w) == w.leading_zeros(), "trailing/leading_zeros_optimized({:#x})", w);
            for p in (0..=64u32).chain([65u32, 100, 255, 256, 1000]) {
                let want = if p >= 64 { pc } else { (w & ((1u64 << p) - 1)).count_ones() };
                chk!(ba::Bmi2RankOps::popcount_trail(w, p) == want, "popcount_trail({:#x}, {}) = {} want {}", w, p, ba::Bmi2RankOps::popcount_trail(w, p), want);
                chk!(ba::Bmi2BzhiOps::popcount_bzhi_enhanced(w, p) == want, "popcount_bzhi_enhanced({:#x}, {}) = {} want {}", w, p, ba::Bmi2BzhiOps::popcount_bzhi_enhanced(w, p), want);
                chk!(acc.rank1(w, p) == want, "Bmi2Accelerator::rank1({:#x}, {})", w, p);
                chk!(bc::Bmi2BitOps::rank1_optimized(w, p as usize) == want as usize, "rank1_optimized({:#x}, {}) = {} want {}", w, p, bc::Bmi2BitOps::rank1_optimized(w, p as usize), want);
            }
            let ranges: Vec<(u32, u32)> = vec![(0, 0), (0, 1), (0, 64), (0, 65), (1, 63), (1, 64), (63, 1), (63, 2), (64, 1), (70, 3), (5, 200), (31, 2), (32, 32), (17, 40), (w.trailing_zeros().min(63), 1)];
            for &(s, l) in &ranges { chk!(ba::Bmi2RangeOps::count_ones_range(w, s, l) == ref_count_range(w, s, l), "count_ones_range({:#x}, {}, {}) = {} want {}", w, s, l, ba::Bmi2RangeOps::count_ones_range(w, s, l), ref_count_range(w, s, l)); }
            chk!(ba::Bmi2RangeOps::count_ones_multi_range(w, &ranges) == ranges.iter().map(|&(s, l)| ref_count_range(w, s, l)).collect::<Vec<_>>(), "count_ones_multi_range({:#x})", w);
            // 0-based in-word select; k = popcount and beyond is refused
            for k in 0..=(pc as usize + 1) {
                let want = ref_select_word(w, k);
                let k32 = k as u32;
                chk!(ba::Bmi2SelectOps::select1_u64(w, k32) == want, "select1_u64({:#x}, {}) = {:?} want {:?}", w, k, ba::Bmi2SelectOps::select1_u64(w, k32), want);
                chk!(ba::Bmi2SelectOps::select1_u64_enhanced(w, k32) == want, "select1_u64_enhanced({:#x}, {})", w, k);
                chk!(ba::Bmi2AdvancedPatterns::pdep_ctz_select(w, k32) == want, "pdep_ctz_select({:#x}, {})", w, k);
                chk!(acc.select1(w, k32) == want && acc.select1_enhanced(w, k32) == want, "Bmi2Accelerator::select1 / select1_enhanced({:#x}, {})", w, k);
                chk!(disp.dispatch_select(w, k32) == want, "dispatch_select({:#x}, {})", w, k);
                // 1-based variants: rank r = k + 1; r = 0 and r > popcount are refused
                let r = k + 1;
                chk!(bc::Bmi2BitOps::select1_ultra_fast(w, r) == want.map(|x| x as usize), "select1_ultra_fast({:#x}, {}) = {:?} want {:?}", w, r, bc::Bmi2BitOps::select1_ultra_fast(w, r), want);
                chk!(bc::Bmi2BitOps::select1_fallback(w, r) == want.map(|x| x as usize), "select1_fallback({:#x}, {}) = {:?} want {:?}", w, r, bc::Bmi2BitOps::select1_fallback(w, r), want);
            }
            chk!(bc::Bmi2BitOps::select1_ultra_fast(w, 0).is_none() && bc::Bmi2BitOps::select1_fallback(w, 0).is_none(), "1-based select with rank 0 not refused ({:#x})", w);
            let zc = (!w).count_ones() as usize;
            for k in 0..=(zc + 1) { chk!(ba::Bmi2SelectOps::select0_u64(w, k as u32) == ref_select_word(!w, k), "select0_u64({:#x}, {})", w, k); }
            let allk: Vec<u32> = (0..pc).rev().collect();
            let g = ba::Bmi2AdvancedPatterns::pdep_ctz_select_bulk(w, &allk).ok();
            if w != 0 { chk!(g == Some(allk.iter().map(|&k| ref_select_word(w, k as usize).unwrap()).collect::<Vec<_>>()), "pdep_ctz_select_bulk({:#x}, all indices descending) = {:?}", w, g); }
            chk!(ba::Bmi2AdvancedPatterns::pdep_ctz_select_bulk(w, &[0, pc]).is_err(), "pdep_ctz_select_bulk({:#x}, [0, popcount]) not refused", w);
        }
        Ok(bad)
    });

    run_cell(cx, "bmi2/bulk", key, nontrivial, cj, || {
        let mut bad: Vec<String> = vec![];
        macro_rules! chk { ($cond:expr, $($arg:tt)*) => { match guarded(|| $cond) {
            Ok(true) => {}
            Ok(false) => if bad.len() < 6 { bad.push(format!($($arg)*)); },
            Err(e) => { let m = format!("panicked ({}) while checking: {}", e, stringify!($cond)); let m: String = m.chars().take(260).collect(); if bad.len() < 6 && !bad.contains(&m) { bad.push(m); } } } } }
        let acc = ba::Bmi2Accelerator::new();
        let mut panics: Vec<String> = vec![];
        macro_rules! call { ($what:expr, $dflt:expr, $e:expr) => { match guarded(|| $e) { Ok(v) => v, Err(e) => { let m = format!("{} panicked: {}", $what, e); if !panics.contains(&m) { panics.push(m); } $dflt } } } }
        let pcs: Vec<u32> = words.iter().map(|w| w.count_ones()).collect();
        chk!(ba::Bmi2RankOps::popcount_bulk(words) == pcs, "popcount_bulk");
        #[cfg(target_arch = "x86_64")]
        chk!(ba::Bmi2BlockOps::process_blocks_simd(words) == words.iter().map(|w| (w.count_ones(), w.leading_zeros())).collect::<Vec<_>>(), "process_blocks_simd");
        // cache hints: any argument is allowed, nothing may be observable afterwards
        for wi in [0usize, words.len().saturating_sub(1), words.len(), words.len() + 9] {
            chk!({ ba::Bmi2PrefetchOps::prefetch_bit_data(words, wi); ba::Bmi2PrefetchOps::prefetch_sequential(words, wi, 64); ba::Bmi2PrefetchOps::prefetch_sequential(words, wi, 0);
                   ba::Bmi2PrefetchOps::prefetch_rank_cache(&pcs, wi); true }, "prefetch");
        }
        let an = bc::Bmi2SequenceOps::analyze_bit_patterns(words);
        chk!(an.total_words == words.len() && an.total_ones == no, "analyze_bit_patterns: total_words {} total_ones {} want {} {}", an.total_words, an.total_ones, words.len(), no);
        // positions: ascending as generated, then a shuffled batch with repeats and the end in the middle
        let psin: Vec<usize> = ps.iter().cloned().filter(|&p| p <= n).collect();
        let mut shuf: Vec<usize> = psin.iter().rev().step_by(2).cloned().collect();
        shuf.extend_from_slice(&[n, 0, n, n / 2, n]);
        for batch in [&psin, &shuf] {
            let want: Vec<usize> = batch.iter().map(|&p| o.pre[p]).collect();
            let first_diff = |g: &Vec<usize>| g.iter().zip(&want).position(|(a, b)| a != b).map(|i| (batch[i], g[i], want[i]));
            let g = call!("Bmi2BlockOps::rank_bulk", vec![], ba::Bmi2BlockOps::rank_bulk(words, batch));
            chk!(g == want, "Bmi2BlockOps::rank_bulk: (position, got, want) = {:?}", first_diff(&g));
            let g = call!("Bmi2Accelerator::rank_bulk", vec![], acc.rank_bulk(words, batch));
            chk!(g == want, "Bmi2Accelerator::rank_bulk: (position, got, want) = {:?}", first_diff(&g));
            let g = call!("bulk_rank1", vec![], bc::Bmi2BlockOps::bulk_rank1(words, batch));
            chk!(g == want, "bmi2_comprehensive bulk_rank1: (position, got, want) = {:?}", first_diff(&g));
            let g = call!("SimdOps::rank1_bulk_simd", vec![], RawWords(words.to_vec()).rank1_bulk_simd(batch));
            chk!(g == want, "SimdOps::rank1_bulk_simd: (position, got, want) = {:?}", first_diff(&g));
        }
        // select indices: every one when there are few, a sample otherwise; descending + repeats as a second batch
        let ks: Vec<usize> = if no <= 1400 { (0..no).collect() } else { ks1.iter().cloned().filter(|&k| k < no).collect() };
        let mut ks_b: Vec<usize> = ks.iter().rev().cloned().collect();
        if no > 0 { ks_b.extend_from_slice(&[0, no - 1, 0, no / 2]); }
        for batch in [&ks, &ks_b] {
            if batch.is_empty() { continue; }
            let want: Vec<usize> = batch.iter().map(|&k| o.ones[k]).collect();
            let show = |g: &Option<Vec<usize>>| match g { None => "refused".to_string(),
                Some(v) => if v.len() != want.len() { format!("{} answers for {} indices", v.len(), want.len()) } else { format!("(index, got, want) = {:?}", v.iter().zip(&want).position(|(a, b)| a != b).map(|i| (batch[i], v[i], want[i]))) } };
            let g = call!("Bmi2BlockOps::select_bulk", None, ba::Bmi2BlockOps::select_bulk(words, batch).ok());
            chk!(g.as_ref() == Some(&want), "Bmi2BlockOps::select_bulk: {}", show(&g));
            let g = call!("Bmi2Accelerator::select_bulk", None, acc.select_bulk(words, batch).ok());
            chk!(g.as_ref() == Some(&want), "Bmi2Accelerator::select_bulk: {}", show(&g));
            let g = call!("Bmi2SelectOps::select1_bulk", None, ba::Bmi2SelectOps::select1_bulk(words, &batch.iter().map(|&k| k as u32).collect::<Vec<_>>()).ok().map(|v| v.into_iter().map(|x| x as usize).collect::<Vec<_>>()));
            chk!(g.as_ref() == Some(&want), "Bmi2SelectOps::select1_bulk: {}", show(&g));
            let g = call!("bulk_select1", None, bc::Bmi2BlockOps::bulk_select1(words, &batch.iter().map(|&k| k + 1).collect::<Vec<_>>()).ok());
            chk!(g.as_ref() == Some(&want), "bmi2_comprehensive bulk_select1 (1-based): {}", show(&g));
            let g = call!("SimdOps::select1_bulk_simd", None, RawWords(words.to_vec()).select1_bulk_simd(batch).ok());
            chk!(g.as_ref() == Some(&want), "SimdOps::select1_bulk_simd: {}", show(&g));
        }
        // an index equal to the number of ones is refused, wherever it stands in the batch
        for batch in [vec![no], vec![0, no], vec![no, 0]] {
            if batch.contains(&0) && no == 0 { continue; }
            chk!(ba::Bmi2BlockOps::select_bulk(words, &batch).is_err(), "Bmi2BlockOps::select_bulk({:?}) not refused ({} ones)", batch, no);
            chk!(ba::Bmi2SelectOps::select1_bulk(words, &batch.iter().map(|&k| k as u32).collect::<Vec<_>>()).is_err(), "Bmi2SelectOps::select1_bulk({:?}) not refused", batch);
            chk!(bc::Bmi2BlockOps::bulk_select1(words, &batch.iter().map(|&k| k + 1).collect::<Vec<_>>()).is_err(), "bulk_select1({:?} + 1) not refused", batch);
            chk!(RawWords(words.to_vec()).select1_bulk_simd(&batch).is_err(), "SimdOps::select1_bulk_simd({:?}) not refused", batch);
        }
        chk!(bc::Bmi2BlockOps::bulk_select1(words, &[0]).is_err(), "bulk_select1([0]) (ranks are 1-based) not refused");
        // hybrid select: rank_cache[b] = ones in 256-bit blocks 0..=b, a one-entry select cache (start of the search = block 0);
        // up to 32 blocks are scanned, more are bisected
        if no > 0 {
            let nblk = (words.len() + 3) / 4;
            let mut rc: Vec<u32> = vec![]; let mut c = 0u32;
            for b in 0..nblk { for j in 0..4 { if let Some(w) = words.get(b * 4 + j) { c += w.count_ones(); } } rc.push(c); }
            for &k in ks.iter().step_by(1 + ks.len() / 300) {
                let g = call!("select1_hybrid_cache", None, ba::Bmi2SelectOps::select1_hybrid_cache(&rc, &[0], words, k as u32, no + 1).ok());
                chk!(g == Some(o.ones[k] as u32), "select1_hybrid_cache(k = {}) over {} blocks = {:?} want {}", k, nblk, g, o.ones[k]);
            }
        }
        // run lengths at a position of the word array (the sequence padded with zeros to whole words)
        let total = words.len() * 64;
        let bit = |i: usize| -> bool { i < n && bits[i] };
        let mut qs: Vec<usize> = psin.iter().cloned().step_by(1 + psin.len() / 160).collect();
        for &p in o.ones.iter().take(3).chain(o.ones.iter().rev().take(3)) { qs.push(p); qs.push(p + 1); }
        for b in (64..=total).step_by(64).take(40) { qs.push(b - 1); qs.push(b); }
        qs.push(total); qs.push(total + 5);
        for &p in &qs {
            let (mut l1, mut l0, mut lr) = (0usize, 0usize, 0usize);
            if p < total { while p + l1 < total && bit(p + l1) { l1 += 1; } while p + l0 < total && !bit(p + l0) { l0 += 1; } }
            if p >= 1 && p <= total { while lr < p && bit(p - 1 - lr) { lr += 1; } }
            chk!(ba::Bmi2SequenceOps::one_seq_len(words, p) == l1, "one_seq_len({}) = {} want {}", p, ba::Bmi2SequenceOps::one_seq_len(words, p), l1);
            chk!(ba::Bmi2SequenceOps::zero_seq_len(words, p) == l0, "zero_seq_len({}) = {} want {}", p, ba::Bmi2SequenceOps::zero_seq_len(words, p), l0);
            match guarded(|| ba::Bmi2SequenceOps::one_seq_revlen(words, p)) {
                Ok(g) => chk!(g == lr, "one_seq_revlen({}) = {} want {}", p, g, lr),
                Err(e) => chk!(false, "one_seq_revlen({}) panicked: {} (want {})", p, e, lr),
            }
        }
        bad.extend(panics.into_iter().take(3));
        Ok(bad)
    });
}

// ------------------------------------------------------------------------------------------------------------
// extended BitVector histories: the operations of c04.rs (codes 0..=12) mixed with the ones the Coq model does not
// know.  Oracle only (cell `bitvector/xhistory`), against a Vec<bool>; then the final vector and the structures built
// from it (they count whole storage words, so anything an operation leaves behind past the end shows up there).
//   13 reserve(a)                      14 get_mut(a): read (get and deref)       15 get_mut(a).set(v)
//   16 set_range_simd(a, b, v)         17 bulk_bitwise_op_simd(other, op, a, b): other = gen_kind(KINDS[d/3 % 10], e, d), op = d % 3
//   18 bv = bv.clone()                 19 bv == vector rebuilt from the shadow (both directions)
//   20 bv == rebuilt vector with bit a flipped / one bit longer (must be unequal)
//   21 count_zeros   22 is_empty       23 get_unchecked(a) (only when a < len)    24 set_unchecked(a, v) (only when a < len)
//   25 bv = from_raw_bits(bv.blocks(), bv.len())                                  26 SE256 / Simple built from a clone: count_ones
//   27 capacity() >= len()
#[derive(Clone, Copy, Debug, PartialEq)]
pub struct XOp { pub c: u32, pub a: usize, pub b: usize, pub v: bool, pub d: usize, pub e: usize }

fn xop_json(o: &XOp) -> Value { json!([o.c, o.a, o.b, o.v as u8, o.d, o.e]) }
fn xop_parse(v: &Value) -> XOp {
    let g = |i: usize| v[i].as_u64().unwrap_or(0) as usize;
    XOp { c: v[0].as_u64().unwrap_or(12) as u32, a: g(1), b: g(2), v: g(3) == 1, d: g(4), e: g(5) }
}

fn other_of(op: &XOp) -> Vec<bool> { gen_kind(KINDS[(op.d / 3) % KINDS.len()], op.e, op.d as u64) }

fn x_apply(bv: &mut BitVector, l: &[bool], op: &XOp) -> i128 {
    fn r(x: zipora::Result<()>) -> i128 { if x.is_ok() { 0 } else { -1 } }
    match op.c {
        0..=12 => bv_apply(bv, (op.c, op.a, op.v)),
        13 => r(bv.reserve(op.a)),
        14 => match bv.get_mut(op.a) { None => -1, Some(rf) => { let g = rf.get(); let d: bool = *rf; if g != d { 99 } else { g as i128 } } },
        15 => match bv.get_mut(op.a) { None => -1, Some(mut rf) => r(rf.set(op.v)) },
        16 => r(bv.set_range_simd(op.a, op.b, op.v)),
        17 => { let ob = make_bv(&other_of(op), (op.d % 6) as u32);
                let bop = [BitwiseOp::And, BitwiseOp::Or, BitwiseOp::Xor][op.d % 3];
                r(bv.bulk_bitwise_op_simd(&ob, bop, op.a, op.b)) }
        18 => { let c = bv.clone(); *bv = c; 0 }
        19 => { let rb = make_bv(l, 0); (*bv == rb) as i128 + 2 * (rb == *bv) as i128 }
        20 => { let mut f = l.to_vec(); if op.a < f.len() { f[op.a] = !f[op.a]; } else { f.push(op.v); }
                let rb = make_bv(&f, 0); (*bv == rb) as i128 + 2 * (rb == *bv) as i128 }
        21 => bv.count_zeros() as i128,
        22 => bv.is_empty() as i128,
        23 => if op.a < l.len() { unsafe { bv.get_unchecked(op.a) as i128 } } else { -1 },
        24 => if op.a < l.len() { unsafe { bv.set_unchecked(op.a, op.v); } 0 } else { -1 },
        25 => match BitVector::from_raw_bits(bv.blocks().to_vec(), bv.len()) { Ok(n) => { *bv = n; 0 } Err(_) => -1 },
        26 => { let a = RankSelectSE256::new(bv.clone()).map(|s| s.count_ones() as i128).unwrap_or(-7);
                let b = RankSelectSimple::new(bv.clone()).map(|s| s.count_ones() as i128).unwrap_or(-7);
                if a == b { a } else { -8 } }
        _ => (bv.capacity() >= bv.len()) as i128,
    }
}

fn x_ref(l: &mut Vec<bool>, op: &XOp) -> i128 {
    match op.c {
        0..=12 => ref_apply(l, (op.c, op.a, op.v)),
        13 => 0,
        14 => l.get(op.a).map(|x| *x as i128).unwrap_or(-1),
        15 => if op.a < l.len() { l[op.a] = op.v; 0 } else { -1 },
        16 => if op.a > op.b || op.b > l.len() { -1 } else { for i in op.a..op.b { l[i] = op.v; } 0 },
        17 => { let ot = other_of(op);
                if op.a > op.b || op.b > l.len() || op.b > ot.len() { -1 } else {
                    for i in op.a..op.b { l[i] = match op.d % 3 { 0 => l[i] & ot[i], 1 => l[i] | ot[i], _ => l[i] ^ ot[i] }; } 0 } }
        18 => 0,
        19 => 3,
        20 => 0,
        21 => l.iter().filter(|x| !**x).count() as i128,
        22 => l.is_empty() as i128,
        23 => l.get(op.a).map(|x| *x as i128).unwrap_or(-1),
        24 => if op.a < l.len() { l[op.a] = op.v; 0 } else { -1 },
        25 => 0,
        26 => l.iter().filter(|x| **x).count() as i128,
        _ => 1,
    }
}

/// start: 0 new, 1 with_size(n, v), 2 with_capacity(n), 3 from_raw_bits(words of gen_kind(kind, n, seed), n), 4 default
fn x_start(start: u32, n: usize, v: bool, seed: u64) -> (zipora::Result<BitVector>, Vec<bool>) {
    match start {
        1 => (BitVector::with_size(n, v), vec![v; n]),
        2 => (BitVector::with_capacity(n), vec![]),
        3 => { let b = gen_kind(KINDS[(seed % 10) as usize], n, seed); let mut w = words_of(&b);
               // surplus bits past n in the last word: from_raw_bits must drop them
               if n % 64 != 0 && seed % 2 == 0 { let k = w.len() - 1; w[k] |= !((1u64 << (n % 64)) - 1); }
               (BitVector::from_raw_bits(w, n), b) }
        4 => (Ok(BitVector::default()), vec![]),
        _ => (Ok(BitVector::new()), vec![]),
    }
}

pub fn x_gen_ops(r: &mut Rng) -> (u32, usize, bool, u64, Vec<XOp>) {
    let start = r.below(5) as u32;
    let n0 = *r.pick(&[0usize, 1, 63, 64, 65, 127, 128, 129, 255, 256, 257, 300, 511, 512, 513, 1000]);
    let v0 = r.chance(1, 2);
    let seed = r.below(1000);
    let mut len = if start == 1 || start == 3 { n0 } else { 0 };
    let mut ops: Vec<XOp> = vec![];
    let nops = 12 + r.below(50) as usize;
    let z = XOp { c: 0, a: 0, b: 0, v: false, d: 0, e: 0 };
    while ops.len() < nops {
        let near = |r: &mut Rng, len: usize| -> usize {
            match r.below(9) { 0 => 0, 1 => len, 2 => len + 1, 3 => len.saturating_sub(1), 4 => (len / 64) * 64, 5 => (len / 64) * 64 + 64,
                               6 => len + *r.pick(&[2usize, 63, 64, 65, 200]), 7 => (len / 256) * 256, _ => r.below(len as u64 + 1) as usize } };
        match r.below(100) {
            0..=13 => { let burst = if r.chance(1, 3) { 1 + r.below(140) as usize } else { 1 }; let dense = r.chance(1, 2);
                        for _ in 0..burst { ops.push(XOp { c: 0, v: if dense { !r.chance(1, 8) } else { r.chance(1, 2) }, ..z }); len += 1; } }
            14..=18 => { let k = if r.chance(1, 3) { 1 + r.below(70) as usize } else { 1 }; for _ in 0..k { ops.push(XOp { c: 1, ..z }); len = len.saturating_sub(1); } }
            19..=21 => ops.push(XOp { c: 2, a: near(r, len), v: r.chance(1, 2), ..z }),
            22..=26 => { let n = near(r, len); ops.push(XOp { c: 3, a: n, v: r.chance(1, 2), ..z }); len = n; }
            27..=29 => { let i = near(r, len); ops.push(XOp { c: 4, a: i, ..z }); if i >= len { len = i + 1; } }
            30..=32 => { let i = near(r, len); ops.push(XOp { c: 5, a: i, ..z }); if i >= len { len = i + 1; } }
            33 => { if len < 300 { let i = near(r, len); ops.push(XOp { c: 6, a: i, v: r.chance(1, 2), ..z }); if i <= len { len += 1; } } }
            34 => { if r.chance(1, 3) { ops.push(XOp { c: 7, ..z }); len = 0; } }
            35..=37 => ops.push(XOp { c: 9, a: near(r, len), ..z }),
            38..=39 => ops.push(XOp { c: 11, ..z }),
            // ---- the operations new in this family
            40..=45 => ops.push(XOp { c: 13, a: *r.pick(&[0usize, 1, 63, 64, 65, 500, 4096, 70000]), ..z }),
            46..=48 => ops.push(XOp { c: 14, a: near(r, len), ..z }),
            49..=53 => ops.push(XOp { c: 15, a: near(r, len), v: r.chance(1, 2), ..z }),
            54..=65 => { let (mut a, mut b) = (near(r, len), near(r, len)); if a > b && !r.chance(1, 10) { std::mem::swap(&mut a, &mut b); }
                         if r.chance(1, 8) { a = 0; b = 0; } if r.chance(1, 8) { a = len; b = len; } if r.chance(1, 8) { a = 0; b = len; }
                         ops.push(XOp { c: 16, a, b, v: r.chance(1, 2), ..z }); }
            66..=77 => { let (mut a, mut b) = (near(r, len), near(r, len)); if a > b && !r.chance(1, 10) { std::mem::swap(&mut a, &mut b); }
                         if r.chance(1, 8) { a = 0; b = 0; } if r.chance(1, 6) { a = 0; b = len; }
                         // the other vector: as long as this one, longer (bits past this vector's end), shorter, block-aligned
                         let e = match r.below(6) { 0 => len, 1 => len + *r.pick(&[1usize, 63, 64, 65, 300]), 2 => b, 3 => (len / 64) * 64 + 64, 4 => len / 2, _ => len + 5 };
                         ops.push(XOp { c: 17, a, b, v: false, d: r.below(3000) as usize, e }); }
            78..=80 => ops.push(XOp { c: 18, ..z }),
            81..=83 => ops.push(XOp { c: 19, ..z }),
            84..=85 => ops.push(XOp { c: 20, a: near(r, len), v: r.chance(1, 2), ..z }),
            86 => ops.push(XOp { c: 21, ..z }),
            87 => ops.push(XOp { c: 22, ..z }),
            88..=89 => ops.push(XOp { c: 23, a: near(r, len), ..z }),
            90..=92 => ops.push(XOp { c: 24, a: near(r, len), v: r.chance(1, 2), ..z }),
            93..=95 => ops.push(XOp { c: 25, ..z }),
            96..=98 => ops.push(XOp { c: 26, ..z }),
            _ => ops.push(XOp { c: 27, ..z }),
        }
        if len > 2600 { ops.push(XOp { c: 3, a: 100, ..z }); len = 100; }
    }
    ops.push(XOp { c: 11, ..z }); ops.push(XOp { c: 12, ..z }); ops.push(XOp { c: 26, ..z }); ops.push(XOp { c: 19, ..z });
    (start, n0, v0, seed, ops)
}

pub fn x_history(cx: &mut Ctx, start: u32, n0: usize, v0: bool, seed: u64, ops: &[XOp]) {
    let name = "bitvector/xhistory";
    let cj = json!({"cell": name, "start": {"how": start, "n": n0, "val": v0, "seed": seed}, "ops": ops.iter().map(xop_json).collect::<Vec<_>>()});
    if !cx.begin_case(&cj) { return; }
    let key = format!("{} {} {} {} {:?}", start, n0, v0, seed, ops);
    let mutations = ops.iter().filter(|o| o.c <= 7 || [15u32, 16, 17, 24].contains(&o.c)).count();
    cx.sum.eval(name, &key, mutations >= 5);
    cx.sum.cell_status(name, "S-only");
    let res = guarded(|| {
        let mut bad: Vec<String> = vec![];
        let (st, mut l) = x_start(start, n0, v0, seed);
        let mut bv = match st { Ok(b) => b, Err(e) => return vec![format!("start refused: {:?}", e)] };
        if bv.len() != l.len() { bad.push(format!("start: len {} want {}", bv.len(), l.len())); }
        for (k, op) in ops.iter().enumerate() {
            let before = l.clone();
            let got = match guarded(|| x_apply(&mut bv, &before, op)) { Ok(g) => g, Err(e) => { bad.push(format!("op #{} {:?} panicked: {}", k, op, e)); break; } };
            let want = x_ref(&mut l, op);
            if got != want && bad.len() < 3 { bad.push(format!("op #{} {:?}: got {} want {}", k, op, got, want)); }
        }
        if bv.len() != l.len() { bad.push(format!("len {} want {}", bv.len(), l.len())); return bad; }
        let o = Oracle::new(&l);
        if bv.count_ones() != o.ones.len() { bad.push(format!("count_ones {} want {}", bv.count_ones(), o.ones.len())); }
        for p in 0..=l.len() {
            if p < l.len() && bv.get(p) != Some(l[p]) && bad.len() < 4 { bad.push(format!("final get({}) = {:?} want {}", p, bv.get(p), l[p])); }
            if bv.rank1(p) != o.pre[p] && bad.len() < 4 { bad.push(format!("final rank1({}) = {} want {}", p, bv.rank1(p), o.pre[p])); }
        }
        if bad.is_empty() {
            let ps: Vec<usize> = (0..=l.len()).collect();
            for (nm, b) in [("interleaved256", RankSelectInterleaved256::new(bv.clone()).map(|x| check_ops(&x, &o, &ps, true))),
                            ("se256", RankSelectSE256::new(bv.clone()).map(|x| check_ops(&x, &o, &ps, true))),
                            ("se512", RankSelectSE512::new(bv.clone()).map(|x| check_ops(&x, &o, &ps, true))),
                            ("simple", RankSelectSimple::new(bv.clone()).map(|x| check_ops(&x, &o, &ps, true))),
                            ("few_one", RankSelectFewOne::from_bitvector(&bv).map(|x| check_ops(&x, &o, &ps, true)))] {
                match b { Ok(v) => for e in v.into_iter().take(2) { bad.push(format!("{} built from the vector: {}", nm, e)); },
                          Err(e) => bad.push(format!("{} construction refused: {:?}", nm, e)) }
            }
            // growing again must not resurrect anything left behind past the end
            let mut g = bv.clone();
            let newlen = l.len() + 130;
            if g.ensure_set1(newlen - 1).is_ok() {
                let mut l2 = l.clone(); l2.resize(newlen, false); l2[newlen - 1] = true;
                for p in l.len()..newlen { if g.get(p) != Some(l2[p]) { bad.push(format!("after ensure_set1({}): bit {} is set", newlen - 1, p)); break; } }
            }
        }
        bad
    });
    match res {
        Err(p) => cx.sum.fail(name, None, cj.clone(), &format!("panicked: {}", p)),
        Ok(bad) => if !bad.is_empty() { cx.sum.fail(name, None, cj.clone(), &bad.iter().take(4).cloned().collect::<Vec<_>>().join("; ")); }
    }
}

pub fn x_history_replay(cx: &mut Ctx, c: &Value) {
    let ops: Vec<XOp> = c["ops"].as_array().map(|a| a.iter().map(xop_parse).collect()).unwrap_or_default();
    let s = &c["start"];
    x_history(cx, s["how"].as_u64().unwrap_or(0) as u32, s["n"].as_u64().unwrap_or(0) as usize, s["val"].as_bool().unwrap_or(false), s["seed"].as_u64().unwrap_or(0), &ops);
}

// ------------------------------------------------------------------------------------------------------------
// vectors described by (kind, n, seed): thresholds far from the small cases.
//   n <= 20000: the whole RS evaluation of c04.rs (every structure, every entry point) - sizes around 8192/8448 (32/33
//               blocks: linear / bisecting hybrid select), 10000 (Small/Medium of the adaptive profile), 16384;
//   larger   : every structure once, boundary + sampled queries - 65535..65537, 2^20-1..2^20+1, 1000000.
pub fn big_case(kind: &str, n: usize, seed: u64, mode: u32) -> Value { json!({"cell": "big", "kind": kind, "n": n, "seed": seed, "mode": mode}) }

pub fn big_replay(cx: &mut Ctx, c: &Value) {
    let kind = c["kind"].as_str().unwrap_or("half").to_string();
    big_vector(cx, &kind, c["n"].as_u64().unwrap_or(0) as usize, c["seed"].as_u64().unwrap_or(0), c["mode"].as_u64().unwrap_or(0) as u32);
}

pub fn big_vector(cx: &mut Ctx, kind: &str, n: usize, seed: u64, mode: u32) {
    let bits = gen_kind(kind, n, seed);
    let cj = big_case(kind, n, seed, mode);
    cx.sum.dist("kind_n_seed_vectors");
    cx.sum.dist_max("max_len", n as u64);
    if n <= 20000 {
        let mut r = Rng::new(seed + n as u64);
        one_vector_cj(cx, &bits, mode, &mut r, false, Some(cj));
        return;
    }
    if !cx.begin_case(&cj) { return; }
    let o = Oracle::new(&bits);
    let (no, nz) = (o.ones.len(), o.zeros.len());
    let key = format!("big {} {} {} {}", kind, n, seed, mode);
    let nontrivial = no > 0 && nz > 0;
    // positions: both ends, every 2^16 boundary, a few 64/256/512 boundaries near the ends and the middle, random ones
    let mut r = Rng::new(seed ^ n as u64);
    let mut ps: Vec<usize> = vec![0, 1, 63, 64, 65, 255, 256, 257, 511, 512, 513, n / 2, n - 1, n];
    let mut b = 65536usize; while b <= n + 1 { for d in [b - 1, b, b + 1] { if d <= n { ps.push(d); } } b += 65536; }
    for base in [n / 2, n] { for al in [64usize, 256, 512, 2048] { let x = (base / al) * al; for d in [x.wrapping_sub(1), x, x + 1] { if d <= n { ps.push(d); } } } }
    for _ in 0..40 { ps.push(r.below(n as u64 + 1) as usize); }
    ps.sort(); ps.dedup();
    let mk = |m: usize, pre_at: &dyn Fn(usize) -> usize, r: &mut Rng| -> Vec<usize> {
        let mut v = vec![0usize, 1, m / 2, m.saturating_sub(1), m, m + 1, 511, 512, 513];
        let mut b = 65536usize; while b <= n { let q = pre_at(b); v.push(q.saturating_sub(1)); v.push(q); b += 65536 * (1 + n / (65536 * 8)); }
        for _ in 0..10 { v.push(r.below(m as u64 + 1) as usize); }
        v.sort(); v.dedup(); v };
    let ks1 = mk(no, &|b| o.pre[b], &mut r);
    let ks0 = mk(nz, &|b| b - o.pre[b], &mut r);
    let bv = make_bv(&bits, mode);
    let words = words_of(&bits);
    macro_rules! cell { ($name:expr, $sel0:expr, $build:expr) => {{
        run_cell(cx, $name, &key, nontrivial, &cj, || { let rs = $build.map_err(es)?; Ok(check_sample(&rs, &o, &ps, &ks1, &ks0, $sel0)) });
    }}; }
    cell!("big/interleaved256", true, RankSelectInterleaved256::new(bv.clone()));
    cell!("big/interleaved256/nocache", true, RankSelectInterleaved256::with_options(bv.clone(), false, 512));
    cell!("big/interleaved256/rate", true, RankSelectInterleaved256::with_options(bv.clone(), true, [64usize, 1000, 4096][n % 3]));
    cell!("big/se256", true, RankSelectSE256::new(bv.clone()));
    cell!("big/se256/opts", true, RankSelectSE256::with_options(bv.clone(), n % 2 == 0, n % 2 == 1));
    cell!("big/se512", true, RankSelectSE512::new(bv.clone()));
    cell!("big/se512/nocache", true, RankSelectSE512::with_options(bv.clone(), false, false));
    cell!("big/simple", true, RankSelectSimple::new(bv.clone()));
    cell!("big/simple/from_words", true, RankSelectSimple::from_words(words.clone(), n));
    cell!("big/few_one", true, RankSelectFewOne::from_bitvector(&bv));
    cell!("big/few_zero", true, RankSelectFewZero::from_bitvector(&bv));
    cell!("big/adaptive", true, AdaptiveRankSelect::new(bv.clone()));
    cell!("big/adaptive/criteria", true, AdaptiveRankSelect::with_criteria(bv.clone(), SelectionCriteria { enable_select_cache: false, prefer_space: true, access_pattern: AccessPattern::SelectHeavy, ..SelectionCriteria::default() }));
    run_cell(cx, "big/mixed", &key, nontrivial, &cj, || {
        let olen = [n / 2 + 3, n, n + 300][n % 3];
        let other = gen_kind("alt", olen, 1);
        let oo = Oracle::new(&other);
        let m = RankSelectMixedIL256::new(bv.clone(), make_bv(&other, 0)).map_err(es)?;
        let mut bad = tag("dim0", check_sample(&m.dim0(), &o, &ps, &ks1, &[], false));
        let pso: Vec<usize> = ps.iter().cloned().filter(|&p| p <= olen).chain([olen]).collect();
        bad.extend(tag("dim1", check_sample(&m.dim1(), &oo, &pso, &[0, 1, oo.ones.len() / 2, oo.ones.len().saturating_sub(1), oo.ones.len()], &[], false)));
        let m2 = RankSelectMixedIL256::new(make_bv(&other, 0), bv.clone()).map_err(es)?;
        bad.extend(tag("as dim1", check_sample(&m2.dim1(), &o, &ps, &ks1, &[], false)));
        Ok(bad)
    });
    run_cell(cx, "big/multidim", &key, nontrivial, &cj, || {
        let neg: Vec<bool> = bits.iter().map(|b| !b).collect();
        let md = MultiDimRankSelect::<2>::new(vec![bv.clone(), make_bv(&neg, 0)]).map_err(es)?;
        let mut bad = vec![];
        for &p in &ps { let g = md.bulk_rank_multidim(&[p, n - p]); if g != [o.pre[p], (n - p) - o.pre[n - p]] && bad.len() < 3 { bad.push(format!("bulk_rank_multidim([{}, {}]) = {:?}", p, n - p, g)); } }
        for (&k1, &k0) in ks1.iter().zip(ks0.iter()) { if k1 < no && k0 < nz {
            let g = md.bulk_select_multidim(&[k1, k0]).ok();
            if g != Some([o.ones[k1], o.zeros[k0]]) && bad.len() < 3 { bad.push(format!("bulk_select_multidim([{}, {}]) = {:?}", k1, k0, g)); } } }
        let and = md.intersect_dimensions(0, 1).map_err(es)?;
        if and.len() != n || and.count_ones() != 0 { bad.push(format!("intersect(0,1): len {} ones {}", and.len(), and.count_ones())); }
        let or = md.union_dimensions(&[1, 0]).map_err(es)?;
        if or.len() != n || or.count_ones() != n || or.rank1(n / 2) != n / 2 { bad.push(format!("union([1,0]): len {} ones {}", or.len(), or.count_ones())); }
        let amd = AdaptiveMultiDimensional::new_dual(bv.clone(), make_bv(&neg, 0)).map_err(es)?;
        bad.extend(tag("AdaptiveMultiDimensional", check_sample(&amd, &o, &ps, &ks1, &ks0, true)));
        Ok(bad)
    });
    run_cell(cx, "big/bitvector", &key, nontrivial, &cj, || {
        let mut bad = vec![];
        if bv.len() != n || bv.count_ones() != no || bv.count_zeros() != nz { bad.push(format!("len/count_ones/count_zeros = {}/{}/{}", bv.len(), bv.count_ones(), bv.count_zeros())); }
        for &p in &ps { if (bv.rank1(p) != o.pre[p] || bv.rank0(p) != p - o.pre[p] || (p < n && bv.get(p) != Some(bits[p]))) && bad.len() < 3 { bad.push(format!("rank1/rank0/get({})", p)); } }
        if bv.rank1_bulk_simd(&ps) != ps.iter().map(|&p| o.pre[p]).collect::<Vec<_>>() { bad.push("rank1_bulk_simd".into()); }
        let fr = BitVector::from_raw_bits(words.clone(), n).map_err(es)?;
        if !(fr == bv && bv == fr && bv.clone() == bv) { bad.push("from_raw_bits / clone != vector".into()); }
        // range fill and word-wise combination across many blocks, then back
        let mut w = bv.clone();
        let (a, b) = (n / 3 + 5, 2 * n / 3 + 70);
        w.set_range_simd(a, b, true).map_err(es)?;
        let want1 = o.pre[a] + (b - a) + (no - o.pre[b]);
        if w.count_ones() != want1 || w.rank1(b) != o.pre[a] + (b - a) || w.len() != n { bad.push(format!("set_range_simd({}, {}, true): count_ones {} want {}", a, b, w.count_ones(), want1)); }
        w.bulk_bitwise_op_simd(&bv, BitwiseOp::And, a, b).map_err(es)?;
        if !(w == bv) { bad.push(format!("set_range_simd({}, {}, true) then And with the original over the same range != original (count_ones {} want {})", a, b, w.count_ones(), no)); }
        w.bulk_bitwise_op_simd(&bv, BitwiseOp::Xor, 0, n).map_err(es)?;
        if w.count_ones() != 0 { bad.push(format!("v xor v over [0, n): {} ones", w.count_ones())); }
        Ok(bad)
    });
    run_cell(cx, "big/bulk", &key, nontrivial, &cj, || {
        let mut bad = vec![];
        let want: Vec<usize> = ps.iter().map(|&p| o.pre[p]).collect();
        let k1: Vec<usize> = ks1.iter().cloned().filter(|&k| k < no).collect();
        let wantk: Vec<usize> = k1.iter().map(|&k| o.ones[k]).collect();
        let mut shuf: Vec<usize> = ps.iter().rev().cloned().collect(); shuf.insert(1, n); shuf.insert(3, 0);
        let wants: Vec<usize> = shuf.iter().map(|&p| o.pre[p]).collect();
        macro_rules! eqv { ($what:expr, $got:expr, $want:expr) => { match guarded(|| $got) { Ok(g) => if g != $want && bad.len() < 6 { bad.push(format!("{} differs", $what)); },
                                                                                              Err(e) => if bad.len() < 6 { bad.push(format!("{} panicked: {}", $what, e)); } } } }
        eqv!("bulk_rank1_simd", bulk_rank1_simd(&words, &ps), want);
        eqv!("bulk_rank1_simd(unsorted)", bulk_rank1_simd(&words, &shuf), wants);
        eqv!("Bmi2BlockOps::rank_bulk", ba::Bmi2BlockOps::rank_bulk(&words, &shuf), wants);
        eqv!("bmi2_comprehensive bulk_rank1", bc::Bmi2BlockOps::bulk_rank1(&words, &shuf), wants);
        eqv!("bulk_popcount_simd", bulk_popcount_simd(&words), words.iter().map(|w| w.count_ones() as usize).collect::<Vec<_>>());
        eqv!("popcount_bulk", ba::Bmi2RankOps::popcount_bulk(&words), words.iter().map(|w| w.count_ones()).collect::<Vec<_>>());
        if !k1.is_empty() {
            eqv!("bulk_select1_simd", bulk_select1_simd(&words, &k1).ok(), Some(wantk.clone()));
            eqv!("Bmi2BlockOps::select_bulk", ba::Bmi2BlockOps::select_bulk(&words, &k1).ok(), Some(wantk.clone()));
            eqv!("Bmi2SelectOps::select1_bulk", ba::Bmi2SelectOps::select1_bulk(&words, &k1.iter().map(|&k| k as u32).collect::<Vec<_>>()).ok(), Some(wantk.iter().map(|&x| x as u32).collect::<Vec<_>>()));
            eqv!("bulk_select1 (1-based)", bc::Bmi2BlockOps::bulk_select1(&words, &k1.iter().map(|&k| k + 1).collect::<Vec<_>>()).ok(), Some(wantk.clone()));
            let nblk = (words.len() + 3) / 4;
            let mut rc: Vec<u32> = vec![]; let mut c = 0u32;
            for b in 0..nblk { for j in 0..4 { if let Some(w) = words.get(b * 4 + j) { c += w.count_ones(); } } rc.push(c); }
            for &k in &k1 { eqv!(format!("select1_hybrid_cache({})", k), ba::Bmi2SelectOps::select1_hybrid_cache(&rc, &[0], &words, k as u32, no + 1).ok(), Some(o.ones[k] as u32)); }
        }
        eqv!("bulk_select1_simd([ones])", bulk_select1_simd(&words, &[no]).is_err(), true);
        Ok(bad)
    });
}

/// The deterministic (kind, n, seed) families of a run.
pub fn big_family(cx: &mut Ctx, thorough: bool) {
    // thresholds below 20000 bits: whole evaluation
    let small: [(usize, &str, u32); 14] = [(8191, "dense", 0), (8192, "half", 2), (8193, "sparse_words", 0), (8447, "ones", 1), (8448, "blocks", 0), (8449, "half", 3),
        (9999, "sparse", 0), (10000, "runs", 4), (10001, "dense", 5), (16383, "blocks", 0), (16384, "ones", 2), (16385, "sparse_words", 1), (4097, "blocks", 2), (12288, "single_last", 0)];
    for (i, (n, kind, mode)) in small.iter().enumerate() { big_vector(cx, kind, *n, 100 + i as u64, *mode); }
    // far thresholds: 2^16, 2^20, the adaptive profile's 10^6
    let far: Vec<(usize, &str, u32)> = vec![(65535, "half", 0), (65536, "ones", 0), (65536, "sparse_words", 2), (65537, "dense", 1), (65537, "blocks", 0),
        (131072, "runs", 0), ((1 << 20) - 1, "sparse", 0), (1 << 20, "half", 0), ((1 << 20) + 1, "ones", 0), (1_000_000, "blocks", 0), (999_999, "dense", 3), (1_000_001, "zeros", 0)];
    for (i, (n, kind, mode)) in far.iter().enumerate() { big_vector(cx, kind, *n, 200 + i as u64, *mode); }
    if thorough {
        for (i, n) in [65535usize, 65536, 65537, 262143, 262144, 262145, (1 << 20) - 1, 1 << 20, (1 << 20) + 1, 999_999, 1_000_000, 1_000_001, (1 << 21) + 1].iter().enumerate() {
            for (j, kind) in KINDS.iter().enumerate() { if (i + j) % 2 == 0 { big_vector(cx, kind, *n, 300 + (i * 10 + j) as u64, ((i + j) % 6) as u32); } }
        }
    }
}

// ------------------------------------------------------------------------------------------------------------
// sparse structures given by their pivot list: sizes up to the largest a list of u32 pivots describes exactly (2^32 bits;
// query positions then range over 0 ..= 2^32, one value more than a pivot can hold).  Judged against the list itself.
pub fn few_described_case(size: u64, pos: &[u32]) -> Value { json!({"cell": "few_described", "size": size, "pos": pos}) }

pub fn few_described_replay(cx: &mut Ctx, c: &Value) {
    let pos: Vec<u32> = c["pos"].as_array().map(|a| a.iter().map(|x| x.as_u64().unwrap_or(0) as u32).collect()).unwrap_or_default();
    few_described(cx, c["size"].as_u64().unwrap_or(0), &pos);
}

pub fn few_described(cx: &mut Ctx, size: u64, pos: &[u32]) {
    let cj = few_described_case(size, pos);
    let size = size as usize;
    let mut pos: Vec<u32> = pos.iter().copied().filter(|&x| (x as usize) < size).collect();
    pos.sort(); pos.dedup();
    cx.sum.dist("pivot_list_structures");
    let key = format!("few_described:{}:{}", size, pos.len());
    // queries: the ends, around every pivot, around the powers of two a narrower index type would wrap at
    let mut ps: Vec<usize> = vec![0, 1, 2, size / 2, size.saturating_sub(2), size.saturating_sub(1), size];
    for b in [1usize << 16, 1 << 31, 1 << 32] { for d in [0usize, 1, 2] { ps.push(b - d); ps.push(b + d); } }
    for &x in pos.iter().take(40).chain(pos.iter().rev().take(40)) { let x = x as usize; ps.push(x); ps.push(x + 1); ps.push(x.saturating_sub(1)); }
    ps.retain(|&p| p <= size); ps.sort(); ps.dedup();
    let m = pos.len();
    let lb = |p: usize| pos.partition_point(|&x| (x as usize) < p);
    let member = |i: usize| pos.binary_search(&(i as u32)).is_ok();
    // the k-th index that is not a pivot
    let nth_other = |k: usize| -> Option<usize> { let mut c = k; for &x in pos.iter() { if (x as usize) <= c { c += 1; } else { break; } } if c < size { Some(c) } else { None } };
    let ks: Vec<usize> = { let mut v = vec![0usize, 1, 2, m / 2, m.saturating_sub(1), m, m + 1]; v.sort(); v.dedup(); v };
    let others = size - m;
    let kso: Vec<usize> = { let mut v = vec![0usize, 1, 2, 5, others / 2, others.saturating_sub(2), others.saturating_sub(1), others, others + 1];
        for &x in pos.iter().take(20).chain(pos.iter().rev().take(20)) { let r = (x as usize) - lb(x as usize); v.push(r); v.push(r.saturating_sub(1)); v.push(r + 1); }
        v.sort(); v.dedup(); v };
    run_cell(cx, "few/described", &key, true, &cj, || {
        let mut bad: Vec<String> = vec![];
        macro_rules! chk { ($cond:expr, $($arg:tt)*) => { if !$cond && bad.len() < 6 { bad.push(format!($($arg)*)); } } }
        for pivots_are_ones in [true, false] {
            let name = if pivots_are_ones { "FewOne" } else { "FewZero" };
            let rs: Box<dyn RankSelectOps> = if pivots_are_ones { Box::new(RankSelectFewOne::new(pos.clone(), size).map_err(es)?) } else { Box::new(RankSelectFewZero::new(pos.clone(), size).map_err(es)?) };
            let (n1, n0) = if pivots_are_ones { (m, others) } else { (others, m) };
            chk!(rs.len() == size, "{} len {} want {}", name, rs.len(), size);
            chk!(rs.count_ones() == n1 && rs.count_zeros() == n0, "{} count_ones/zeros {}/{} want {}/{}", name, rs.count_ones(), rs.count_zeros(), n1, n0);
            for &p in &ps {
                let piv = lb(p);
                let (w1, w0) = if pivots_are_ones { (piv, p - piv) } else { (p - piv, piv) };
                let (r1, r0) = (rs.rank1(p), rs.rank0(p));
                chk!(r1 == w1, "{} rank1({}) = {} want {} (size {})", name, p, r1, w1, size);
                chk!(r0 == w0, "{} rank0({}) = {} want {} (size {})", name, p, r0, w0, size);
                if p < size { chk!(rs.get(p) == Some(member(p) == pivots_are_ones), "{} get({}) = {:?}", name, p, rs.get(p)); }
            }
            chk!(rs.get(size).is_none(), "{} get(len) not refused", name);
            for &k in &ks {
                let g = if pivots_are_ones { rs.select1(k).ok() } else { rs.select0(k).ok() };
                let w = pos.get(k).map(|&x| x as usize);
                chk!(g == w, "{} select of pivot {} = {:?} want {:?}", name, k, g, w);
            }
            for &k in &kso {
                let g = if pivots_are_ones { rs.select0(k).ok() } else { rs.select1(k).ok() };
                let w = nth_other(k);
                chk!(g == w, "{} select of non-pivot {} = {:?} want {:?} (size {})", name, k, g, w, size);
            }
        }
        Ok(bad)
    });
}

pub fn few_described_family(cx: &mut Ctx, thorough: bool) {
    let top = 1u64 << 32;
    let mut r = Rng::new(0xFE77);
    for &size in &[top, top - 1, top - 2, 1u64 << 31, (1u64 << 31) + 1, (1u64 << 24) + 1, 65536, 65537, 9, 1, 0] {
        let last = size.saturating_sub(1) as u32;
        let mut lists: Vec<Vec<u32>> = vec![vec![], vec![0], vec![last], vec![0, 7, last], (0..6u32).map(|d| last.saturating_sub(d * 3)).collect(), vec![1, 65535, 65536, 1 << 31, last / 2, last.saturating_sub(1)]];
        for _ in 0..(if thorough { 12 } else { 3 }) {
            let k = 1 + r.below(60) as usize;
            lists.push((0..k).map(|_| if size == 0 { 0 } else { (r.next() % size) as u32 }).collect());
        }
        for l in lists { few_described(cx, size, &l); }
    }
}
