//! C06: hash maps behave as mathematical maps for every operation history and hasher.
//! Oracle: every operation's answer is compared with a std BTreeMap shadow (iteration as a sorted
//! list), on every map type / preset the property names.
//! M+S cells (outputs also evaluated against the Coq model): ZiporaHashMap with standard storage
//! (default, with_capacity(n), pool preset, custom initial capacity) under ten caller-supplied
//! hashers, SmallMap across promotion, and the three stub storage presets (modelled as stubs).
//! S-only cells: GoldHashMap (presets + custom configs, u32/u64 links), GoldHashIdx, EasyHashMap,
//! HashStrMap, with collisions forced through the key's Hash impl.
//!
//! Breadth (design/C06.md "Oracle breadth"): besides insert/remove/get/get_mut/contains_key/len/iter/clear the
//! histories contain the secondary entry points of every type - housekeeping (op 8: reserve, shrink_to_fit,
//! revoke_deleted, set_hash_caching, set_auto_grow, set_max_load_factor, statistics, Debug), Clone / PartialEq (op 9),
//! bulk insertion (op 10: insert_batch, extend, Extend, FromIterator), alternative lookups (op 11: get_batch,
//! get_or_default, get_by_fast_str, is_interned), get_or_insert(_with) (op 12), retain (op 13) and alternative
//! iteration (op 14: iter()/iter_fast(), keys()/values(), partial iteration, ExactSizeIterator) - all judged by the
//! same BTreeMap shadow; every constructor / preset / builder option; rarely used key and value types (u8, i64/i32,
//! String/String, (), (u32,u32)/u128, [u64;130]); the library's own hash functions as the caller-supplied hasher;
//! threshold sweeps and fills past 2^16 entries (described by (kind, n, seed) in the case JSON).
#[path = "c06_wide.rs"]
mod wide;
use crate::util::*;
use serde_json::{json, Value};
use std::collections::BTreeMap;
use std::hash::{Hash, Hasher};
use wide::*;
use zipora::hash_map::{
    GoldHashMapConfig, HashStrategy, IterationStrategy, OptimizationStrategy, StorageStrategy, ZiporaHashMapConfig,
};
use zipora::memory::{SecureMemoryPool, SecurePoolConfig};

const HEADER: &str = r#"From ZV.Common Require Import Base Run.
From ZV.C06 Require Import Model ModelGold ModelEasy ModelIdx ModelFast ModelStr ModelEasyX ModelIdxX.
Open Scope N_scope.
(* kind 0: standard storage [hasher mode; initial capacity; has_final; final capacity] [final slot-order iteration]
   kind 1: stub storage; kind 2: SmallMap;
   kind 4: EasyHashMap [initial capacity; auto_grow; max_load_factor numerator; denominator]
           (ModelEasyX: op 12 = get_or_insert(_with), op 15 = one put of an extend / Extend / FromIterator loop)
   kind 5: GoldHashIdx [requested capacity] (ModelIdxX: op 16 = the pre-sizing of insert_batch for k items, op 17 = one insert of its loop)
   kind 6: standard storage under a hash function given as a table (String / typed keys: key numbers are the harness's
           canonical numbering of the keys, the table holds what the cell's BuildHasher returns for each) [initial capacity] [hash table]
   kind 7: SmallMap<u8> with get answered by get_fast (ModelFast.v)
   kind 8: HashStrMap (ModelStr.v; op 8 = one field of statistics(): v mod 3 = entries / total_strings / unique_strings)
   kind 3: GoldHashMap [initial capacity; cache; gc; reuse; has_final; final bucket count; final deleted count]
                       [final entry-order iteration; hash table; max_load table] *)
Definition case_t : Type := N * list N * list (list (N * N)) * list op * list obs.
Definition pn (l : list N) (i : nat) : N := nth i l 0.
Definition tb (l : list (list (N * N))) (i : nat) : list (N * N) := nth i l [].
Definition ok (c : case_t) : bool :=
  let '(kind, ps, ts, ops, expect) := c in
  match kind with
  | 0 => let h := hasher (pn ps 0) in
         let st0 := init (pn ps 1) in
         eqb_obss (run h st0 ops) expect &&
         (if pn ps 2 =? 0 then true
          else let st := exec h st0 ops in eqb_kvs (iter st) (tb ts 0) && (alloc st =? pn ps 3))
  | 1 => eqb_obss (stub_run ops) expect
  | 2 => eqb_obss (sm_run (hasher 0) (Small []) ops) expect
  | 5 => eqb_obss (irunx (hasher 0) (iinit (pn ps 0)) ops) expect
  | 6 => eqb_obss (run (assoc (tb ts 0) 0) (init (pn ps 0)) ops) expect
  | 7 => eqb_obss (smf_run true (hasher 0) (Small []) ops) expect
  | 8 => eqb_obss (hs_run hs_new ops) expect
  | 4 => let grow := fun l c => pn ps 2 * c <=? pn ps 3 * l in
         eqb_obss (easy_runx (hasher 0) grow (negb (pn ps 1 =? 0)) (init (pn ps 0)) ops) expect
  | _ => let h := assoc (tb ts 1) 0 in
         let ml := assoc (tb ts 2) 0 in
         let cfg := mkcfg (negb (pn ps 1 =? 0)) (negb (pn ps 2 =? 0)) (negb (pn ps 3 =? 0)) in
         let g0 := with_config ml cfg (pn ps 0) in
         eqb_obss (grun h ml cfg g0 ops) expect &&
         (if pn ps 4 =? 0 then true
          else let g := gexec h ml cfg g0 ops in
               eqb_kvs (giter g) (tb ts 0) && (N.of_nat (length (g_buckets g)) =? pn ps 5)
               && (g_flsize g =? pn ps 6))
  end.
"#;

// ---------------------------------------------------------------------------------------------
// cells
// ---------------------------------------------------------------------------------------------
/// (cell family, variant) -> name, status, constructor.  `aux` = hasher mode (zip) or collide mode.
const ZIP_VARIANTS: u64 = 23;
const ZIP_CLASSIC: u64 = 12; // variants 0..12 existed before the widening (every one runs every round)
fn zip_config(variant: u64) -> (String, ZiporaHashMapConfig, Option<u64>, bool) {
    // returns (name, config, model initial capacity if standard storage, is_stub)
    let std_cfg = |cap: usize| {
        let mut c = ZiporaHashMapConfig::default();
        c.initial_capacity = cap;
        c.storage_strategy = StorageStrategy::Standard { initial_capacity: cap, growth_factor: 2.0 };
        c
    };
    let pool = || SecureMemoryPool::new(SecurePoolConfig::small_secure()).expect("pool");
    match variant {
        0 => ("default".into(), ZiporaHashMapConfig::default(), Some(16), false),
        1 => ("pool".into(), ZiporaHashMapConfig::concurrent_pool(pool()), Some(64), false),
        2 => ("cache_optimized".into(), ZiporaHashMapConfig::cache_optimized(), None, true),
        3 => ("string_optimized".into(), ZiporaHashMapConfig::string_optimized(), None, true),
        4 => ("small_inline".into(), ZiporaHashMapConfig::small_inline(4), None, true),
        5 => ("standard_cap32".into(), std_cfg(32), Some(32), false),
        6 => ("standard_cap0".into(), std_cfg(0), Some(0), false),
        7 => ("standard_cap3".into(), std_cfg(3), Some(3), false),
        8 => ("standard_cap10".into(), std_cfg(10), Some(10), false),   // not a power of two after clear()
        9 => ("standard_cap24".into(), std_cfg(24), Some(24), false),   // mask 23: probe path skips slots
        10 => ("standard_cap100".into(), std_cfg(100), Some(100), false),
        11 => {
            let mut c = std_cfg(16);
            c.hash_strategy = HashStrategy::LinearProbing { max_probe_distance: 8, cache_aligned: false };
            c.optimization_strategy = OptimizationStrategy::Standard;
            ("standard_linear_probing".into(), c, Some(16), false)
        }
        // --- breadth: every hash strategy / optimisation strategy / load factor / growth factor on the standard storage
        12 => {
            let mut c = std_cfg(16);
            c.hash_strategy = HashStrategy::Chaining { load_factor: 0.5, hash_cache: true, compact_links: true };
            c.optimization_strategy = OptimizationStrategy::SimdAccelerated { string_ops: true, bulk_ops: true, hash_computation: true };
            c.load_factor = 0.5;
            c.storage_strategy = StorageStrategy::Standard { initial_capacity: 16, growth_factor: 1.5 };
            ("standard_chaining_simd".into(), c, Some(16), false)
        }
        13 => {
            let mut c = std_cfg(16);
            c.hash_strategy = HashStrategy::Cuckoo { num_hash_functions: 2, max_evictions: 8 };
            c.optimization_strategy = OptimizationStrategy::CacheAware { prefetch_distance: 0, hot_cold_separation: true, access_pattern_tracking: true };
            c.load_factor = 0.99;
            c.initial_capacity = 1000; // the storage strategy's own initial_capacity (16) decides
            ("standard_cuckoo_cacheaware".into(), c, Some(16), false)
        }
        14 => {
            let mut c = std_cfg(64);
            c.hash_strategy = HashStrategy::Hopscotch { neighborhood_size: 4, displacement_threshold: 2 };
            c.optimization_strategy = OptimizationStrategy::HighPerformance { simd_enabled: false, cache_optimized: false, prefetch_enabled: false, numa_aware: false };
            c.load_factor = 0.1;
            c.storage_strategy = StorageStrategy::Standard { initial_capacity: 64, growth_factor: 4.0 };
            ("standard_hopscotch_plain".into(), c, Some(64), false)
        }
        15 => {
            let mut c = std_cfg(16);
            c.hash_strategy = HashStrategy::RobinHood { max_probe_distance: 1, variance_reduction: false, backward_shift: false };
            c.load_factor = 1.0;
            ("standard_robinhood_probe1".into(), c, Some(16), false)
        }
        16 => {
            let mut c = ZiporaHashMapConfig::concurrent_pool(pool());
            c.initial_capacity = 7;
            if let StorageStrategy::PoolAllocated { chunk_size, .. } = &mut c.storage_strategy { *chunk_size = 1; }
            ("pool_cap7_chunk1".into(), c, Some(7), false)
        }
        17 => {
            let mut c = ZiporaHashMapConfig::concurrent_pool(pool());
            c.initial_capacity = 0;
            ("pool_cap0".into(), c, Some(0), false)
        }
        // --- breadth: the stub presets with other parameters (still stubs)
        18 => ("small_inline16".into(), ZiporaHashMapConfig::small_inline(16), None, true),
        19 => ("small_inline0".into(), ZiporaHashMapConfig::small_inline(0), None, true),
        20 => ("small_inline70000".into(), ZiporaHashMapConfig::small_inline(70000), None, true), // max_probe_distance: 70000 as u16
        21 => {
            let mut c = ZiporaHashMapConfig::cache_optimized();
            c.initial_capacity = 0;
            ("cache_optimized_cap0".into(), c, None, true)
        }
        _ => {
            let mut c = ZiporaHashMapConfig::string_optimized();
            c.storage_strategy = StorageStrategy::StringOptimized { arena_size: 0, prefix_cache: false, interning: false };
            ("string_optimized_arena0".into(), c, None, true)
        }
    }
}

const GOLD_VARIANTS: u64 = 16;
const GOLD_CLASSIC: u64 = 9;
/// (name, config, u64 links, constructor: 0 with_config, 1 new(), 2 Default::default())
fn gold_config(variant: u64) -> (String, GoldHashMapConfig, bool, u64) {
    let custom = |cap: usize, lf: f32, cache: bool, gc: bool, reuse: bool| GoldHashMapConfig {
        initial_capacity: cap, load_factor: lf, enable_hash_cache: cache, enable_auto_gc: gc,
        enable_freelist_reuse: reuse, default_iteration_strategy: IterationStrategy::Safe,
    };
    match variant {
        0 => ("default".into(), GoldHashMapConfig::default(), false, 0),
        1 => ("small".into(), GoldHashMapConfig::small(), false, 0),
        2 => ("large".into(), GoldHashMapConfig::large(), false, 0),
        3 => ("high_churn".into(), GoldHashMapConfig::high_churn(), false, 0),
        4 => ("cap1_lf0.5_cache_gc".into(), custom(1, 0.5, true, true, true), false, 0),
        5 => ("cap5_lf0.9_noreuse".into(), custom(5, 0.9, false, false, false), false, 0),
        6 => ("cap5_lf0.1_cache_noreuse_gc".into(), custom(5, 0.1, true, true, false), false, 0),
        7 => ("default_u64link".into(), GoldHashMapConfig::default(), true, 0),
        8 => ("high_churn_cache_u64link".into(), { let mut c = GoldHashMapConfig::high_churn(); c.enable_hash_cache = true; c }, true, 0),
        // --- breadth: the other constructors, load factors at and beyond the ends of the valid range, Fast as default iteration
        9 => ("new".into(), GoldHashMapConfig::default(), false, 1),
        10 => ("default_trait_u64link".into(), GoldHashMapConfig::default(), true, 2),
        11 => ("cap5_lf0.999_cache".into(), custom(5, 0.999, true, false, true), false, 0),
        12 => ("cap0_lf0.01_gc".into(), custom(0, 0.01, false, true, true), false, 0),
        13 => ("cap0_lfNaN_cache_gc".into(), custom(0, f32::NAN, true, true, true), false, 0),       // invalid load factor -> 0.7
        14 => ("cap2000_lf1.0_noreuse_gc".into(), custom(2000, 1.0, false, true, false), false, 0),  // invalid load factor -> 0.7
        _ => ("fast_default_iteration_cache".into(), { let mut c = custom(16, 0.7, true, false, true); c.default_iteration_strategy = IterationStrategy::Fast; c }, false, 0),
    }
}

const IDX_VARIANTS: u64 = 8;
const IDX_CLASSIC: u64 = 3;
const EASY_VARIANTS: u64 = 10;
const EASY_CLASSIC: u64 = 5;
const IDX_REFUSE_VARIANTS: u64 = 3;
const TYPES: u64 = 7; // typed cells: u8, i64/i32, String/String, (), u64/(), (u32,u32)/u128, u64/[u64;130]

#[derive(Clone)]
enum ModelDesc {
    Std { mode: u64, cap: u64 },
    Stub,
    Small,
    Gold { cap0: u64, cache: bool, gc: bool, reuse: bool, lf: f32, collide: u64 },
    Easy { cap: u64, auto: bool, num: u64, den: u64 },
    Idx { cap: u64 },
    /// standard storage, hash function as a table of what the cell's BuildHasher yields (String / typed keys)
    StdTab { cap: u64 },
    /// SmallMap<u8>: get goes through get_fast
    SmallU8,
    /// HashStrMap: std HashMap + counters
    Str,
}
struct Cell { name: String, status: &'static str, model: Option<ModelDesc>, stub: bool, map: Box<dyn Mut> }

const GOLD_PRIMES: [u64; 13] = [5, 11, 23, 47, 97, 199, 409, 823, 1741, 3469, 6949, 14033, 28411];
fn default_hash(k: &CKey) -> u64 {
    let mut h = std::collections::hash_map::DefaultHasher::new();
    k.hash(&mut h);
    h.finish()
}

fn make_cell(family: &str, variant: u64, aux: u64) -> Cell {
    match family {
        "zip" => {
            let (name, cfg, cap, stub) = zip_config(variant);
            let m = zipora::hash_map::ZiporaHashMap::<u64, u64, ModeBuild>::with_config_and_hasher(cfg, ModeBuild(aux)).expect("with_config_and_hasher");
            // hashers 0..N_HASHERS are mirrored by `hasher` in Model.v; the library's own hash functions (modes >= N_HASHERS) are
            // tabulated per case from the real function (kind 6)
            let model = if stub { Some(ModelDesc::Stub) } else if aux < N_HASHERS { cap.map(|c| ModelDesc::Std { mode: aux, cap: c }) } else { cap.map(|c| ModelDesc::StdTab { cap: c }) };
            Cell { name: format!("ZiporaHashMap/{}", name), status: if stub { "finding" } else { "M+S" }, model, stub, map: Box::new(Zip::<U64, ModeBuild>(m, aux)) }
        }
        "zipstr" => {
            let (name, cfg, cap, stub) = zip_config(variant);
            let m = zipora::hash_map::ZiporaHashMap::<String, u64, ModeBuild>::with_config_and_hasher(cfg, ModeBuild(aux)).expect("with_config_and_hasher");
            // the same generic code as the u64 cells, entered through the Borrow<str> lookups: the model runs on the key numbers
            // with the hash function tabulated from the real BuildHasher on the real String keys
            let model = if stub { Some(ModelDesc::Stub) } else { cap.map(|c| ModelDesc::StdTab { cap: c }) };
            Cell { name: format!("ZiporaHashMap<String>/{}", name), status: if stub { "finding" } else { "M+S" }, model, stub, map: Box::new(ZipStr(m, aux)) }
        }
        "zipcap" => {
            // ZiporaHashMap::with_capacity(n) needs S: Default, i.e. hasher mode 0
            let n = variant as usize;
            let m = zipora::hash_map::ZiporaHashMap::<u64, u64, ModeBuild>::with_capacity(n).expect("with_capacity");
            Cell { name: "ZiporaHashMap/with_capacity".into(), status: "M+S", model: Some(ModelDesc::Std { mode: 0, cap: n.max(16) as u64 }), stub: false, map: Box::new(Zip::<U64, ModeBuild>(m, 0)) }
        }
        "zipctor" => {
            // the constructors that take the hasher from S::default() (mode 0): new(), with_config(..), Default::default()
            type M = zipora::hash_map::ZiporaHashMap<u64, u64, ModeBuild>;
            let (name, m, cap): (&str, M, u64) = match variant {
                0 => ("new", M::new().expect("new"), 16),
                1 => ("with_config_default", M::with_config(ZiporaHashMapConfig::default()).expect("with_config"), 16),
                2 => ("default_trait", M::default(), 16),
                _ => ("with_config_pool", M::with_config(ZiporaHashMapConfig::concurrent_pool(SecureMemoryPool::new(SecurePoolConfig::small_secure()).expect("pool"))).expect("with_config"), 64),
            };
            Cell { name: format!("ZiporaHashMap/ctor_{}", name), status: "M+S", model: Some(ModelDesc::Std { mode: 0, cap }), stub: false, map: Box::new(Zip::<U64, ModeBuild>(m, 0)) }
        }
        "zipdef" => {
            // the default hasher parameter (ahash RandomState) and std's RandomState: seeds unknown, oracle only
            match variant {
                0 => Cell { name: "ZiporaHashMap<S=default>/new".into(), status: "S-only", model: None, stub: false,
                            map: Box::new(Zip::<U64, _>(zipora::hash_map::ZiporaHashMap::<u64, u64>::new().expect("new"), 0)) },
                1 => Cell { name: "ZiporaHashMap<S=default>/with_capacity100".into(), status: "S-only", model: None, stub: false,
                            map: Box::new(Zip::<U64, _>(zipora::hash_map::ZiporaHashMap::<u64, u64>::with_capacity(100).expect("with_capacity"), 0)) },
                2 => Cell { name: "ZiporaHashMap<S=default>/default_trait".into(), status: "S-only", model: None, stub: false,
                            map: Box::new(Zip::<U64, _>(zipora::hash_map::ZiporaHashMap::<u64, u64>::default(), 0)) },
                _ => Cell { name: "ZiporaHashMap<S=std RandomState>/with_config".into(), status: "S-only", model: None, stub: false,
                            map: Box::new(Zip::<U64, std::collections::hash_map::RandomState>(
                                zipora::hash_map::ZiporaHashMap::with_config(ZiporaHashMapConfig::default()).expect("with_config"), 0)) },
            }
        }
        "gold" => {
            let (name, cfg, wide, ctor) = gold_config(variant);
            let lf = if cfg.load_factor <= 0.0 || cfg.load_factor >= 1.0 || !cfg.load_factor.is_finite() { 0.7 } else { cfg.load_factor };
            let fast = cfg.default_iteration_strategy == IterationStrategy::Fast;
            let model = Some(ModelDesc::Gold { cap0: cfg.initial_capacity as u64, cache: cfg.enable_hash_cache, gc: cfg.enable_auto_gc,
                                               reuse: cfg.enable_freelist_reuse, lf, collide: aux });
            use zipora::hash_map::GoldHashMap as G;
            let map: Box<dyn Mut> = match (wide, ctor) {
                (true, 2) => Box::new(Gold::<CK, u64>(G::default(), aux, fast)),
                (true, _) => Box::new(Gold::<CK, u64>(G::with_config(cfg), aux, fast)),
                (false, 1) => Box::new(Gold::<CK, u32>(G::new(), aux, fast)),
                (false, _) => Box::new(Gold::<CK, u32>(G::with_config(cfg), aux, fast)),
            };
            Cell { name: format!("GoldHashMap/{}", name), status: "M+S", model, stub: false, map }
        }
        "idx" => {
            use zipora::containers::specialized::GoldHashIdx as I;
            let pool = |c: SecurePoolConfig| SecureMemoryPool::new(c).expect("pool");
            // every map comes with a twin on the same memory pool (see Idx): the same Arc for with_pool, the global pool otherwise
            let (p2, p7) = (pool(SecurePoolConfig::small_secure()), pool(SecurePoolConfig::medium_secure()));
            let mk = |twin: bool| -> (&'static str, I<CKey, u64>, u64) {
                let _ = twin;
                match variant {
                    0 => ("new", I::new(), 16),
                    1 => ("with_capacity1", I::with_capacity(1), 1),
                    2 => ("with_pool", I::with_pool(16, p2.clone()), 16),
                    3 => ("default_trait", I::default(), 16),
                    4 => ("with_capacity0", I::with_capacity(0), 0),
                    5 => ("with_capacity17", I::with_capacity(17), 17),
                    6 => ("with_capacity1000", I::with_capacity(1000), 1000),
                    _ => ("with_pool0_medium", I::with_pool(0, p7.clone()), 0),
                }
            };
            let (name, m, cap) = mk(false);
            let (_, twin, _) = mk(true);
            Cell { name: format!("GoldHashIdx/{}", name), status: "M+S", model: Some(ModelDesc::Idx { cap }), stub: false, map: Box::new(Idx::<CK>(m, aux, Some(twin))) }
        }
        "idx_refuse" => {
            // GoldHashIdx on a pool whose chunks (1024 bytes) are smaller than a value (1040 bytes): every insertion is refused
            // ("Value does not fit into a chunk of the memory pool"); oracle only, see `history` (may_refuse)
            let (name, map) = refusing_idx(variant, aux);
            Cell { name, status: "S-only", model: None, stub: false, map }
        }
        "small_u8" => Cell { name: "SmallMap<u8>/get_fast".into(), status: "M+S", model: Some(ModelDesc::SmallU8), stub: false, map: Box::new(SmU8(zipora::containers::specialized::SmallMap::new())) },
        "small" => {
            use zipora::containers::specialized::SmallMap as S;
            let m = if variant == 0 { S::new() } else { S::default() };
            Cell { name: "SmallMap".into(), status: "M+S", model: Some(ModelDesc::Small), stub: false, map: Box::new(Sm::<CK>(m, aux)) }
        }
        "easy" => {
            use zipora::containers::specialized::{EasyHashMap as E, EasyHashMapBuilder as B};
            let e = |cap: u64, auto: bool, num: u64, den: u64| ModelDesc::Easy { cap, auto, num, den };
            let (name, m, desc, dflt): (&str, E<CKey, u64>, ModelDesc, Option<u64>) = match variant {
                0 => ("new", E::new(), e(16, true, 3, 4), None),
                1 => ("with_default", E::with_default(7), e(16, true, 3, 4), Some(7)),
                2 => ("cap100", E::initial_capacity(100).build(), e(100, true, 3, 4), None),
                3 => ("cap16_lf0.1", E::initial_capacity(16).max_load_factor(0.1).build(), e(16, true, 1, 10), None),
                4 => ("cap20_nogrow", E::initial_capacity(20).auto_grow(false).build(), e(20, false, 3, 4), None),
                // --- breadth: the other builder entry points, clamped load factors, Default
                5 => ("builder_new", B::new().build(), e(16, true, 3, 4), None),
                6 => ("with_default_value_cap40_lf0.95", E::with_default_value(9).with_capacity(40).max_load_factor(0.95).build(), e(40, true, 19, 20), Some(9)),
                7 => ("default_trait", E::default(), e(16, true, 3, 4), None),
                8 => ("builder_default_lf2.0", B::default().with_default(3).auto_grow(true).max_load_factor(2.0).build(), e(16, true, 19, 20), Some(3)),
                _ => ("cap5_lf0.0_nogrow", B::new().with_capacity(5).max_load_factor(0.0).auto_grow(false).build(), e(16, false, 1, 10), None),
            };
            Cell { name: format!("EasyHashMap/{}", name), status: "M+S", model: Some(desc), stub: false, map: Box::new(Easy::<CK>(m, aux, dflt, variant == 0 || variant == 7)) }
        }
        "zip_t" | "gold_t" | "idx_t" | "small_t" | "easy_t" => {
            let (name, map) = typed_cell(family, variant, aux);
            // ZiporaHashMap over the rarely used key/value types: standard storage, default configuration (16 slots), the
            // hash function tabulated per case; the other families stay oracle-only
            // the same generic code over rarely used key / value types, tied to the family's model on the canonical key / value numbers:
            // ZiporaHashMap (default configuration, 16 slots) and GoldHashMap (high_churn, 5 buckets, cache on even aux) with the
            // hash function tabulated per case from the real hasher on the real keys; GoldHashIdx::new(), SmallMap::new(),
            // EasyHashMap::with_default(7) by their answers (fixed internal hashers; the theorems say the answers do not depend on them)
            let model = match family {
                "zip_t" => ModelDesc::StdTab { cap: 16 },
                "gold_t" => { let c = GoldHashMapConfig::high_churn();
                              ModelDesc::Gold { cap0: 5, cache: aux % 2 == 0, gc: c.enable_auto_gc, reuse: c.enable_freelist_reuse, lf: c.load_factor, collide: aux } }
                "idx_t" => ModelDesc::Idx { cap: 16 },
                "small_t" => ModelDesc::Small,
                _ => ModelDesc::Easy { cap: 16, auto: true, num: 3, den: 4 },
            };
            Cell { name, status: "M+S", model: Some(model), stub: false, map }
        }
        _ => {
            use zipora::containers::specialized::HashStrMap as H;
            let m = match variant { 0 => H::new(), 1 => H::with_capacity(3), _ => H::default() };
            Cell { name: "HashStrMap".into(), status: "M+S", model: Some(ModelDesc::Str), stub: false, map: Box::new(StrM(m)) }
        }
    }
}

// ---------------------------------------------------------------------------------------------
// one history
// ---------------------------------------------------------------------------------------------
struct Ctx { sum: Summary, shards: CoqShards, budget: usize, strict: bool }

fn coq_on(x: Option<u64>) -> String { match x { Some(v) => format!("ORes (Some {})", v), None => "ORes None".into() } }

/// the items of a bulk insertion (op 10): 2..6 keys from k on with stride 1 / 16 / 3, the first key once more at the end
/// (a duplicate inside the batch: the later value wins)
fn bulk_items(k: u64, v: u64) -> Vec<(u64, u64)> {
    let cnt = 2 + v % 5;
    let stride = [1u64, 16, 3][(v / 5 % 3) as usize];
    let mut items: Vec<(u64, u64)> = (0..cnt).map(|i| (k.wrapping_add(i * stride), v.wrapping_add(i))).collect();
    items.push((k, v.wrapping_add(cnt)));
    items
}

/// Runs `ops` on a fresh map of the cell and compares every answer with a BTreeMap.
/// `big` = Some(descriptor) when the ops were generated from (kind, n, seed): the case JSON then carries the descriptor.
fn history(cx: &mut Ctx, family: &str, variant: u64, aux: u64, ops: &[(u64, u64, u64)], coq: bool, big: Option<&Value>) {
    // histories of up to 1500 operations are spelled out in the case (the shrinker works on the list), longer ones are
    // carried by their descriptor
    let cj = match big {
        Some(d) if ops.len() > 1500 => json!({"cell": family, "variant": variant, "aux": aux, "big": d}),
        _ => json!({"cell": family, "variant": variant, "aux": aux,
                       "ops": ops.iter().map(|(c, k, v)| json!([c, k, v])).collect::<Vec<_>>()}),
    };
    let made = guarded(|| make_cell(family, variant, aux));
    let mut cell = match made {
        Ok(c) => c,
        Err(p) => { cx.sum.fail(&format!("{}/{}", family, variant), None, cj, &format!("constructor panicked: {}", p)); return; }
    };
    let name = cell.name.clone();
    // refused operations inside histories: a cell whose insertions are refused by design (documented Err) carries on after
    // the refusal; the shadow is unchanged by a refused step and every later answer is compared with it as usual
    let may_refuse = family == "idx_refuse";
    let distinct_keys = { let mut ks: Vec<u64> = ops.iter().filter(|o| o.0 == 0).map(|o| o.1).collect(); ks.sort(); ks.dedup(); ks.len() };
    let has_rm_reinsert = big.is_none() && ops.iter().enumerate().any(|(i, o)| o.0 == 1 && ops[i + 1..].iter().any(|p| p.0 == 0 && p.1 == o.1));
    match big {
        Some(d) => cx.sum.eval(&name, &format!("{} {} {}", name, aux, d), true),
        None => cx.sum.eval(&name, &format!("{} {} {:?}", name, aux, ops), ops.len() >= 3),
    }
    cx.sum.cell_status(&name, cell.status);
    cx.sum.dist_max("max_distinct_keys_inserted", distinct_keys as u64);
    cx.sum.dist_max("max_history_len", ops.len() as u64);
    if has_rm_reinsert { cx.sum.dist("histories_with_remove_then_reinsert"); }

    // EasyHashMap's model also knows get_or_insert(_with) (op 12) and the put loop of extend / Extend / FromIterator (op 10)
    // GoldHashIdx's model knows insert_batch (op 10) as its pre-sizing step followed by the insert loop
    let idx_ext = matches!(cell.model, Some(ModelDesc::Idx { .. }));
    let ext = idx_ext || matches!(cell.model, Some(ModelDesc::Easy { .. }));
    let mut expanded: std::collections::HashMap<usize, Vec<(u64, u64)>> = std::collections::HashMap::new();
    let mut shadow: BTreeMap<u64, u64> = BTreeMap::new();
    let mut obs: Vec<String> = vec![];      // observations as Coq terms (model comparison)
    let mut offered: Vec<bool> = vec![];    // operations the type does not offer are left out of the model comparison
    let (mut ctr_total, mut ctr_unique) = (0u64, 0u64); // insert calls / inserts of an absent key since the last clear (HashStrMap::statistics)
    let mut cops: Vec<(u64, u64, u64)> = vec![]; // the operations on the canonical key / value numbers (typed cells)
    let mut khash: Vec<(u64, u64)> = vec![];     // canonical key -> what the cell's BuildHasher yields for it (table-driven model)
    let mut failure: Option<String> = None;
    let mut stub_like = true;               // every answer so far is what an empty map would say
    let mut maintained = false;             // a housekeeping operation (shrink_to_fit / reserve / revoke_deleted / clone ...) was executed
    let mut model_len: Option<usize> = None; // the model comparison stops before the first executed operation that changes the content and has no model
    for (i, &(c, k0, v0)) in ops.iter().enumerate() {
        let m = &mut cell.map;
        // key and value in the canonical form of the cell's element types (u8 keys wrap at 256, () is a single key ...)
        let (k, v) = if c <= 4 || c == 12 { (m.canon_k(k0), if c == 0 || c == 3 || c == 12 { m.canon_v(v0) } else { v0 }) } else { (k0, v0) };
        cops.push((c, k, v));
        if c <= 4 { if let Some(hv) = m.key_hash(k0) { khash.push((k, hv)); } }
        let items: Vec<(u64, u64)> = if c == 10 { bulk_items(k0, v0).into_iter().map(|(a, b)| (m.canon_k(a), m.canon_v(b))).collect() } else { vec![] };
        let (rm, rr, radd) = (2 + k0 % 3, (k0 / 3) % (2 + k0 % 3), v0 % 2 == 1); // retain: keep the keys with key % rm != rr
        let mut refused = false;
        let step: Result<Option<(String, Option<String>)>, String> = guarded(|| {
            // returns (coq observation, oracle complaint)
            match c {
                0 => m.insert(k, v).map(|r| {
                    let want = shadow.get(&k).copied();
                    match r {
                        Ok(got) => (coq_on(got), if got != want { Some(format!("insert({},{}) returned {:?}, a map returns {:?}", k, v, got, want)) } else { None }),
                        Err(_) if may_refuse => ("ORefused".to_string(), None),
                        Err(e) => ("OErr".to_string(), Some(format!("insert({},{}) returned Err({})", k, v, e))),
                    }
                }),
                1 => m.remove(k).map(|r| {
                    let want = shadow.get(&k).copied();
                    match r {
                        Ok(got) => (coq_on(got), if got != want { Some(format!("remove({}) returned {:?}, a map returns {:?}", k, got, want)) } else { None }),
                        Err(e) => ("OErr".to_string(), Some(format!("remove({}) returned Err({})", k, e))),
                    }
                }),
                2 => m.get(k).map(|got| { let want = shadow.get(&k).copied();
                    (coq_on(got), if got != want { Some(format!("get({}) = {:?}, a map holds {:?}", k, got, want)) } else { None }) }),
                3 => m.get_mut_set(k, v).map(|got| { let want = shadow.get(&k).copied();
                    (coq_on(got), if got != want { Some(format!("get_mut({}) = {:?}, a map holds {:?}", k, got, want)) } else { None }) }),
                4 => m.contains(k).map(|got| { let want = shadow.contains_key(&k);
                    (format!("OBool {}", coq_bool(got)), if got != want { Some(format!("contains_key({}) = {}, a map says {}", k, got, want)) } else { None }) }),
                5 => m.len().map(|got| { let want = shadow.len();
                    (format!("OLen {}", got as u128), if got != want { Some(if got == usize::MAX { "is_empty() disagrees with len()".to_string() } else if got == usize::MAX - 1 { "len() of the twin map on the same pool differs".to_string() } else { format!("len() = {}, a map has {} live keys", got, want) }) } else { None }) }),
                6 => m.iter().map(|mut got| {
                    got.sort();
                    let want: Vec<(u64, u64)> = shadow.iter().map(|(a, b)| (*a, *b)).collect();
                    let term = format!("OIter [{}]", got.iter().map(|(a, b)| format!("({}, {})", a, b)).collect::<Vec<_>>().join("; "));
                    (term, if got != want { Some(format!("iteration yields {:?}, the live entries are {:?}", &got[..got.len().min(12)], &want[..want.len().min(12)])) } else { None }) }),
                8 => m.maintain(v).map(|_| match m.counter(v) {
                    // a counter the cell's model knows about (HashStrMap::statistics): an observation of the model; `entries` is also the shadow's
                    Some(x) => { let want = [shadow.len() as u64, ctr_total, ctr_unique][(v % 3) as usize];
                                 (format!("OLen {}", x), if x != want { Some(format!("statistics().{} = {}, the history gives {}", ["entries", "total_strings", "unique_strings"][(v % 3) as usize], x, want)) } else { None }) }
                    None => ("OMaint".to_string(), None) }),
                // ---- breadth: secondary entry points, judged by the same shadow; none of them is known to the Coq models
                9 => {
                    // Clone (and PartialEq where the type has it); probe = (a live key, its value, an absent key) for the inequality checks
                    let present = shadow.iter().next().map(|(a, b)| (*a, *b));
                    let absent = (0..300u64).map(|u| m.canon_k(u)).find(|u| !shadow.contains_key(u));
                    m.clone_swap(v, present, absent).map(|r| ("OMaint".to_string(), r.err().map(|e| format!("clone: {}", e))))
                }
                10 => m.bulk(&items, v).map(|r| match r {
                    // the first item of the batch is refused: nothing of the batch may be in the map
                    Err(_) if may_refuse => ("ORefused".to_string(), None),
                    r => ((if ext { "OUnit" } else { "OMut" }).to_string(), r.err().map(|e| format!("bulk insertion of {:?} returned Err({})", items, e))) }),
                11 => m.alt_get(&[k0, k0.wrapping_add(1), k0.wrapping_add(16)], v).map(|got| {
                    let mut complaint = None;
                    for (key, ans, dflt) in got {
                        let want = shadow.get(&key).copied().or(dflt);
                        if ans != want && complaint.is_none() { complaint = Some(format!("alternative lookup #{} of key {} = {:?}, a map holds {:?}", v, key, ans, want)); }
                    }
                    ("OAlt".to_string(), complaint) }),
                12 => m.get_or_insert(k, v, v0 / 2).map(|r| {
                    let want = shadow.get(&k).copied().unwrap_or(v);
                    match r {
                        Ok(got) => (if ext && !idx_ext { format!("ORes (Some {})", got) } else { "OMut".to_string() }, if got != want { Some(format!("get_or_insert({},{}) = {}, a map yields {}", k, v, got, want)) } else { None }),
                        Err(_) if may_refuse && !shadow.contains_key(&k) => ("ORefused".to_string(), None),
                        Err(e) => ("OMut".to_string(), Some(format!("get_or_insert({},{}) returned Err({})", k, v, e))),
                    } }),
                13 => m.retain(rm, rr, radd).map(|_| ("OMut".to_string(), None)),
                14 => m.alt_iter(v).map(|r| match r {
                    Err(e) => ("OAlt".to_string(), Some(format!("alternative iteration #{}: {}", v, e))),
                    Ok(mut got) => {
                        got.sort();
                        let want: Vec<(u64, u64)> = shadow.iter().map(|(a, b)| (*a, *b)).collect();
                        (if got.is_empty() { "OAltEmpty".to_string() } else { "OAlt".to_string() },
                         if got != want { Some(format!("alternative iteration #{} yields {:?}, the live entries are {:?}", v, &got[..got.len().min(12)], &want[..want.len().min(12)])) } else { None })
                    } }),
                _ => m.clear_k(k0).map(|_| ("OUnit".to_string(), None)),
            }
        });
        match step {
            Err(p) => { failure = Some(format!("op {} {:?} panicked: {}", i, (c, k0, v0), p)); break; }
            Ok(None) => { /* operation not offered by this type: skipped on both sides */
                obs.push("OUnit".into()); offered.push(false); continue; }
            Ok(Some((term, complaint))) => {
                refused = term == "ORefused";
                if refused { cx.sum.dist("refused_operations_followed_up"); }
                let modelled = !matches!(term.as_str(), "OMaint" | "OMut" | "OAlt" | "OAltEmpty" | "ORefused");
                let empty_answer = matches!(term.as_str(), "ORes None" | "OBool false" | "OLen 0" | "OIter []" | "OUnit" | "OMaint" | "OMut" | "OAltEmpty" | "ORefused");
                if !empty_answer { stub_like = false; }
                if term == "OMaint" { maintained = true; }
                if term == "OMut" && model_len.is_none() { model_len = Some(obs.len()); }
                // operations without a counterpart in the models are left out of the model comparison (like an operation the type
                // does not offer); after housekeeping / clone the layout observables of the history are not compared
                if modelled { obs.push(term); offered.push(true); } else { obs.push("OUnit".into()); offered.push(false); }
                if let Some(msg) = complaint { failure = Some(format!("op {}: {}", i, msg)); break; }
            }
        }
        if ext && c == 10 && offered.last() == Some(&true) { expanded.insert(i, items.clone()); }
        // the shadow map (unchanged by a refused operation)
        if refused { continue; }
        match c {
            0 => { ctr_total += 1; if !shadow.contains_key(&k) { ctr_unique += 1; } shadow.insert(k, v); }
            1 => { shadow.remove(&k); }
            3 => { if let Some(r) = shadow.get_mut(&k) { *r = v; } }
            7 => { shadow.clear(); ctr_total = 0; ctr_unique = 0; }
            10 => { for (a, b) in &items { shadow.insert(*a, *b); } }
            12 => { shadow.entry(k).or_insert(v); }
            13 => {
                let m = &cell.map;
                shadow.retain(|key, val| { if radd { *val = m.canon_v(val.wrapping_add(1)); } key % rm != rr });
            }
            _ => {}
        }
    }
    if let Some(msg) = &failure {
        // the three unimplemented storage strategies: listed only while they behave exactly like the stub
        let class = if cell.stub && stub_like { Some("stub_storage_strategy") } else { None };
        cx.sum.fail(&name, class, cj.clone(), msg);
    }
    // model comparison: the prefix of the history that produced observations, plus (for complete
    // histories) internal observables: iteration in the order yielded, capacity, deleted count
    if let Some(desc) = cell.model.clone() {
        if coq && !obs.is_empty() && big.is_none() {
            let n = model_len.unwrap_or(obs.len());
            // layout observables (slot/entry order, capacity, deleted count) are compared in the thorough tier only:
            // a property-preserving change of growth policy or slot order is then reported as model drift
            // (no-failing-input-found) there, and not at all in the quick tier
            let fin = if failure.is_none() && cx.strict && !maintained && model_len.is_none() { guarded(|| cell.map.raw()).ok().flatten() } else { None };
            let kvs = |v: &[(u64, u64)]| format!("[{}]", v.iter().map(|(a, b)| format!("({}, {})", a, b)).collect::<Vec<_>>().join("; "));
            let (kind, params, tables): (u64, Vec<u64>, Vec<String>) = match desc {
                ModelDesc::Std { mode, cap } => match &fin {
                    Some((it, sc)) => (0, vec![mode, cap, 1, sc[0]], vec![kvs(it)]),
                    None => (0, vec![mode, cap, 0, 0], vec![]),
                },
                ModelDesc::Stub => (1, vec![], vec![]),
                ModelDesc::Small => (2, vec![], vec![]),
                ModelDesc::Idx { cap } => (5, vec![cap], vec![]),
                ModelDesc::StdTab { cap } => { khash.sort(); khash.dedup(); (6, vec![cap], vec![kvs(&khash)]) }
                ModelDesc::SmallU8 => (7, vec![], vec![]),
                ModelDesc::Str => (8, vec![], vec![]),
                ModelDesc::Easy { cap, auto, num, den } => (4, vec![cap, auto as u64, num, den], vec![]),
                ModelDesc::Gold { cap0, cache, gc, reuse, lf, collide } => {
                    // DefaultHasher on the real key of every key number the history touches (Gold::key_hash)
                    let _ = collide;
                    khash.sort(); khash.dedup();
                    let hs: Vec<(u64, u64)> = khash.clone();
                    let ml: Vec<(u64, u64)> = GOLD_PRIMES.iter().map(|&p| (p, (p as f32 * lf) as usize as u64)).collect();
                    let (has, it, b, d) = match &fin { Some((it, sc)) => (1, it.clone(), sc[0], sc[1]), None => (0, vec![], 0, 0) };
                    (3, vec![cap0, cache as u64, gc as u64, reuse as u64, has, b, d], vec![kvs(&it), kvs(&hs), kvs(&ml)])
                }
            };
            // the new kinds run on the canonical numbers (u8 keys wrap at 256, String values are numbered ...)
            let ops_src: &[(u64, u64, u64)] = &cops[..n];
            let (mut ops_coq, mut obs_coq): (Vec<String>, Vec<String>) = (vec![], vec![]);
            for i in 0..n {
                if !offered[i] { continue; }
                match expanded.get(&i) {
                    // a bulk insertion is the loop of its put() calls
                    Some(items) => {
                        if idx_ext { ops_coq.push(format!("(16, {}, 0)", items.len())); obs_coq.push("OUnit".into()); }
                        for (a, b) in items { ops_coq.push(format!("({}, {}, {})", if idx_ext { 17 } else { 15 }, a, b)); obs_coq.push("OUnit".into()); }
                    }
                    None => { let (c, k, v) = ops_src[i]; ops_coq.push(format!("({}, {}, {})", c, k, v)); obs_coq.push(obs[i].clone()); }
                }
            }
            if !ops_coq.is_empty() {
                let term = format!("({}, {}, [{}], [{}], [{}])", kind, coq_n_list(params.iter().map(|&x| x as u128)),
                                   tables.join("; "), ops_coq.join("; "), obs_coq.join("; "));
                cx.shards.push(term, cj);
            }
        }
    }
}

// ---------------------------------------------------------------------------------------------
// generators
// ---------------------------------------------------------------------------------------------
/// `wide` = the history also contains the secondary entry points (ops 9..14)
fn gen_history(r: &mut Rng, max_len: u64, wide: bool) -> Vec<(u64, u64, u64)> {
    // key universes: tiny (forces re-insertion after delete), small, growth-forcing, marker-adjacent
    let universe: Vec<u64> = match r.below(6) {
        0 => vec![0, 1, 2],
        1 => (0..8).collect(),
        2 => (0..40).collect(),
        3 => (0..130).collect(),
        4 => vec![0, 1, 16, 17, 32, 33, 48, u64::MAX, u64::MAX - 1, 15, 31],
        _ => (0..20).map(|i| i * 16).collect(),
    };
    let n = r.range(3, max_len);
    let fill_first = r.chance(1, 3);
    let mut ops = vec![];
    let mut next_val = 100u64;
    if fill_first {
        // fill up to a growth boundary first, then churn
        let target = *r.pick(&[8usize, 9, 15, 16, 17, 33, 65]);
        for &k in universe.iter().take(target) { next_val += 1; ops.push((0, k, next_val)); }
    }
    for _ in 0..n {
        let k = *r.pick(&universe);
        next_val += 1;
        let c = if wide {
            match r.below(100) { 0..=27 => 0, 28..=47 => 1, 48..=55 => 2, 56..=60 => 3, 61..=63 => 4, 64..=66 => 5, 67..=69 => 6, 70..=71 => 7,
                                 72..=79 => 8, 80..=83 => 9, 84..=87 => 10, 88..=90 => 11, 91..=94 => 12, 95..=96 => 13, _ => 14 }
        } else {
            match r.below(100) { 0..=34 => 0, 35..=59 => 1, 60..=72 => 2, 73..=79 => 3, 80..=84 => 4, 85..=89 => 5, 90..=94 => 6, 95..=96 => 7, _ => 8 }
        };
        ops.push((c, k, next_val));
    }
    ops.push((5, 0, 0));
    ops.push((6, 0, 0));
    if wide { ops.push((14, 0, next_val)); ops.push((14, 0, next_val + 1)); }
    for (i, &k) in universe.iter().take(48).enumerate() { ops.push((if wide && i % 4 == 3 { 11 } else { 2 }, k, i as u64)); }
    ops
}

/// a large fill (past the rehash points of the big presets: GoldHashMap::large rehashes at 721 entries,
/// the standard storage grows 16 -> 2048), a sweep of removals, partial re-insertion, then a full read-back
fn gen_big(r: &mut Rng) -> Vec<(u64, u64, u64)> {
    let n = *r.pick(&[300u64, 800, 1500]);
    let stride = *r.pick(&[1u64, 16, 7]);
    let mut ops = vec![];
    for i in 0..n { ops.push((0, i * stride, 1000 + i)); }
    let every = r.range(2, 5);
    for i in 0..n { if i % every == 0 { ops.push((1, i * stride, 0)); } }
    ops.push((5, 0, 0));
    for i in 0..n { if i % (every * 2) == 0 { ops.push((0, i * stride, 5000 + i)); } }
    ops.push((5, 0, 0));
    ops.push((6, 0, 0));
    for i in 0..n { ops.push((2, i * stride, 0)); }
    ops
}

/// Histories described by (kind, n, seed) instead of being spelled out in the case JSON.
///  "tour":   every kind of operation around a fill of n keys (stride by seed): all housekeeping calls, clone, bulk,
///            get_or_insert, retain, alternative lookups / iteration, clear and reuse of the cleared object
///  "sweep":  fill exactly n keys (n sits on an internal threshold), housekeeping, remove more than half, housekeeping
///            (shrink paths), clone, bulk, re-insert, read everything back
///  "huge":   n sequential inserts (n > 2^16), every third key removed, every sixth re-inserted, housekeeping in between,
///            full read-back; len / iteration only at the end
fn expand_big(d: &Value) -> Vec<(u64, u64, u64)> {
    let kind = d["kind"].as_str().unwrap_or("tour");
    let n = d["n"].as_u64().unwrap_or(20);
    let seed = d["seed"].as_u64().unwrap_or(0);
    let mut r = Rng::new(seed ^ 0xC06);
    let stride = [1u64, 16, 7, 3][(seed % 4) as usize];
    let key = |i: u64| i.wrapping_mul(stride);
    let mut ops: Vec<(u64, u64, u64)> = vec![];
    match kind {
        "tour" => {
            for i in 0..n { ops.push((0, key(i), 1000 + i)); }
            for w in 0..8 { ops.push((8, 0, w + 7 * seed)); }
            ops.push((14, 0, seed)); ops.push((9, 0, seed)); ops.push((5, 0, 0));
            for i in 0..n { if i % 3 == 0 { ops.push((1, key(i), 0)); } }
            for w in 8..16 { ops.push((8, 0, w + 7 * seed)); }
            ops.push((9, 0, seed + 1)); ops.push((14, 0, seed + 1)); ops.push((6, 0, 0));
            ops.push((10, key(1), 30 + seed)); ops.push((10, key(n), 41 + seed)); ops.push((12, key(0), 77)); ops.push((12, key(1), 78)); ops.push((12, key(n + 3), 79));
            ops.push((3, key(2), 555)); ops.push((11, key(0), seed)); ops.push((11, key(n), seed + 1));
            ops.push((13, seed % 9, seed + 1)); ops.push((5, 0, 0)); ops.push((14, 0, seed + 2)); ops.push((9, 0, seed + 2));
            for i in 0..n { if i % 2 == 0 { ops.push((0, key(i), 2000 + i)); } }
            ops.push((13, (seed + 4) % 9, seed)); ops.push((6, 0, 0));
            for i in 0..n + 4 { ops.push((2, key(i), 0)); }
            // clear, housekeeping on the empty object, reuse
            ops.push((7, seed, 0)); ops.push((5, 0, 0)); ops.push((14, 0, seed));
            for w in 0..8 { ops.push((8, 0, w)); }
            ops.push((9, 0, seed)); ops.push((10, key(2), 12 + seed)); ops.push((12, key(2), 5));
            for i in 0..n / 2 { ops.push((0, key(i), 3000 + i)); }
            ops.push((1, key(1), 0)); ops.push((9, 0, seed + 1)); ops.push((5, 0, 0)); ops.push((6, 0, 0)); ops.push((14, 0, seed + 3));
            for i in 0..n + 4 { ops.push((if i % 5 == 4 { 11 } else { 2 }, key(i), i)); }
        }
        "refuse" => {
            // operations that must leave the object as it was, each followed by a read-back: remove / get_mut / get /
            // contains_key of an absent key (never present, removed before, on the empty and on the cleared object), a second
            // remove, get_or_insert of a present key - and, on the cells whose insertions are refused by design, every
            // insert / insert_batch
            let readback = |ops: &mut Vec<(u64, u64, u64)>| { ops.push((5, 0, 0)); ops.push((6, 0, 0)); for i in 0..n + 3 { ops.push((2, key(i), 0)); } };
            ops.push((1, key(0), 0)); ops.push((3, key(1), 5)); ops.push((0, key(0), 999)); ops.push((10, key(1), 3 + seed)); readback(&mut ops);
            ops.push((0, key(0), 1000));
            for i in 1..n { ops.push((0, key(i), 1000 + i)); if i % 4 == 1 { ops.push((1, key(n + i), 0)); ops.push((3, key(n + i), 7)); ops.push((5, 0, 0)); } }
            readback(&mut ops);
            for i in 0..n { if i % 3 == 1 { ops.push((1, key(i), 0)); ops.push((1, key(i), 0)); ops.push((3, key(i), 8)); ops.push((4, key(i), 0)); ops.push((2, key(i), 0)); ops.push((5, 0, 0)); } }
            ops.push((12, key(0), 4242)); ops.push((12, key(2), 4243)); ops.push((11, key(n), seed)); ops.push((8, 0, seed));
            readback(&mut ops);
            ops.push((14, 0, seed)); ops.push((1, key(n + 1), 0)); ops.push((0, key(n + 2), 77)); ops.push((1, key(n + 2), 0)); ops.push((1, key(n + 2), 0)); ops.push((3, key(n + 2), 9));
            readback(&mut ops);
            ops.push((7, seed, 0)); ops.push((1, key(0), 0)); ops.push((3, key(0), 1)); ops.push((0, key(3), 5)); ops.push((10, key(4), seed));
            readback(&mut ops);
        }
        "sweep" => {
            for i in 0..n { ops.push((0, key(i), 1000 + i)); }
            ops.push((5, 0, 0));
            for w in 0..8 { ops.push((8, 0, w + seed)); }
            ops.push((0, key(n), 9)); ops.push((1, key(n), 0)); // one past the threshold and back
            let keep = r.range(2, 5);
            for i in 0..n { if i % keep != 0 { ops.push((1, key(i), 0)); } }
            ops.push((5, 0, 0));
            for w in 8..16 { ops.push((8, 0, w + seed)); }
            ops.push((9, 0, seed)); ops.push((14, 0, seed));
            ops.push((10, key(n / 2), 33 + seed)); ops.push((12, key(n / 3), 44));
            for i in 0..n { if i % 4 == 1 { ops.push((0, key(i), 5000 + i)); } }
            for w in 16..20 { ops.push((8, 0, w + seed)); }
            ops.push((5, 0, 0)); ops.push((6, 0, 0)); ops.push((14, 0, seed + 1));
            for i in 0..n + 2 { ops.push((if i % 64 == 63 { 11 } else { 2 }, key(i), i)); }
        }
        _ => {
            for i in 0..n { ops.push((0, i, i ^ 0x5555)); if i % 16384 == 16383 { ops.push((8, 0, i / 16384)); } }
            ops.push((5, 0, 0));
            for i in 0..n { if i % 3 == 0 { ops.push((1, i, 0)); } }
            for w in 0..6 { ops.push((8, 0, w + seed)); }
            ops.push((9, 0, 0));
            for i in 0..n { if i % 6 == 0 { ops.push((0, i, i + 1)); } }
            ops.push((10, n - 2, 33)); ops.push((12, n + 100, 1));
            ops.push((5, 0, 0)); ops.push((6, 0, 0)); ops.push((14, 0, 1));
            for i in 0..n + 8 { ops.push((if i % 1024 == 1023 { 11 } else { 2 }, i, i)); }
        }
    }
    ops
}

/// every history of length <= depth over {insert,remove,get} x 3 keys, each followed by a full read-back
fn enumerate(depth: usize, keys: &[u64], mut f: impl FnMut(&[(u64, u64, u64)])) {
    let alphabet: Vec<(u64, u64)> = keys.iter().flat_map(|&k| vec![(0u64, k), (1, k), (2, k)]).collect();
    let mut idx = vec![0usize; depth];
    for len in 1..=depth {
        for x in idx.iter_mut() { *x = 0; }
        loop {
            let mut ops: Vec<(u64, u64, u64)> = (0..len).map(|i| { let (c, k) = alphabet[idx[i]]; (c, k, 10 + i as u64) }).collect();
            ops.push((5, 0, 0)); ops.push((6, 0, 0));
            for &k in keys { ops.push((2, k, 0)); }
            f(&ops);
            let mut p = 0;
            while p < len { idx[p] += 1; if idx[p] < alphabet.len() { break; } idx[p] = 0; p += 1; }
            if p == len { break; }
        }
    }
}

fn parse_ops(c: &Value) -> Vec<(u64, u64, u64)> {
    c["ops"].as_array().map(|a| a.iter().map(|o| (o[0].as_u64().unwrap_or(0), o[1].as_u64().unwrap_or(0), o[2].as_u64().unwrap_or(0))).collect()).unwrap_or_default()
}
fn run_one(cx: &mut Ctx, c: &Value) {
    let fam = c["cell"].as_str().unwrap_or("zip").to_string();
    let (variant, aux) = (c["variant"].as_u64().unwrap_or(0), c["aux"].as_u64().unwrap_or(0));
    if c.get("big").map(|b| b.is_object()).unwrap_or(false) {
        let d = c["big"].clone();
        history(cx, &fam, variant, aux, &expand_big(&d), false, Some(&d));
    } else {
        history(cx, &fam, variant, aux, &parse_ops(c), true, None);
    }
}
fn described(cx: &mut Ctx, family: &str, variant: u64, aux: u64, kind: &str, n: u64, seed: u64) {
    let t0 = std::time::Instant::now();
    let d = json!({"kind": kind, "n": n, "seed": seed});
    history(cx, family, variant, aux, &expand_big(&d), false, Some(&d));
    if std::env::var("ZV_TRACE").is_ok() { eprintln!("described {} {} {} {} {} {} {:?}", family, variant, aux, kind, n, seed, t0.elapsed()); }
    cx.sum.dist(&format!("described_{}_histories", kind));
}

/// every (family, variant) of the check, with an `aux` for it (hasher mode / collision mode) derived from `salt`
fn all_cells(salt: u64) -> Vec<(&'static str, u64, u64)> {
    let mut v: Vec<(&'static str, u64, u64)> = vec![];
    for x in 0..ZIP_VARIANTS { v.push(("zip", x, (salt + x) % (N_HASHERS + N_LIB_HASHERS))); }
    for x in [0u64, 1, 3, 9, 12, 16] { v.push(("zipstr", x, (salt + x) % N_HASHERS)); }
    for x in [0u64, 17, 100, 4096] { v.push(("zipcap", x, 0)); }
    for x in 0..4 { v.push(("zipctor", x, 0)); }
    for x in 0..4 { v.push(("zipdef", x, 0)); }
    for x in 0..GOLD_VARIANTS { v.push(("gold", x, (salt + x) % 4)); }
    for x in 0..IDX_VARIANTS { v.push(("idx", x, (salt + x) % 4)); }
    for x in 0..2 { v.push(("small", x, (salt + x) % 4)); }
    v.push(("small_u8", 0, 0));
    for x in 0..EASY_VARIANTS { v.push(("easy", x, (salt + x) % 4)); }
    for x in 0..3 { v.push(("str", x, 0)); }
    for t in 0..TYPES {
        for f in ["zip_t", "gold_t", "idx_t", "small_t", "easy_t"] { v.push((f, t, (salt + t) % N_HASHERS)); }
    }
    for x in 0..IDX_REFUSE_VARIANTS { v.push(("idx_refuse", x, 0)); }
    v
}

pub fn run(args: &Args) {
    let mut cx = Ctx {
        sum: Summary::new("C06", "operation histories (insert/remove/get/get_mut/contains_key/len/iter/clear, 3..100 ops plus a full read-back; the wide ones also housekeeping, Clone/PartialEq, bulk insertion, alternative lookups and iteration, get_or_insert, retain) over key universes of 3, 8, 40, 130 keys, marker-adjacent keys and one-home-slot keys, on every map type, constructor and preset; ZiporaHashMap under ten caller-supplied hashers (mixing, identity, constant 0, constant u64::MAX, mod 4, two keys on the markers, k<<60, MAX-(k mod 3), 16*(k mod 3), mod 2) and fourteen hash functions of hash_functions.rs, the other maps with collisions forced through the key's Hash impl; seven rarely used key/value type pairs; enumerated: every history of <= 5 (quick: 4/5) insert/remove/get steps over 3 colliding keys; described histories (tour / threshold sweep / fill past 2^16); each answer compared with a BTreeMap, iteration as a sorted list; non-trivial = history of >= 3 operations"),
        shards: CoqShards::new(HEADER, 150),
        budget: if args.thorough { 9000 } else { 1500 },
        strict: args.thorough,
    };
    let mut rng = Rng::new(args.seed);
    if std::env::var("ZV_TRACE").is_ok() { let _ = std::panic::take_hook(); } // debugging aid: panic messages on stderr
    if let Some(f) = &args.replay {
        let v: Value = serde_json::from_str(&std::fs::read_to_string(f).expect("replay file")).expect("json");
        let c = if v.get("case").is_some() { v["case"].clone() } else { v };
        run_one(&mut cx, &c);
        let sh = cx.shards.write(&args.out);
        cx.sum.write(&args.out, sh);
        return;
    }
    // corpus: witnesses of the defects that were fixed or recorded
    for dir in ["corpus/C06", "/verif/corpus/C06"] {
        if let Ok(rd) = std::fs::read_dir(dir) {
            let mut files: Vec<_> = rd.filter_map(|e| e.ok()).map(|e| e.path()).filter(|p| p.extension().map(|e| e == "json").unwrap_or(false)).collect();
            files.sort();
            for p in files {
                if let Ok(v) = serde_json::from_str::<Value>(&std::fs::read_to_string(&p).unwrap_or_default()) {
                    let c = if v.get("case").is_some() { v["case"].clone() } else { v };
                    run_one(&mut cx, &c);
                    cx.sum.dist("corpus_cases");
                }
            }
            break;
        }
    }
    // enumerated small universe
    let depth = if args.thorough { 5 } else { 4 };
    let keys = [1u64, 17, 33];
    let mut count = 0u64;
    let mut all: Vec<Vec<(u64, u64, u64)>> = vec![];
    enumerate(depth + 1, &keys, |ops| all.push(ops.to_vec()));
    let stride = (all.len() / (cx.budget / 8).max(1)).max(1); // a sample of the enumeration goes to Coq
    for (n, ops) in all.iter().enumerate() {
        let long = ops.len() > depth + 5; // depth+1 histories only for the standard storage
        let coq = n % stride == 0;
        // constant-home-slot hasher (mode 8 maps 1,17,33 to 16,32,0 -> all slot 0 under mask 15) and mod 2
        history(&mut cx, "zip", 0, 8, ops, coq, None);
        count += 1;
        if long { continue; }
        history(&mut cx, "zip", 0, 9, ops, coq, None);
        history(&mut cx, "gold", 0, 2, ops, coq && n % (2 * stride) == 0, None);
        history(&mut cx, "gold", 3, 2, ops, false, None);
        history(&mut cx, "idx", 0, 2, ops, coq && n % (2 * stride) == stride, None);
        history(&mut cx, "small", 0, 2, ops, false, None);
    }
    // SmallMap<u8>::get_fast: every fill level 0..=9 of the inline array, lookups of absent keys (0 and 255 included)
    for fill in 0..=9u64 {
        for base in [1u64, 0, 200] {
            let mut ops: Vec<(u64, u64, u64)> = (0..fill).map(|i| (0, (base + i) % 256, 100 + i)).collect();
            for probe in [0u64, 255, 7, base, (base + fill) % 256, (base + 20) % 256] { ops.push((2, probe, 0)); }
            ops.push((5, 0, 0));
            history(&mut cx, "small_u8", 0, 0, &ops, true, None);
            if fill > 0 {
                let mut ops2 = ops.clone();
                ops2.push((1, base % 256, 0));
                for probe in [0u64, 255, base, (base + 1) % 256] { ops2.push((2, probe, 0)); }
                history(&mut cx, "small_u8", 0, 0, &ops2, base != 200, None);
            }
        }
    }
    // HashStrMap: the counters behind statistics() (op 8: entries / total_strings / unique_strings) after re-insertion of a
    // present key, removal, re-insertion of a removed key, clear / clear_all, on every constructor
    for n in [0u64, 1, 5, 20] {
        for variant in 0..3u64 {
            let mut ops: Vec<(u64, u64, u64)> = (0..n).map(|i| (0, i * 5 % 13, 10 + i)).collect();
            for w in 0..3 { ops.push((8, 0, w)); }
            ops.extend([(1, 5, 0), (1, 6, 0), (0, 5, 77), (3, 10, 78), (0, 10, 79), (8, 0, 0), (8, 0, 1), (8, 0, 2), (5, 0, 0), (6, 0, 0)]);
            ops.extend([(7, variant, 0), (8, 0, 1), (8, 0, 2), (0, 3, 1), (0, 3, 2), (8, 0, 1), (8, 0, 2), (8, 0, 0)]);
            history(&mut cx, "str", variant, 0, &ops, true, None);
        }
    }
    cx.sum.dist_max("enumerated_histories", count);

    // ---- breadth, deterministic families --------------------------------------------------------------------------
    // (a) the tour: every kind of operation on every constructor / preset / element type, three key layouts
    for (si, n) in [(0u64, 20u64), (1, 12), (2, 41), (3, 9)] {
        if !args.thorough && si == 3 { continue; }
        for (fam, variant, aux) in all_cells(args.seed + si) { described(&mut cx, fam, variant, aux, "tour", n, si); }
    }
    // (a') refused operations inside histories: the operations that must leave the object unchanged, on every cell
    for (si, n) in [(0u64, 10u64), (1, 23), (2, 7)] {
        for (fam, variant, aux) in all_cells(args.seed + si) { described(&mut cx, fam, variant, aux, "refuse", n, si); }
    }
    // (b) threshold sweeps: fills that end exactly at / one before / one after the internal switch points
    //     (SmallMap 8; tables of 16/32/64 slots; load factors 0.7 / 0.75 of 16, 64, 97, 1024, 1741; 255/256; 1023..1025; 4095..4097)
    let sweep_ns: &[u64] = if args.thorough { &[7, 8, 9, 11, 12, 13, 15, 16, 17, 31, 32, 33, 47, 48, 49, 63, 64, 65, 67, 68, 96, 97, 255, 256, 257, 716, 717, 768, 769, 1023, 1024, 1025, 1218, 1219, 4095, 4096, 4097] }
                           else { &[8, 9, 12, 16, 17, 32, 33, 48, 64, 65, 256, 257, 717, 769, 1024, 1025, 1218, 1219, 4096, 4097] };
    for (j, &n) in sweep_ns.iter().enumerate() {
        let seed = args.seed + j as u64;
        // forced collisions (4 hash values for all keys) make a fill quadratic: only for the small sweeps
        let cm = if n > 300 { 0 } else { seed % 2 };
        let cells: Vec<(&str, u64, u64)> = vec![
            ("zip", 0, seed % 2), ("zip", 1, 0), ("zip", 9, 1), ("zip", 16, 0), ("zipcap", n, 0), ("zipcap", n + 1, 0), ("zipdef", j as u64 % 4, 0),
            // the capacities the library's own sizing helpers recommend for n elements
            ("zipcap", zipora::hash_map::optimal_bucket_count(n as usize) as u64, 0), ("zipcap", zipora::hash_map::golden_ratio_next_size(n as usize) as u64, 0),
            ("gold", j as u64 % GOLD_VARIANTS, cm), ("gold", 1, 0), ("gold", 2, 0), ("gold", 6, cm), ("gold", 15, 0),
            ("idx", j as u64 % IDX_VARIANTS, cm), ("idx", 0, 0), ("small", 0, 0), ("small_t", j as u64 % TYPES, 0),
            ("easy", j as u64 % EASY_VARIANTS, cm), ("easy", 2, 0), ("easy", 6, 0), ("str", j as u64 % 3, 0),
            ("zip_t", j as u64 % TYPES, 0), ("gold_t", (j as u64 + 1) % TYPES, 0), ("idx_t", (j as u64 + 2) % TYPES, 0), ("easy_t", (j as u64 + 3) % TYPES, 0),
        ];
        for (fam, variant, aux) in cells {
            if n > 1100 && (fam.ends_with("_t") && variant == 6) { continue; } // 1 KiB values: keep the big-value cells small
            // a capacity such as 4097 leaves two reachable home slots (mask 4096): correct but quadratic
            if n > 1100 && fam == "zipcap" && !variant.is_power_of_two() { continue; }
            // EasyHashMap: every put counts the live slots (O(capacity)) and shrink_to_fit leaves such capacities behind
            if n > 1100 && fam.starts_with("easy") && variant != 0 { continue; }
            described(&mut cx, fam, variant, aux, "sweep", n, seed);
        }
    }
    // (c) past 2^16 entries (GoldHashMap: bucket counts 57557 -> 116731; standard storage 65536 -> 131072 slots;
    //     GoldHashIdx 65536 -> 131072 -> 262144); EasyHashMap (O(capacity) per put) only up to 6000
    let huge_n = 70_000u64;
    for (fam, variant, aux) in [("zip", 0u64, 0u64), ("zip", 1, 1), ("zipcap", 65536, 0), ("zipdef", 0, 0), ("gold", 0, 0), ("gold", 1, 0), ("gold", 8, 0),
                                ("idx", 0, 0), ("str", 0, 0), ("zip_t", 2, 0), ("gold_t", 1, 0), ("idx_t", 4, 0)] {
        described(&mut cx, fam, variant, aux, "huge", huge_n, args.seed % 4);
    }
    for variant in [0u64, 4, 6] { described(&mut cx, "easy", variant, 0, "huge", 6000, args.seed % 4); }
    if args.thorough {
        for (fam, variant) in [("zip", 0u64), ("gold", 0), ("gold", 7), ("idx", 0)] { described(&mut cx, fam, variant, 0, "huge", 1_100_000, 1); }
    }

    // generated histories
    let rounds = if args.thorough { 4000 } else { 260 };
    for i in 0..rounds {
        let room = cx.shards.len() < cx.budget;
        let max_len = if i % 4 == 0 { 100 } else { 40 };
        // every third history contains the secondary entry points as well
        let wide = i % 3 == 2;
        let ops = gen_history(&mut rng, max_len, wide);
        if i < 2 { cx.sum.sample(json!({"history": ops.iter().take(10).map(|(c, k, v)| json!([c, k, v])).collect::<Vec<_>>() })); }
        // ZiporaHashMap: every classic preset x a hasher; the breadth variants in rotation
        for variant in (0..ZIP_CLASSIC).chain([ZIP_CLASSIC + i % (ZIP_VARIANTS - ZIP_CLASSIC), ZIP_CLASSIC + (i + 5) % (ZIP_VARIANTS - ZIP_CLASSIC)]) {
            let mode = if rng.chance(1, 2) { (i + variant) % N_HASHERS } else { rng.below(N_HASHERS) };
            history(&mut cx, "zip", variant, mode, &ops, room && (variant + i) % 3 == 0, None);
        }
        // the library's own hash functions as the caller-supplied hasher
        history(&mut cx, "zip", [0u64, 1, 9, 10][(i % 4) as usize], N_HASHERS + i % N_LIB_HASHERS, &ops, room && i % 2 == 1, None);
        for variant in [0u64, 1, 3, 9] { history(&mut cx, "zipstr", variant, rng.below(N_HASHERS), &ops, room && (variant + i) % 4 == 1, None); }
        let n = *rng.pick(&[0u64, 1, 16, 17, 24, 31, 33, 64, 100]);
        history(&mut cx, "zipcap", n, 0, &ops, room, None);
        history(&mut cx, "zipctor", i % 4, 0, &ops, room && i % 4 == 1, None);
        history(&mut cx, "zipdef", (i / 4) % 4, 0, &ops, false, None);
        for variant in (0..GOLD_CLASSIC).chain([GOLD_CLASSIC + i % (GOLD_VARIANTS - GOLD_CLASSIC)]) {
            history(&mut cx, "gold", variant, rng.below(4), &ops, room && (variant + i) % 4 == 1 && ops.len() <= 120, None);
        }
        for variant in (0..IDX_CLASSIC).chain([IDX_CLASSIC + i % (IDX_VARIANTS - IDX_CLASSIC)]) {
            history(&mut cx, "idx", variant, rng.below(4), &ops, room && (variant + i) % 3 == 0 && ops.len() <= 120, None);
        }
        history(&mut cx, "small", i % 2, rng.below(4), &ops, room, None);
        if ops.iter().all(|o| o.1 < 256) { history(&mut cx, "small_u8", 0, 0, &ops, room, None); }
        for variant in (0..EASY_CLASSIC).chain([EASY_CLASSIC + i % (EASY_VARIANTS - EASY_CLASSIC)]) {
            history(&mut cx, "easy", variant, rng.below(4), &ops, room && (variant + i) % 5 == 2 && ops.len() <= 120, None);
        }
        history(&mut cx, "str", i % 3, 0, &ops, room && i % 2 == 0, None);
        // every insertion refused, the history carries on
        if ops.len() <= 150 { history(&mut cx, "idx_refuse", i % IDX_REFUSE_VARIANTS, 0, &ops, false, None); }
        // rarely used key / value types: one type per round on every map family
        let ty = i % TYPES;
        for fam in ["zip_t", "gold_t", "idx_t", "small_t", "easy_t"] {
            if ty == 6 && ops.len() > 150 { continue; }
            history(&mut cx, fam, ty, rng.below(N_HASHERS), &ops, room && ops.len() <= 120 && (i + fam.len() as u64) % 2 == 0, None);
        }
    }
    // large fills on every cell (one Coq evaluation of the smallest)
    let bigs = if args.thorough { 12 } else { 2 };
    for i in 0..bigs {
        let ops = gen_big(&mut rng);
        cx.sum.dist("big_fill_histories");
        for variant in 0..ZIP_VARIANTS { history(&mut cx, "zip", variant, [0u64, 1, 6, 4][(i + variant as usize) % 4], &ops, false, None); }
        history(&mut cx, "zipcap", 1000, 0, &ops, false, None);
        for variant in 0..GOLD_VARIANTS { history(&mut cx, "gold", variant, [0u64, 1][i % 2], &ops, false, None); }
        for variant in 0..IDX_VARIANTS { history(&mut cx, "idx", variant, 0, &ops, false, None); }
        history(&mut cx, "small", 0, 0, &ops, false, None);
        for variant in 0..EASY_VARIANTS { history(&mut cx, "easy", variant, 0, &ops, false, None); }
        history(&mut cx, "str", 0, 0, &ops, false, None);
    }
    cx.sum.dist_max("coq_cases", cx.shards.len() as u64);
    let sh = cx.shards.write(&args.out);
    cx.sum.write(&args.out, sh);
}
