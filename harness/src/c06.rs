//! C06: hash maps behave as mathematical maps for every operation history and hasher.
//! Oracle: every operation's answer is compared with a std BTreeMap shadow (iteration as a sorted
//! list), on every map type / preset the property names.
//! M+S cells (outputs also evaluated against the Coq model): ZiporaHashMap with standard storage
//! (default, with_capacity(n), pool preset, custom initial capacity) under ten caller-supplied
//! hashers, SmallMap across promotion, and the three stub storage presets (modelled as stubs).
//! S-only cells: GoldHashMap (presets + custom configs, u32/u64 links), GoldHashIdx, EasyHashMap,
//! HashStrMap, with collisions forced through the key's Hash impl.
use crate::util::*;
use serde_json::{json, Value};
use std::collections::BTreeMap;
use std::hash::{BuildHasher, Hash, Hasher};
use zipora::containers::specialized::{EasyHashMap, GoldHashIdx, HashStrMap, SmallMap};
use zipora::hash_map::{
    GoldHashMap, GoldHashMapConfig, HashStrategy, IterationStrategy, OptimizationStrategy,
    StorageStrategy, ZiporaHashMap, ZiporaHashMapConfig,
};
use zipora::memory::{SecureMemoryPool, SecurePoolConfig};

const HEADER: &str = r#"From ZV.Common Require Import Base Run.
From ZV.C06 Require Import Model ModelGold ModelEasy ModelIdx.
Open Scope N_scope.
(* kind 0: standard storage [hasher mode; initial capacity; has_final; final capacity] [final slot-order iteration]
   kind 1: stub storage; kind 2: SmallMap;
   kind 4: EasyHashMap [initial capacity; auto_grow; max_load_factor numerator; denominator]
   kind 5: GoldHashIdx [requested capacity]
   kind 3: GoldHashMap [initial capacity; cache; gc; reuse; has_final; final bucket count; final deleted count]
                       [final entry-order iteration; hash table; max_load table] *)
Definition case_t : Type := N * list N * list (list (N * N)) * list op * list obs.
Definition pn (l : list N) (i : nat) : N := nth i l 0.
Definition tb (l : list (list (N * N))) (i : nat) : list (N * N) := nth i l [].
Definition ok (c : case_t) : bool :=
  let '(kind, ps, ts, ops, expect) := c in
  match kind with
  | 0 => let h := hasher (pn ps 0) in
         let st0 := init (pn ps 1) in
         eqb_obss (run h st0 ops) expect &&
         (if pn ps 2 =? 0 then true
          else let st := exec h st0 ops in eqb_kvs (iter st) (tb ts 0) && (alloc st =? pn ps 3))
  | 1 => eqb_obss (stub_run ops) expect
  | 2 => eqb_obss (sm_run (hasher 0) (Small []) ops) expect
  | 5 => eqb_obss (irun (hasher 0) (iinit (pn ps 0)) ops) expect
  | 4 => let grow := fun l c => pn ps 2 * c <=? pn ps 3 * l in
         eqb_obss (easy_run (hasher 0) grow (negb (pn ps 1 =? 0)) (init (pn ps 0)) ops) expect
  | _ => let h := assoc (tb ts 1) 0 in
         let ml := assoc (tb ts 2) 0 in
         let cfg := mkcfg (negb (pn ps 1 =? 0)) (negb (pn ps 2 =? 0)) (negb (pn ps 3 =? 0)) in
         let g0 := with_config ml cfg (pn ps 0) in
         eqb_obss (grun h ml cfg g0 ops) expect &&
         (if pn ps 4 =? 0 then true
          else let g := gexec h ml cfg g0 ops in
               eqb_kvs (giter g) (tb ts 0) && (N.of_nat (length (g_buckets g)) =? pn ps 5)
               && (g_flsize g =? pn ps 6))
  end.
"#;

// ---------------------------------------------------------------------------------------------
// caller-supplied hashers (mirrored by `hasher` in coq/C06/Model.v)
// ---------------------------------------------------------------------------------------------
const N_HASHERS: u64 = 10;
fn hash_mode(mode: u64, k: u64) -> u64 {
    match mode {
        0 => { let x = k.wrapping_mul(11400714819323198485); x ^ (x >> 32) }
        1 => k,
        2 => 0,
        3 => u64::MAX,
        4 => k % 4,
        5 => if k == 0 { 0 } else if k == 1 { u64::MAX } else { k },
        6 => k << 60,
        7 => u64::MAX - (k % 3),
        8 => (k % 3) * 16,
        _ => k % 2,
    }
}
#[derive(Clone, Default)]
struct ModeBuild(u64);
struct ModeHasher { mode: u64, acc: u64 }
impl Hasher for ModeHasher {
    fn finish(&self) -> u64 { hash_mode(self.mode, self.acc) }
    fn write(&mut self, bytes: &[u8]) { for &b in bytes { self.acc = (self.acc << 8) | b as u64; } }
    fn write_u64(&mut self, i: u64) { self.acc = i; }
}
impl BuildHasher for ModeBuild {
    type Hasher = ModeHasher;
    fn build_hasher(&self) -> ModeHasher { ModeHasher { mode: self.0, acc: 0 } }
}

/// Key for the maps whose hasher is fixed: equality on `id`, hashing on `bucket` only, so that
/// collisions are chosen by the generator whatever hash function the map uses.
#[derive(Clone, Debug, PartialEq, Eq)]
struct CKey { id: u64, bucket: u64 }
impl Hash for CKey { fn hash<H: Hasher>(&self, s: &mut H) { s.write_u64(self.bucket); } }
fn ckey(collide: u64, id: u64) -> CKey {
    CKey { id, bucket: match collide { 0 => id, 1 => id % 4, 2 => 0, _ => id % 2 } }
}

// ---------------------------------------------------------------------------------------------
// uniform view of the implementations
// ---------------------------------------------------------------------------------------------
type R<T> = Result<T, String>; // Err = the API returned an error

trait Mut {
    fn insert(&mut self, k: u64, v: u64) -> Option<R<Option<u64>>>;   // None = op not offered
    fn remove(&mut self, k: u64) -> Option<R<Option<u64>>>;
    fn get(&mut self, k: u64) -> Option<Option<u64>>;
    fn get_mut_set(&mut self, k: u64, v: u64) -> Option<Option<u64>>;
    fn contains(&mut self, k: u64) -> Option<bool>;
    fn len(&mut self) -> Option<usize>;
    fn iter(&mut self) -> Option<Vec<(u64, u64)>>;
    fn clear(&mut self) -> Option<()>;
    /// internal observables for the model comparison only: iteration in the order yielded, scalars
    fn raw(&mut self) -> Option<(Vec<(u64, u64)>, Vec<u64>)> { None }
    /// housekeeping that must not change what the map holds (shrink_to_fit / reserve / revoke_deleted); None = the type has none
    fn maintain(&mut self, _which: u64) -> Option<()> { None }
}

struct Zip(ZiporaHashMap<u64, u64, ModeBuild>);
impl Mut for Zip {
    fn insert(&mut self, k: u64, v: u64) -> Option<R<Option<u64>>> { Some(self.0.insert(k, v).map_err(|e| format!("{:?}", e))) }
    fn remove(&mut self, k: u64) -> Option<R<Option<u64>>> { Some(Ok(self.0.remove(&k))) }
    fn get(&mut self, k: u64) -> Option<Option<u64>> { Some(self.0.get(&k).copied()) }
    fn get_mut_set(&mut self, k: u64, v: u64) -> Option<Option<u64>> { Some(self.0.get_mut(&k).map(|r| std::mem::replace(r, v))) }
    fn contains(&mut self, k: u64) -> Option<bool> { Some(self.0.contains_key(&k)) }
    fn len(&mut self) -> Option<usize> {
        let n = self.0.len();
        if self.0.is_empty() != (n == 0) { return Some(usize::MAX); }
        Some(n)
    }
    fn iter(&mut self) -> Option<Vec<(u64, u64)>> { Some(self.0.iter().map(|(k, v)| (*k, *v)).collect()) }
    fn clear(&mut self) -> Option<()> { self.0.clear(); Some(()) }
    fn raw(&mut self) -> Option<(Vec<(u64, u64)>, Vec<u64>)> {
        Some((self.0.iter().map(|(k, v)| (*k, *v)).collect(), vec![self.0.capacity() as u64]))
    }
}

/// String keys, looked up through &str (the Borrow<Q> path: hash_key_borrowed vs hash_key)
struct ZipStr(ZiporaHashMap<String, u64, ModeBuild>);
impl Mut for ZipStr {
    fn insert(&mut self, k: u64, v: u64) -> Option<R<Option<u64>>> { Some(self.0.insert(skey(k), v).map_err(|e| format!("{:?}", e))) }
    fn remove(&mut self, k: u64) -> Option<R<Option<u64>>> { Some(Ok(self.0.remove(skey(k).as_str()))) }
    fn get(&mut self, k: u64) -> Option<Option<u64>> { Some(self.0.get(skey(k).as_str()).copied()) }
    fn get_mut_set(&mut self, k: u64, v: u64) -> Option<Option<u64>> { Some(self.0.get_mut(skey(k).as_str()).map(|r| std::mem::replace(r, v))) }
    fn contains(&mut self, k: u64) -> Option<bool> { Some(self.0.contains_key(skey(k).as_str())) }
    fn len(&mut self) -> Option<usize> { Some(self.0.len()) }
    fn iter(&mut self) -> Option<Vec<(u64, u64)>> {
        Some(self.0.iter().map(|(k, v)| (k.trim_start_matches("key-").parse::<u64>().unwrap_or(u64::MAX), *v)).collect())
    }
    fn clear(&mut self) -> Option<()> { self.0.clear(); Some(()) }
}

struct Gold<L: zipora::hash_map::LinkType>(GoldHashMap<CKey, u64, L>, u64);
impl<L: zipora::hash_map::LinkType> Mut for Gold<L> {
    fn insert(&mut self, k: u64, v: u64) -> Option<R<Option<u64>>> { Some(self.0.insert(ckey(self.1, k), v).map_err(|e| format!("{:?}", e))) }
    fn remove(&mut self, k: u64) -> Option<R<Option<u64>>> { Some(self.0.remove(&ckey(self.1, k)).map_err(|e| format!("{:?}", e))) }
    fn get(&mut self, k: u64) -> Option<Option<u64>> { Some(self.0.get(&ckey(self.1, k)).copied()) }
    fn get_mut_set(&mut self, k: u64, v: u64) -> Option<Option<u64>> { Some(self.0.get_mut(&ckey(self.1, k)).map(|r| std::mem::replace(r, v))) }
    fn contains(&mut self, k: u64) -> Option<bool> { Some(self.0.contains_key(&ckey(self.1, k))) }
    fn len(&mut self) -> Option<usize> {
        let n = self.0.len();
        if self.0.is_empty() != (n == 0) { return Some(usize::MAX); }
        Some(n)
    }
    fn iter(&mut self) -> Option<Vec<(u64, u64)>> { Some(self.0.iter_with_strategy(IterationStrategy::Safe).map(|(k, v)| (k.id, *v)).collect()) }
    fn clear(&mut self) -> Option<()> { self.0.clear(); Some(()) }
    fn raw(&mut self) -> Option<(Vec<(u64, u64)>, Vec<u64>)> {
        Some((self.0.iter_with_strategy(IterationStrategy::Safe).map(|(k, v)| (k.id, *v)).collect(),
              vec![self.0.capacity() as u64, self.0.deleted_count() as u64]))
    }
    fn maintain(&mut self, w: u64) -> Option<()> {
        if w % 2 == 0 { let _ = self.0.reserve((w % 40) as usize); } else { let _ = self.0.revoke_deleted(); }
        Some(())
    }
}

struct Idx(GoldHashIdx<CKey, u64>, u64);
impl Mut for Idx {
    fn insert(&mut self, k: u64, v: u64) -> Option<R<Option<u64>>> { Some(self.0.insert(ckey(self.1, k), v).map_err(|e| format!("{:?}", e))) }
    fn remove(&mut self, k: u64) -> Option<R<Option<u64>>> { Some(Ok(self.0.remove(&ckey(self.1, k)))) }
    fn get(&mut self, k: u64) -> Option<Option<u64>> { Some(self.0.get(&ckey(self.1, k)).copied()) }
    fn get_mut_set(&mut self, k: u64, v: u64) -> Option<Option<u64>> { Some(self.0.get_mut(&ckey(self.1, k)).map(|r| std::mem::replace(r, v))) }
    fn contains(&mut self, k: u64) -> Option<bool> { Some(self.0.contains_key(&ckey(self.1, k))) }
    fn len(&mut self) -> Option<usize> {
        let n = self.0.len();
        if self.0.is_empty() != (n == 0) { return Some(usize::MAX); }
        Some(n)
    }
    fn iter(&mut self) -> Option<Vec<(u64, u64)>> { None }
    fn clear(&mut self) -> Option<()> { None }
    fn maintain(&mut self, _w: u64) -> Option<()> { self.0.shrink_to_fit(); Some(()) }
}

struct Sm(SmallMap<CKey, u64>, u64);
impl Mut for Sm {
    fn insert(&mut self, k: u64, v: u64) -> Option<R<Option<u64>>> { Some(self.0.insert(ckey(self.1, k), v).map_err(|e| format!("{:?}", e))) }
    fn remove(&mut self, k: u64) -> Option<R<Option<u64>>> { Some(Ok(self.0.remove(&ckey(self.1, k)))) }
    fn get(&mut self, k: u64) -> Option<Option<u64>> { Some(self.0.get(&ckey(self.1, k)).copied()) }
    fn get_mut_set(&mut self, k: u64, v: u64) -> Option<Option<u64>> { Some(self.0.get_mut(&ckey(self.1, k)).map(|r| std::mem::replace(r, v))) }
    fn contains(&mut self, k: u64) -> Option<bool> { Some(self.0.contains_key(&ckey(self.1, k))) }
    fn len(&mut self) -> Option<usize> {
        let n = self.0.len();
        if self.0.is_empty() != (n == 0) { return Some(usize::MAX); }
        Some(n)
    }
    fn iter(&mut self) -> Option<Vec<(u64, u64)>> { Some(self.0.iter().map(|(k, v)| (k.id, *v)).collect()) }
    fn clear(&mut self) -> Option<()> { self.0.clear(); Some(()) }
}

/// SmallMap<u8, V>: the specialised lookup `get_fast` (vectorised key search) stands in for get
struct SmU8(SmallMap<u8, u64>);
impl Mut for SmU8 {
    fn insert(&mut self, k: u64, v: u64) -> Option<R<Option<u64>>> { Some(self.0.insert(k as u8, v).map_err(|e| format!("{:?}", e))) }
    fn remove(&mut self, k: u64) -> Option<R<Option<u64>>> { Some(Ok(self.0.remove(&(k as u8)))) }
    fn get(&mut self, k: u64) -> Option<Option<u64>> { Some(self.0.get_fast(&(k as u8)).copied()) }
    fn get_mut_set(&mut self, k: u64, v: u64) -> Option<Option<u64>> { Some(self.0.get_mut(&(k as u8)).map(|r| std::mem::replace(r, v))) }
    fn contains(&mut self, k: u64) -> Option<bool> { Some(self.0.contains_key(&(k as u8))) }
    fn len(&mut self) -> Option<usize> { Some(self.0.len()) }
    fn iter(&mut self) -> Option<Vec<(u64, u64)>> { Some(self.0.iter().map(|(k, v)| (*k as u64, *v)).collect()) }
    fn clear(&mut self) -> Option<()> { self.0.clear(); Some(()) }
}

/// EasyHashMap: put has no return value; get_mut is offered as get_or_insert on a present key
struct Easy(EasyHashMap<CKey, u64>, u64);
impl Mut for Easy {
    fn insert(&mut self, k: u64, v: u64) -> Option<R<Option<u64>>> {
        let old = self.0.get(&ckey(self.1, k)).copied();
        self.0.put(ckey(self.1, k), v);
        Some(Ok(old))
    }
    fn remove(&mut self, k: u64) -> Option<R<Option<u64>>> { Some(Ok(self.0.remove(&ckey(self.1, k)))) }
    fn get(&mut self, k: u64) -> Option<Option<u64>> { Some(self.0.get(&ckey(self.1, k)).copied()) }
    fn get_mut_set(&mut self, k: u64, v: u64) -> Option<Option<u64>> {
        if !self.0.contains_key(&ckey(self.1, k)) { return Some(None); }
        match self.0.get_or_insert(ckey(self.1, k), v) {
            Ok(r) => Some(Some(std::mem::replace(r, v))),
            Err(_) => Some(None),
        }
    }
    fn contains(&mut self, k: u64) -> Option<bool> { Some(self.0.contains_key(&ckey(self.1, k))) }
    fn len(&mut self) -> Option<usize> {
        let n = self.0.len();
        if self.0.is_empty() != (n == 0) { return Some(usize::MAX); }
        Some(n)
    }
    fn iter(&mut self) -> Option<Vec<(u64, u64)>> { None }
    fn clear(&mut self) -> Option<()> { self.0.clear(); Some(()) }
    fn maintain(&mut self, w: u64) -> Option<()> { if w % 2 == 0 { self.0.reserve((w % 40) as usize); } else { self.0.shrink_to_fit(); } Some(()) }
}

struct StrM(HashStrMap<u64>);
fn skey(k: u64) -> String { format!("key-{}", k) }
impl Mut for StrM {
    fn insert(&mut self, k: u64, v: u64) -> Option<R<Option<u64>>> {
        Some(if k % 2 == 0 { self.0.insert(&skey(k), v) } else { self.0.insert_string(skey(k), v) }.map_err(|e| format!("{:?}", e)))
    }
    fn remove(&mut self, k: u64) -> Option<R<Option<u64>>> { Some(Ok(self.0.remove(&skey(k)))) }
    fn get(&mut self, k: u64) -> Option<Option<u64>> { Some(self.0.get(&skey(k)).copied()) }
    fn get_mut_set(&mut self, k: u64, v: u64) -> Option<Option<u64>> { Some(self.0.get_mut(&skey(k)).map(|r| std::mem::replace(r, v))) }
    fn contains(&mut self, k: u64) -> Option<bool> { Some(self.0.contains_key(&skey(k))) }
    fn len(&mut self) -> Option<usize> {
        let n = self.0.len();
        if self.0.is_empty() != (n == 0) { return Some(usize::MAX); }
        Some(n)
    }
    fn iter(&mut self) -> Option<Vec<(u64, u64)>> {
        Some(self.0.iter().map(|(k, v)| (k.trim_start_matches("key-").parse::<u64>().unwrap_or(u64::MAX), *v)).collect())
    }
    fn clear(&mut self) -> Option<()> { self.0.clear(); Some(()) }
    fn maintain(&mut self, _w: u64) -> Option<()> { self.0.shrink_to_fit(); Some(()) }
}

// ---------------------------------------------------------------------------------------------
// cells
// ---------------------------------------------------------------------------------------------
/// (cell family, variant) -> name, status, constructor.  `aux` = hasher mode (zip) or collide mode.
const ZIP_VARIANTS: u64 = 12;
fn zip_config(variant: u64) -> (String, ZiporaHashMapConfig, Option<u64>, bool) {
    // returns (name, config, model initial capacity if standard storage, is_stub)
    let std_cfg = |cap: usize| {
        let mut c = ZiporaHashMapConfig::default();
        c.initial_capacity = cap;
        c.storage_strategy = StorageStrategy::Standard { initial_capacity: cap, growth_factor: 2.0 };
        c
    };
    match variant {
        0 => ("default".into(), ZiporaHashMapConfig::default(), Some(16), false),
        1 => {
            let pool = SecureMemoryPool::new(SecurePoolConfig::small_secure()).expect("pool");
            ("pool".into(), ZiporaHashMapConfig::concurrent_pool(pool), Some(64), false)
        }
        2 => ("cache_optimized".into(), ZiporaHashMapConfig::cache_optimized(), None, true),
        3 => ("string_optimized".into(), ZiporaHashMapConfig::string_optimized(), None, true),
        4 => ("small_inline".into(), ZiporaHashMapConfig::small_inline(4), None, true),
        5 => ("standard_cap32".into(), std_cfg(32), Some(32), false),
        6 => ("standard_cap0".into(), std_cfg(0), Some(0), false),
        7 => ("standard_cap3".into(), std_cfg(3), Some(3), false),
        8 => ("standard_cap10".into(), std_cfg(10), Some(10), false),   // not a power of two after clear()
        9 => ("standard_cap24".into(), std_cfg(24), Some(24), false),   // mask 23: probe path skips slots
        10 => ("standard_cap100".into(), std_cfg(100), Some(100), false),
        _ => {
            let mut c = std_cfg(16);
            c.hash_strategy = HashStrategy::LinearProbing { max_probe_distance: 8, cache_aligned: false };
            c.optimization_strategy = OptimizationStrategy::Standard;
            ("standard_linear_probing".into(), c, Some(16), false)
        }
    }
}

const GOLD_VARIANTS: u64 = 9;
fn gold_config(variant: u64) -> (String, GoldHashMapConfig, bool) {
    let custom = |cap: usize, lf: f32, cache: bool, gc: bool, reuse: bool| GoldHashMapConfig {
        initial_capacity: cap, load_factor: lf, enable_hash_cache: cache, enable_auto_gc: gc,
        enable_freelist_reuse: reuse, default_iteration_strategy: IterationStrategy::Safe,
    };
    match variant {
        0 => ("default".into(), GoldHashMapConfig::default(), false),
        1 => ("small".into(), GoldHashMapConfig::small(), false),
        2 => ("large".into(), GoldHashMapConfig::large(), false),
        3 => ("high_churn".into(), GoldHashMapConfig::high_churn(), false),
        4 => ("cap1_lf0.5_cache_gc".into(), custom(1, 0.5, true, true, true), false),
        5 => ("cap5_lf0.9_noreuse".into(), custom(5, 0.9, false, false, false), false),
        6 => ("cap5_lf0.1_cache_noreuse_gc".into(), custom(5, 0.1, true, true, false), false),
        7 => ("default_u64link".into(), GoldHashMapConfig::default(), true),
        _ => ("high_churn_cache_u64link".into(), { let mut c = GoldHashMapConfig::high_churn(); c.enable_hash_cache = true; c }, true),
    }
}

#[derive(Clone)]
enum ModelDesc {
    Std { mode: u64, cap: u64 },
    Stub,
    Small,
    Gold { cap0: u64, cache: bool, gc: bool, reuse: bool, lf: f32, collide: u64 },
    Easy { cap: u64, auto: bool, num: u64, den: u64 },
    Idx { cap: u64 },
}
struct Cell { name: String, status: &'static str, model: Option<ModelDesc>, stub: bool, map: Box<dyn Mut> }

const GOLD_PRIMES: [u64; 13] = [5, 11, 23, 47, 97, 199, 409, 823, 1741, 3469, 6949, 14033, 28411];
fn default_hash(k: &CKey) -> u64 {
    let mut h = std::collections::hash_map::DefaultHasher::new();
    k.hash(&mut h);
    h.finish()
}

fn make_cell(family: &str, variant: u64, aux: u64) -> Cell {
    match family {
        "zip" => {
            let (name, cfg, cap, stub) = zip_config(variant);
            let m = ZiporaHashMap::<u64, u64, ModeBuild>::with_config_and_hasher(cfg, ModeBuild(aux)).expect("with_config_and_hasher");
            let model = if stub { Some(ModelDesc::Stub) } else { cap.map(|c| ModelDesc::Std { mode: aux, cap: c }) };
            Cell { name: format!("ZiporaHashMap/{}", name), status: if stub { "finding" } else { "M+S" }, model, stub, map: Box::new(Zip(m)) }
        }
        "zipstr" => {
            let (name, cfg, _, stub) = zip_config(variant);
            let m = ZiporaHashMap::<String, u64, ModeBuild>::with_config_and_hasher(cfg, ModeBuild(aux)).expect("with_config_and_hasher");
            Cell { name: format!("ZiporaHashMap<String>/{}", name), status: if stub { "finding" } else { "S-only" }, model: None, stub, map: Box::new(ZipStr(m)) }
        }
        "zipcap" => {
            // ZiporaHashMap::with_capacity(n) needs S: Default, i.e. hasher mode 0
            let n = variant as usize;
            let m = ZiporaHashMap::<u64, u64, ModeBuild>::with_capacity(n).expect("with_capacity");
            Cell { name: "ZiporaHashMap/with_capacity".into(), status: "M+S", model: Some(ModelDesc::Std { mode: 0, cap: n.max(16) as u64 }), stub: false, map: Box::new(Zip(m)) }
        }
        "gold" => {
            let (name, cfg, wide) = gold_config(variant);
            let model = Some(ModelDesc::Gold { cap0: cfg.initial_capacity as u64, cache: cfg.enable_hash_cache, gc: cfg.enable_auto_gc,
                                               reuse: cfg.enable_freelist_reuse, lf: cfg.load_factor, collide: aux });
            let map: Box<dyn Mut> = if wide { Box::new(Gold::<u64>(GoldHashMap::with_config(cfg), aux)) } else { Box::new(Gold::<u32>(GoldHashMap::with_config(cfg), aux)) };
            Cell { name: format!("GoldHashMap/{}", name), status: "M+S", model, stub: false, map }
        }
        "idx" => {
            let m = match variant { 0 => GoldHashIdx::new(), 1 => GoldHashIdx::with_capacity(1),
                _ => GoldHashIdx::with_pool(16, SecureMemoryPool::new(SecurePoolConfig::small_secure()).expect("pool")) };
            Cell { name: format!("GoldHashIdx/{}", ["new", "with_capacity1", "with_pool"][variant.min(2) as usize]), status: "M+S", model: Some(ModelDesc::Idx { cap: [16u64, 1, 16][variant.min(2) as usize] }), stub: false, map: Box::new(Idx(m, aux)) }
        }
        "small_u8" => Cell { name: "SmallMap<u8>/get_fast".into(), status: "S-only", model: None, stub: false, map: Box::new(SmU8(SmallMap::new())) },
        "small" => Cell { name: "SmallMap".into(), status: "M+S", model: Some(ModelDesc::Small), stub: false, map: Box::new(Sm(SmallMap::new(), aux)) },
        "easy" => {
            let (m, desc) = match variant {
                0 => (EasyHashMap::new(), ModelDesc::Easy { cap: 16, auto: true, num: 3, den: 4 }),
                1 => (EasyHashMap::with_default(7), ModelDesc::Easy { cap: 16, auto: true, num: 3, den: 4 }),
                2 => (EasyHashMap::initial_capacity(100).build(), ModelDesc::Easy { cap: 100, auto: true, num: 3, den: 4 }),
                3 => (EasyHashMap::initial_capacity(16).max_load_factor(0.1).build(), ModelDesc::Easy { cap: 16, auto: true, num: 1, den: 10 }),
                _ => (EasyHashMap::initial_capacity(20).auto_grow(false).build(), ModelDesc::Easy { cap: 20, auto: false, num: 3, den: 4 }),
            };
            Cell { name: format!("EasyHashMap/{}", ["new", "with_default", "cap100", "cap16_lf0.1", "cap20_nogrow"][variant.min(4) as usize]), status: "M+S", model: Some(desc), stub: false, map: Box::new(Easy(m, aux)) }
        }
        _ => {
            let m = if variant == 0 { HashStrMap::new() } else { HashStrMap::with_capacity(3) };
            Cell { name: "HashStrMap".into(), status: "S-only", model: None, stub: false, map: Box::new(StrM(m)) }
        }
    }
}

// ---------------------------------------------------------------------------------------------
// one history
// ---------------------------------------------------------------------------------------------
struct Ctx { sum: Summary, shards: CoqShards, budget: usize, strict: bool }

fn coq_on(x: Option<u64>) -> String { match x { Some(v) => format!("ORes (Some {})", v), None => "ORes None".into() } }

/// Runs `ops` on a fresh map of the cell and compares every answer with a BTreeMap.
fn history(cx: &mut Ctx, family: &str, variant: u64, aux: u64, ops: &[(u64, u64, u64)], coq: bool) {
    let cj = json!({"cell": family, "variant": variant, "aux": aux,
                    "ops": ops.iter().map(|(c, k, v)| json!([c, k, v])).collect::<Vec<_>>()});
    let made = guarded(|| make_cell(family, variant, aux));
    let mut cell = match made {
        Ok(c) => c,
        Err(p) => { cx.sum.fail(&format!("{}/{}", family, variant), None, cj, &format!("constructor panicked: {}", p)); return; }
    };
    let name = cell.name.clone();
    let distinct_keys = { let mut ks: Vec<u64> = ops.iter().filter(|o| o.0 == 0).map(|o| o.1).collect(); ks.sort(); ks.dedup(); ks.len() };
    let has_rm_reinsert = ops.iter().enumerate().any(|(i, o)| o.0 == 1 && ops[i + 1..].iter().any(|p| p.0 == 0 && p.1 == o.1));
    cx.sum.eval(&name, &format!("{} {} {:?}", name, aux, ops), ops.len() >= 3);
    cx.sum.cell_status(&name, cell.status);
    cx.sum.dist_max("max_distinct_keys_inserted", distinct_keys as u64);
    cx.sum.dist_max("max_history_len", ops.len() as u64);
    if has_rm_reinsert { cx.sum.dist("histories_with_remove_then_reinsert"); }

    let mut shadow: BTreeMap<u64, u64> = BTreeMap::new();
    let mut obs: Vec<String> = vec![];      // observations as Coq terms (model comparison)
    let mut offered: Vec<bool> = vec![];    // operations the type does not offer are left out of the model comparison
    let mut failure: Option<String> = None;
    let mut stub_like = true;               // every answer so far is what an empty map would say
    let mut maintained = false;             // a housekeeping operation (shrink_to_fit / reserve / revoke_deleted) was executed
    for (i, &(c, k, v)) in ops.iter().enumerate() {
        let m = &mut cell.map;
        let step: Result<Option<(String, Option<String>)>, String> = guarded(|| {
            // returns (coq observation, oracle complaint)
            match c {
                0 => m.insert(k, v).map(|r| {
                    let want = shadow.get(&k).copied();
                    match r {
                        Ok(got) => (coq_on(got), if got != want { Some(format!("insert({},{}) returned {:?}, a map returns {:?}", k, v, got, want)) } else { None }),
                        Err(e) => ("OErr".to_string(), Some(format!("insert({},{}) returned Err({})", k, v, e))),
                    }
                }),
                1 => m.remove(k).map(|r| {
                    let want = shadow.get(&k).copied();
                    match r {
                        Ok(got) => (coq_on(got), if got != want { Some(format!("remove({}) returned {:?}, a map returns {:?}", k, got, want)) } else { None }),
                        Err(e) => ("OErr".to_string(), Some(format!("remove({}) returned Err({})", k, e))),
                    }
                }),
                2 => m.get(k).map(|got| { let want = shadow.get(&k).copied();
                    (coq_on(got), if got != want { Some(format!("get({}) = {:?}, a map holds {:?}", k, got, want)) } else { None }) }),
                3 => m.get_mut_set(k, v).map(|got| { let want = shadow.get(&k).copied();
                    (coq_on(got), if got != want { Some(format!("get_mut({}) = {:?}, a map holds {:?}", k, got, want)) } else { None }) }),
                4 => m.contains(k).map(|got| { let want = shadow.contains_key(&k);
                    (format!("OBool {}", coq_bool(got)), if got != want { Some(format!("contains_key({}) = {}, a map says {}", k, got, want)) } else { None }) }),
                5 => m.len().map(|got| { let want = shadow.len();
                    (format!("OLen {}", got as u128), if got != want { Some(if got == usize::MAX { "is_empty() disagrees with len()".to_string() } else { format!("len() = {}, a map has {} live keys", got, want) }) } else { None }) }),
                6 => m.iter().map(|mut got| {
                    got.sort();
                    let want: Vec<(u64, u64)> = shadow.iter().map(|(a, b)| (*a, *b)).collect();
                    let term = format!("OIter [{}]", got.iter().map(|(a, b)| format!("({}, {})", a, b)).collect::<Vec<_>>().join("; "));
                    (term, if got != want { Some(format!("iteration yields {:?}, the live entries are {:?}", &got[..got.len().min(12)], &want[..want.len().min(12)])) } else { None }) }),
                8 => m.maintain(v).map(|_| ("OMaint".to_string(), None)),
                _ => m.clear().map(|_| ("OUnit".to_string(), None)),
            }
        });
        match step {
            Err(p) => { failure = Some(format!("op {} {:?} panicked: {}", i, (c, k, v), p)); break; }
            Ok(None) => { /* operation not offered by this type: skipped on both sides */
                obs.push("OUnit".into()); offered.push(false); continue; }
            Ok(Some((term, _))) if term == "OMaint" => {
                // housekeeping has no counterpart in the models: left out of the model comparison (like an operation the type
                // does not offer), and the layout observables of such a history are not compared
                maintained = true; obs.push("OUnit".into()); offered.push(false); continue; }
            Ok(Some((term, complaint))) => {
                let empty_answer = matches!(term.as_str(), "ORes None" | "OBool false" | "OLen 0" | "OIter []" | "OUnit");
                if !empty_answer { stub_like = false; }
                obs.push(term); offered.push(true);
                if let Some(msg) = complaint { failure = Some(format!("op {}: {}", i, msg)); break; }
            }
        }
        // the shadow map
        match c {
            0 => { shadow.insert(k, v); }
            1 => { shadow.remove(&k); }
            3 => { if let Some(r) = shadow.get_mut(&k) { *r = v; } }
            7 => { shadow.clear(); }
            _ => {}
        }
    }
    if let Some(msg) = &failure {
        // the three unimplemented storage strategies: listed only while they behave exactly like the stub
        let class = if cell.stub && stub_like { Some("stub_storage_strategy") } else { None };
        cx.sum.fail(&name, class, cj.clone(), msg);
    }
    // model comparison: the prefix of the history that produced observations, plus (for complete
    // histories) internal observables: iteration in the order yielded, capacity, deleted count
    if let Some(desc) = cell.model.clone() {
        if coq && !obs.is_empty() {
            let n = obs.len();
            // layout observables (slot/entry order, capacity, deleted count) are compared in the thorough tier only:
            // a property-preserving change of growth policy or slot order is then reported as model drift
            // (no-failing-input-found) there, and not at all in the quick tier
            let fin = if failure.is_none() && cx.strict && !maintained { guarded(|| cell.map.raw()).ok().flatten() } else { None };
            let kvs = |v: &[(u64, u64)]| format!("[{}]", v.iter().map(|(a, b)| format!("({}, {})", a, b)).collect::<Vec<_>>().join("; "));
            let (kind, params, tables): (u64, Vec<u64>, Vec<String>) = match desc {
                ModelDesc::Std { mode, cap } => match &fin {
                    Some((it, sc)) => (0, vec![mode, cap, 1, sc[0]], vec![kvs(it)]),
                    None => (0, vec![mode, cap, 0, 0], vec![]),
                },
                ModelDesc::Stub => (1, vec![], vec![]),
                ModelDesc::Small => (2, vec![], vec![]),
                ModelDesc::Idx { cap } => (5, vec![cap], vec![]),
                ModelDesc::Easy { cap, auto, num, den } => (4, vec![cap, auto as u64, num, den], vec![]),
                ModelDesc::Gold { cap0, cache, gc, reuse, lf, collide } => {
                    let mut ks: Vec<u64> = ops[..n].iter().map(|o| o.1).collect(); ks.sort(); ks.dedup();
                    let hs: Vec<(u64, u64)> = ks.iter().map(|&k| (k, default_hash(&ckey(collide, k)))).collect();
                    let ml: Vec<(u64, u64)> = GOLD_PRIMES.iter().map(|&p| (p, (p as f32 * lf) as usize as u64)).collect();
                    let (has, it, b, d) = match &fin { Some((it, sc)) => (1, it.clone(), sc[0], sc[1]), None => (0, vec![], 0, 0) };
                    (3, vec![cap0, cache as u64, gc as u64, reuse as u64, has, b, d], vec![kvs(&it), kvs(&hs), kvs(&ml)])
                }
            };
            let ops_coq: Vec<String> = ops[..n].iter().enumerate().filter(|(i, _)| offered[*i]).map(|(_, (c, k, v))| format!("({}, {}, {})", c, k, v)).collect();
            let obs_coq: Vec<String> = obs.iter().enumerate().filter(|(i, _)| offered[*i]).map(|(_, o)| o.clone()).collect();
            let term = format!("({}, {}, [{}], [{}], [{}])", kind, coq_n_list(params.iter().map(|&x| x as u128)),
                               tables.join("; "), ops_coq.join("; "), obs_coq.join("; "));
            cx.shards.push(term, cj);
        }
    }
}

// ---------------------------------------------------------------------------------------------
// generators
// ---------------------------------------------------------------------------------------------
fn gen_history(r: &mut Rng, max_len: u64) -> Vec<(u64, u64, u64)> {
    // key universes: tiny (forces re-insertion after delete), small, growth-forcing, marker-adjacent
    let universe: Vec<u64> = match r.below(6) {
        0 => vec![0, 1, 2],
        1 => (0..8).collect(),
        2 => (0..40).collect(),
        3 => (0..130).collect(),
        4 => vec![0, 1, 16, 17, 32, 33, 48, u64::MAX, u64::MAX - 1, 15, 31],
        _ => (0..20).map(|i| i * 16).collect(),
    };
    let n = r.range(3, max_len);
    let fill_first = r.chance(1, 3);
    let mut ops = vec![];
    let mut next_val = 100u64;
    if fill_first {
        // fill up to a growth boundary first, then churn
        let target = *r.pick(&[8usize, 9, 15, 16, 17, 33, 65]);
        for &k in universe.iter().take(target) { next_val += 1; ops.push((0, k, next_val)); }
    }
    for _ in 0..n {
        let k = *r.pick(&universe);
        next_val += 1;
        let c = match r.below(100) { 0..=34 => 0, 35..=59 => 1, 60..=72 => 2, 73..=79 => 3, 80..=84 => 4, 85..=89 => 5, 90..=94 => 6, 95..=96 => 7, _ => 8 };
        ops.push((c, k, next_val));
    }
    ops.push((5, 0, 0));
    ops.push((6, 0, 0));
    for &k in universe.iter().take(48) { ops.push((2, k, 0)); }
    ops
}

/// a large fill (past the rehash points of the big presets: GoldHashMap::large rehashes at 721 entries,
/// the standard storage grows 16 -> 2048), a sweep of removals, partial re-insertion, then a full read-back
fn gen_big(r: &mut Rng) -> Vec<(u64, u64, u64)> {
    let n = *r.pick(&[300u64, 800, 1500]);
    let stride = *r.pick(&[1u64, 16, 7]);
    let mut ops = vec![];
    for i in 0..n { ops.push((0, i * stride, 1000 + i)); }
    let every = r.range(2, 5);
    for i in 0..n { if i % every == 0 { ops.push((1, i * stride, 0)); } }
    ops.push((5, 0, 0));
    for i in 0..n { if i % (every * 2) == 0 { ops.push((0, i * stride, 5000 + i)); } }
    ops.push((5, 0, 0));
    ops.push((6, 0, 0));
    for i in 0..n { ops.push((2, i * stride, 0)); }
    ops
}

/// every history of length <= depth over {insert,remove,get} x 3 keys, each followed by a full read-back
fn enumerate(depth: usize, keys: &[u64], mut f: impl FnMut(&[(u64, u64, u64)])) {
    let alphabet: Vec<(u64, u64)> = keys.iter().flat_map(|&k| vec![(0u64, k), (1, k), (2, k)]).collect();
    let mut idx = vec![0usize; depth];
    for len in 1..=depth {
        for x in idx.iter_mut() { *x = 0; }
        loop {
            let mut ops: Vec<(u64, u64, u64)> = (0..len).map(|i| { let (c, k) = alphabet[idx[i]]; (c, k, 10 + i as u64) }).collect();
            ops.push((5, 0, 0)); ops.push((6, 0, 0));
            for &k in keys { ops.push((2, k, 0)); }
            f(&ops);
            let mut p = 0;
            while p < len { idx[p] += 1; if idx[p] < alphabet.len() { break; } idx[p] = 0; p += 1; }
            if p == len { break; }
        }
    }
}

fn parse_ops(c: &Value) -> Vec<(u64, u64, u64)> {
    c["ops"].as_array().map(|a| a.iter().map(|o| (o[0].as_u64().unwrap_or(0), o[1].as_u64().unwrap_or(0), o[2].as_u64().unwrap_or(0))).collect()).unwrap_or_default()
}
fn run_one(cx: &mut Ctx, c: &Value) {
    let fam = c["cell"].as_str().unwrap_or("zip").to_string();
    history(cx, &fam, c["variant"].as_u64().unwrap_or(0), c["aux"].as_u64().unwrap_or(0), &parse_ops(c), true);
}

pub fn run(args: &Args) {
    let mut cx = Ctx {
        sum: Summary::new("C06", "operation histories (insert/remove/get/get_mut/contains_key/len/iter/clear, 3..100 ops plus a full read-back) over key universes of 3, 8, 40, 130 keys, marker-adjacent keys and one-home-slot keys, on every map type and preset; ZiporaHashMap under ten caller-supplied hashers (mixing, identity, constant 0, constant u64::MAX, mod 4, two keys on the markers, k<<60, MAX-(k mod 3), 16*(k mod 3), mod 2), the other maps with collisions forced through the key's Hash impl; enumerated: every history of <= 5 (quick: 4/5) insert/remove/get steps over 3 colliding keys; each answer compared with a BTreeMap, iteration as a sorted list; non-trivial = history of >= 3 operations"),
        shards: CoqShards::new(HEADER, 150),
        budget: if args.thorough { 9000 } else { 1200 },
        strict: args.thorough,
    };
    let mut rng = Rng::new(args.seed);
    if let Some(f) = &args.replay {
        let v: Value = serde_json::from_str(&std::fs::read_to_string(f).expect("replay file")).expect("json");
        let c = if v.get("case").is_some() { v["case"].clone() } else { v };
        run_one(&mut cx, &c);
        let sh = cx.shards.write(&args.out);
        cx.sum.write(&args.out, sh);
        return;
    }
    // corpus: witnesses of the defects that were fixed or recorded
    for dir in ["corpus/C06", "/verif/corpus/C06"] {
        if let Ok(rd) = std::fs::read_dir(dir) {
            let mut files: Vec<_> = rd.filter_map(|e| e.ok()).map(|e| e.path()).filter(|p| p.extension().map(|e| e == "json").unwrap_or(false)).collect();
            files.sort();
            for p in files {
                if let Ok(v) = serde_json::from_str::<Value>(&std::fs::read_to_string(&p).unwrap_or_default()) {
                    let c = if v.get("case").is_some() { v["case"].clone() } else { v };
                    run_one(&mut cx, &c);
                    cx.sum.dist("corpus_cases");
                }
            }
            break;
        }
    }
    // enumerated small universe
    let depth = if args.thorough { 5 } else { 4 };
    let keys = [1u64, 17, 33];
    let mut count = 0u64;
    let mut all: Vec<Vec<(u64, u64, u64)>> = vec![];
    enumerate(depth + 1, &keys, |ops| all.push(ops.to_vec()));
    let stride = (all.len() / (cx.budget / 8).max(1)).max(1); // a sample of the enumeration goes to Coq
    for (n, ops) in all.iter().enumerate() {
        let long = ops.len() > depth + 5; // depth+1 histories only for the standard storage
        let coq = n % stride == 0;
        // constant-home-slot hasher (mode 8 maps 1,17,33 to 16,32,0 -> all slot 0 under mask 15) and mod 2
        history(&mut cx, "zip", 0, 8, ops, coq);
        count += 1;
        if long { continue; }
        history(&mut cx, "zip", 0, 9, ops, coq);
        history(&mut cx, "gold", 0, 2, ops, coq && n % (2 * stride) == 0);
        history(&mut cx, "gold", 3, 2, ops, false);
        history(&mut cx, "idx", 0, 2, ops, coq && n % (2 * stride) == stride);
        history(&mut cx, "small", 0, 2, ops, false);
    }
    // SmallMap<u8>::get_fast: every fill level 0..=9 of the inline array, lookups of absent keys (0 and 255 included)
    for fill in 0..=9u64 {
        for base in [1u64, 0, 200] {
            let mut ops: Vec<(u64, u64, u64)> = (0..fill).map(|i| (0, (base + i) % 256, 100 + i)).collect();
            for probe in [0u64, 255, 7, base, (base + fill) % 256, (base + 20) % 256] { ops.push((2, probe, 0)); }
            ops.push((5, 0, 0));
            history(&mut cx, "small_u8", 0, 0, &ops, false);
            if fill > 0 {
                let mut ops2 = ops.clone();
                ops2.push((1, base % 256, 0));
                for probe in [0u64, 255, base, (base + 1) % 256] { ops2.push((2, probe, 0)); }
                history(&mut cx, "small_u8", 0, 0, &ops2, false);
            }
        }
    }
    cx.sum.dist_max("enumerated_histories", count);

    // generated histories
    let rounds = if args.thorough { 4000 } else { 260 };
    for i in 0..rounds {
        let room = cx.shards.len() < cx.budget;
        let max_len = if i % 4 == 0 { 100 } else { 40 };
        let ops = gen_history(&mut rng, max_len);
        if i < 2 { cx.sum.sample(json!({"history": ops.iter().take(10).map(|(c, k, v)| json!([c, k, v])).collect::<Vec<_>>() })); }
        // ZiporaHashMap: every preset x a hasher
        for variant in 0..ZIP_VARIANTS {
            let mode = if rng.chance(1, 2) { (i + variant) % N_HASHERS } else { rng.below(N_HASHERS) };
            history(&mut cx, "zip", variant, mode, &ops, room && (variant + i) % 3 == 0);
        }
        for variant in [0u64, 1, 3, 9] { history(&mut cx, "zipstr", variant, rng.below(N_HASHERS), &ops, false); }
        let n = *rng.pick(&[0u64, 1, 16, 17, 24, 31, 33, 64, 100]);
        history(&mut cx, "zipcap", n, 0, &ops, room);
        for variant in 0..GOLD_VARIANTS { history(&mut cx, "gold", variant, rng.below(4), &ops, room && (variant + i) % 4 == 1 && ops.len() <= 120); }
        for variant in 0..3 { history(&mut cx, "idx", variant, rng.below(4), &ops, room && (variant + i) % 3 == 0 && ops.len() <= 120); }
        history(&mut cx, "small", 0, rng.below(4), &ops, room);
        if ops.iter().all(|o| o.1 < 256) { history(&mut cx, "small_u8", 0, 0, &ops, false); }
        for variant in 0..5 { history(&mut cx, "easy", variant, rng.below(4), &ops, room && (variant + i) % 5 == 2 && ops.len() <= 120); }
        history(&mut cx, "str", i % 2, 0, &ops, false);
    }
    // large fills on every cell (one Coq evaluation of the smallest)
    let bigs = if args.thorough { 12 } else { 2 };
    for i in 0..bigs {
        let ops = gen_big(&mut rng);
        cx.sum.dist("big_fill_histories");
        for variant in 0..ZIP_VARIANTS { history(&mut cx, "zip", variant, [0u64, 1, 6, 4][(i + variant as usize) % 4], &ops, false); }
        history(&mut cx, "zipcap", 1000, 0, &ops, false);
        for variant in 0..GOLD_VARIANTS { history(&mut cx, "gold", variant, [0u64, 1][i % 2], &ops, false); }
        for variant in 0..3 { history(&mut cx, "idx", variant, 0, &ops, false); }
        history(&mut cx, "small", 0, 0, &ops, false);
        for variant in 0..5 { history(&mut cx, "easy", variant, 0, &ops, false); }
        history(&mut cx, "str", 0, 0, &ops, false);
    }
    cx.sum.dist_max("coq_cases", cx.shards.len() as u64);
    let sh = cx.shards.write(&args.out);
    cx.sum.write(&args.out, sh);
}
