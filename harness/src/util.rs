//! Shared helpers: PRNG, Coq term printing, panic capture, summaries.
use serde_json::{json, Value};
use std::collections::BTreeMap;
use std::collections::HashSet;
use std::fmt::Write as _;
use std::panic::{catch_unwind, AssertUnwindSafe};

/// splitmix64: every random choice of a run derives from one state.
#[derive(Clone)]
pub struct Rng(pub u64);
impl Rng {
    pub fn new(seed: u64) -> Self {
        Rng(seed.wrapping_mul(0x9E3779B97F4A7C15).wrapping_add(0x1234_5678_9ABC_DEF1))
    }
    pub fn next(&mut self) -> u64 {
        self.0 = self.0.wrapping_add(0x9E3779B97F4A7C15);
        let mut z = self.0;
        z = (z ^ (z >> 30)).wrapping_mul(0xBF58476D1CE4E5B9);
        z = (z ^ (z >> 27)).wrapping_mul(0x94D049BB133111EB);
        z ^ (z >> 31)
    }
    pub fn below(&mut self, n: u64) -> u64 {
        if n == 0 { 0 } else { self.next() % n }
    }
    pub fn range(&mut self, lo: u64, hi: u64) -> u64 {
        lo + self.below(hi - lo + 1)
    }
    pub fn chance(&mut self, num: u64, den: u64) -> bool {
        self.below(den) < num
    }
    pub fn pick<'a, T>(&mut self, xs: &'a [T]) -> &'a T {
        &xs[self.below(xs.len() as u64) as usize]
    }
    pub fn bytes(&mut self, n: usize) -> Vec<u8> {
        (0..n).map(|_| self.next() as u8).collect()
    }
}

pub fn quiet_panics() {
    std::panic::set_hook(Box::new(|_| {}));
}

/// Run f, mapping a panic to Err(message).
pub fn guarded<T>(f: impl FnOnce() -> T) -> Result<T, String> {
    match catch_unwind(AssertUnwindSafe(f)) {
        Ok(v) => Ok(v),
        Err(e) => {
            let msg = if let Some(s) = e.downcast_ref::<&str>() {
                s.to_string()
            } else if let Some(s) = e.downcast_ref::<String>() {
                s.clone()
            } else {
                "panic".to_string()
            };
            Err(msg)
        }
    }
}

// ---------- Coq term printing ----------
pub fn coq_n_list<I: IntoIterator<Item = u128>>(xs: I) -> String {
    let mut s = String::from("[");
    let mut first = true;
    for x in xs {
        if !first { s.push_str("; "); }
        first = false;
        write!(s, "{}", x).unwrap();
    }
    s.push_str("]%N");
    s
}
pub fn coq_bytes(xs: &[u8]) -> String {
    coq_n_list(xs.iter().map(|&b| b as u128))
}
pub fn coq_z(x: i128) -> String {
    if x < 0 { format!("({})%Z", x) } else { format!("{}%Z", x) }
}
pub fn coq_z_list<I: IntoIterator<Item = i128>>(xs: I) -> String {
    let mut s = String::from("[");
    let mut first = true;
    for x in xs {
        if !first { s.push_str("; "); }
        first = false;
        if x < 0 { write!(s, "({})", x).unwrap(); } else { write!(s, "{}", x).unwrap(); }
    }
    s.push_str("]%Z");
    s
}
pub fn coq_opt(x: Option<String>) -> String {
    match x { Some(s) => format!("(Some {})", s), None => "None".to_string() }
}
pub fn coq_bool(b: bool) -> &'static str { if b { "true" } else { "false" } }

/// A shard of cases to be evaluated inside Coq.  `header` imports the model and
/// defines `ok : case -> bool`; each case is a Coq term of the case type.
pub struct CoqShards {
    pub header: String,
    pub per_shard: usize,
    terms: Vec<String>,
    cases: Vec<Value>,
}
impl CoqShards {
    pub fn new(header: &str, per_shard: usize) -> Self {
        CoqShards { header: header.to_string(), per_shard, terms: vec![], cases: vec![] }
    }
    pub fn push(&mut self, term: String, case: Value) {
        self.terms.push(term);
        self.cases.push(case);
    }
    pub fn len(&self) -> usize { self.terms.len() }
    /// Writes cases_<k>.v and cases_<k>.json into dir; returns shard descriptors.
    pub fn write(&self, dir: &str) -> Vec<Value> {
        let mut out = vec![];
        let mut k = 0;
        let mut i = 0;
        while i < self.terms.len() {
            let j = (i + self.per_shard).min(self.terms.len());
            let mut s = String::new();
            s.push_str(&self.header);
            s.push('\n');
            for (n, t) in self.terms[i..j].iter().enumerate() {
                writeln!(s, "Definition c{} : case_t := {}.", n, t).unwrap();
            }
            s.push_str("Definition all_cases := [");
            for n in 0..(j - i) {
                if n > 0 { s.push_str("; "); }
                write!(s, "c{}", n).unwrap();
            }
            s.push_str("].\n");
            s.push_str("Definition bad := Eval vm_compute in mismatches ok all_cases.\n");
            s.push_str("Print bad.\n");
            let vf = format!("{}/cases_{}.v", dir, k);
            std::fs::write(&vf, s).unwrap();
            let jf = format!("{}/cases_{}.json", dir, k);
            std::fs::write(&jf, serde_json::to_string(&self.cases[i..j]).unwrap()).unwrap();
            out.push(json!({"v": vf, "json": jf, "n": j - i}));
            i = j;
            k += 1;
        }
        out
    }
}

/// Accumulates what a run covered and what it found.
pub struct Summary {
    pub property: String,
    pub evaluations: u64,
    distinct: HashSet<u64>,
    pub rule: String,
    pub samples: Vec<Value>,
    pub distribution: BTreeMap<String, u64>,
    pub cells: BTreeMap<String, (u64, String)>,
    pub failures: Vec<Value>,
    pub known_hits: BTreeMap<String, u64>,
    pub notes: Vec<String>,
    pub max_failures: usize,
}
fn fnv(s: &str) -> u64 {
    let mut h: u64 = 0xcbf29ce484222325;
    for b in s.bytes() { h ^= b as u64; h = h.wrapping_mul(0x100000001b3); }
    h
}
impl Summary {
    pub fn new(property: &str, rule: &str) -> Self {
        Summary {
            property: property.to_string(), evaluations: 0, distinct: HashSet::new(),
            rule: rule.to_string(), samples: vec![], distribution: BTreeMap::new(),
            cells: BTreeMap::new(), failures: vec![], known_hits: BTreeMap::new(),
            notes: vec![], max_failures: 40,
        }
    }
    /// Count one evaluated case.  `key` is the canonical text of the case;
    /// `nontrivial` says whether it reaches a non-trivial branch by the property's rule.
    pub fn eval(&mut self, cell: &str, key: &str, nontrivial: bool) {
        self.evaluations += 1;
        if nontrivial { self.distinct.insert(fnv(key)); }
        self.cells.entry(cell.to_string()).or_insert((0, "M+S".to_string())).0 += 1;
    }
    pub fn cell_status(&mut self, cell: &str, status: &str) {
        self.cells.entry(cell.to_string()).or_insert((0, status.to_string())).1 = status.to_string();
    }
    pub fn dist(&mut self, k: &str) { *self.distribution.entry(k.to_string()).or_insert(0) += 1; }
    pub fn dist_max(&mut self, k: &str, v: u64) {
        let e = self.distribution.entry(k.to_string()).or_insert(0);
        if v > *e { *e = v; }
    }
    pub fn sample(&mut self, v: Value) { if self.samples.len() < 8 { self.samples.push(v); } }
    /// Record a case on which the implementation breaks the property.
    /// `class` names the known-finding class the case falls in, if any.
    pub fn fail(&mut self, cell: &str, class: Option<&str>, case: Value, detail: &str) {
        if let Some(c) = class {
            *self.known_hits.entry(c.to_string()).or_insert(0) += 1;
        }
        let n_same = self.failures.iter().filter(|f| f["class"] == json!(class) && f["cell"] == json!(cell)).count();
        // The verdict of `check` is read from these records, so records of listed finding classes must never crowd out a
        // failure outside every class: classed records share `max_failures` minus a reserve, unclassed ones have a quota of
        // their own, and the first record of any class is always kept (a class the findings file does not list is unlisted too).
        let n_classed = self.failures.iter().filter(|f| !f["class"].is_null()).count();
        let n_unclassed = self.failures.len() - n_classed;
        let first_of_class = !self.failures.iter().any(|f| f["class"] == json!(class));
        let room = if class.is_some() { n_classed < self.max_failures.saturating_sub(16).max(8) } else { n_unclassed < self.max_failures.max(24) };
        if first_of_class || (n_same < 3 && room) {
            self.failures.push(json!({"cell": cell, "class": class, "case": case, "detail": detail}));
        } else if class.is_none() {
            *self.distribution.entry("unlisted_failures_not_shown".to_string()).or_insert(0) += 1;
        }
    }
    pub fn write(&self, dir: &str, shards: Vec<Value>) {
        let cells: BTreeMap<_, _> = self.cells.iter()
            .map(|(k, (n, st))| (k.clone(), json!({"cases": n, "status": st}))).collect();
        let v = json!({
            "property": self.property,
            "evaluations": self.evaluations,
            "distinct_nontrivial": self.distinct.len(),
            "rule": self.rule,
            "samples": self.samples,
            "distribution": self.distribution,
            "cells": cells,
            "failures": self.failures,
            "known_hits": self.known_hits,
            "notes": self.notes,
            "shards": shards,
        });
        std::fs::write(format!("{}/summary.json", dir), serde_json::to_string_pretty(&v).unwrap()).unwrap();
    }
}

pub struct Args {
    pub seed: u64,
    pub thorough: bool,
    pub out: String,
    pub replay: Option<String>,
}
