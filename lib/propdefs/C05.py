"""Configuration of the C05 check (see lib/props.py)."""
P = {'id': 'C05',
 'level': 'proof',
 'theorems': ['ptrie_refines_set',
              'ptrie_reachable_related',
              'contains_is_membership',
              'len_is_card',
              'insert_adds_exactly',
              'remove_removes_exactly',
              'reinsertion_idempotent',
              'remove_then_reinsert',
              'unlink_preserves_others',
              'fsa_accepts_is_contains',
              'fsa_agrees',
              'walk_injective',
              's_longest_prefix_spec',
              'keys_enumerates',
              'keys_no_duplicates',
              'prefix_query_exact',
              'prefix_no_duplicates',
              'walk_depth_bound',
              'louds_refines_set',
              'sparse_refines_set',
              'sparse_remove_refuted',
              'louds_remove_refuted',
              'louds_fsa_refuted',
              'louds_long_key_refuted',
              'critbit_stub_refuted',
              'clone_preserves',
              'ptrie_refines_set_with_clone',
              'fsa_longest_prefix_correct',
              'fsa_generic_is_patricia',
              'da_refines_set',
              'da_reachable_related',
              'da_insert_adds_exactly',
              'da_relocation_preserves_keys',
              'da_lookup_is_view',
              'da_contains_is_lookup',
              'da_remove_refuted',
              'da_keys_enumerates',
              'da_prefix_query_exact',
              'da_keys_no_duplicates',
              'da_clone_preserves',
              'da_refines_set_with_clone',
              'cs_refines_set',
              'cs_reachable_related',
              'cs_insert_adds_exactly',
              'cs_keys_enumerates',
              'cs_prefix_query_exact',
              'cs_keys_no_duplicates',
              'cs_clone_preserves',
              'cs_remove_refuted',
              'da_refines_set_noop_remove',
              'cs_refines_set_noop_remove',
              'da_insert_err_only_when_huge',
              'da_noerr_or_huge'],
 'trusted': ['modelled (M+S): src/fsa/zipora_trie.rs Patricia storage as written, i.e. an uncompressed 256-ary trie over a node vector '
             '(insert_patricia_actual, contains_patricia_actual, remove_patricia_actual incl. the bottom-up cleanup, keys_patricia_actual / '
             'collect_keys_patricia_recursive, keys_with_prefix_patricia_actual, impl Trie::insert num_keys, ZiporaTrie::remove, impl FiniteStateAutomaton '
             'is_final/transition with the default accepts / longest_prefix of src/fsa/traits.rs): default and cache_optimized presets, custom Patricia '
             'configs, the Trie-trait face, PatriciaTrie / CritBitTrie aliases',
             'modelled (M+S): DoubleArray storage as written (coq/C05/ModelDa.v: base/check words with terminal and free bit, create_storage, '
             'insert_double_array with its three create-transition branches, find_free_base, relocate_state incl. the 10000-attempt search loop and the two '
             'move loops, update_grandchildren_check_values, contains_double_array, is_final / transition, keys_double_array_actual / '
             'keys_with_prefix_double_array_actual / collect_keys_double_array_recursive, impl Trie::insert num_keys, remove = Ok(false), impl Clone) for the '
             'concurrent_high_performance preset, the custom DoubleArray config and the DoubleArrayTrie wrapper (two capacities)',
             'modelled (M+S): CompressedSparse storage, twice: as the node-vector trie without remove (Model.v) and as written, a trie over HashMap<StateId, '
             'SparseNode> (coq/C05/ModelCs.v: insert_compressed_sparse with ids = max + 1, contains_compressed_sparse, is_final / transition, keys / '
             'keys_with_prefix, clone), for sparse_optimized, custom config, CompressedSparseTrie wrapper; LOUDS storage as a flat [len][bytes] record buffer '
             '(insert_louds, contains_louds_internal, keys_louds_actual after fix c7ec3ed, stub FSA view) for space_optimized, custom config, NestedLoudsTrie '
             'wrapper; CriticalBit stubs (finding)',
             'modelled once for every storage (coq/C05/ModelFsa.v): the default FiniteStateAutomaton::accepts / longest_prefix and Trie::lookup of '
             'src/fsa/traits.rs as a walk over an arbitrary transition / is_final; the double-array and hash-map models answer accepts / longest_prefix '
             'through it',
             'spec-only cells (direct BTreeSet oracle, no mechanism model): NestedTrieDawg (Trie::insert and build_from_keys), SimpleDawg, ParallelLoudsTrie '
             '(single-threaded tokio runtime)',
             'oracle only, inside the same histories (no step of the models: replayed in Coq as an insert or as a no-op): the secondary entry points - '
             'insert_and_get_node_id / Trie::insert of the wrappers / insert_with_token / bulk_insert, Trie::contains / Trie::lookup / *_with_token / '
             'parallel_contains / parallel_process, PrefixIterable / parallel_prefix_search, the walk over root / transitions / is_final, lookup_node_id + '
             'restore_string, the double-array accessors, is_empty, stats().num_keys, shrink_to_fit / refresh_replicas, bulk rebuild through every builder / '
             'build_from_keys / from_trie / merge_tries, clear; the varied cells (every configuration field and constructor drawn from boundary values) run the '
             'modelled storages and take their turn in the Coq replay; key sets of up to 70000 keys / more than 2^16 nodes are oracle only',
             'histories whose keys exceed 100 bytes are not replayed on the node-vector and LOUDS models (the double-array and hash-map models replay every '
             'generated length); state ids are unbounded nat / N in the models; the u32 words of the double array are N with & | and saturating_add written '
             'out'],
 'assumptions': ['agreement of model and code (every observation of every op of the generated histories) is established on the generated histories only',
                 'keys are byte strings (symbols < 256) in the theorems about insert; lookups are proved for arbitrary symbol lists',
                 'u32 state ids / usize counters do not overflow (2^32 nodes are out of reach); for the double array this is proved, not assumed: under the '
                 'invariant every array stays below MAX_STATE = 2^31 - 2 slots and every base below MAX_BASE',
                 'da_refines_set assumes that no insert of the history returned Err (d_noerr): by da_noerr_or_huge that can only happen once an array has grown '
                 'to the capacity of the 31-bit format (2 147 483 133 slots); index panics of the double-array code are not modelled separately (an out-of-range read yields the '
                 'fill word, every index is in range under the invariant); state_count / free_list / transitions() of the double array are not modelled'],
 'level_text': 'Machine-checked Coq theorems, by induction over arbitrary operation histories, about Gallina restatements of the trie code as written: the '
               'Patricia-storage ZiporaTrie (in fact an uncompressed 256-ary node-vector trie) started empty answers every history of insert / remove / '
               'contains / len / accepts / longest_prefix exactly like the set of keys inserted and not removed (ptrie_refines_set), under an explicit shape '
               'invariant with ghost node addresses; keys() and keys_with_prefix(p) enumerate exactly the members (with prefix p) once each; the cleanup of '
               'remove never changes another lookup. The double-array storage (base/check arrays, terminal and free bits, growth, find_free_base, the three '
               'insert branches, relocate_state with its search loop, the move of children with their bases and terminal bits and the re-parenting of '
               'grandchildren) refines the set for every history in which no insert reports an error (da_refines_set, da_relocation_preserves_keys; invariant: '
               "one ghost address per used slot, every used slot inside its parent's 256-window, arrays below MAX_STATE slots), with keys / keys_with_prefix / "
               'clone. The compressed-sparse storage as a trie over hash maps refines the set for every history (cs_refines_set; its insert never errs). The '
               'default accepts / longest_prefix of traits.rs are correct over any automaton whose language is the set (fsa_longest_prefix_correct). The LOUDS '
               'record buffer refines the set on the operations it implements; refutation theorems for the recorded findings. The models are tied to the '
               'compiled code on every run by replaying generated histories in Coq (vm_compute) and comparing every observation; a BTreeSet oracle decides the '
               'property directly on every preset, wrapper and alias. Proof is the right level because the quantifier is all histories over all byte strings.',
 'level_note': 'Trusted: Coq kernel + vm_compute; the hand-written models; harness generators and oracle. The DAWG types and ParallelLoudsTrie are covered by '
               'the oracle only (labelled S-only).',
 'technique': 'Coq proof (refinement by induction on histories, ghost-address shape invariants, frame lemmas for link insertion/removal; for the double array '
              'a slot-by-slot closed form of the relocation loops and a language view "ghost addresses of the used terminal slots") + model/implementation '
              'differential check on operation histories by vm_compute + BTreeSet differential oracle for all cells',
 'explanation': 'Unbounded refinement theorems for the Patricia, double-array, sparse (two models) and LOUDS storages as written and for the default FSA walk; '
                'differential oracle for every TrieStrategy preset, custom config and legacy wrapper; stubs and missing remove recorded as narrow finding '
                'classes; eleven small defects repaired by fix: commits (one of them, the relocation limit of the double array, predicted by the model and confirmed by a scratch probe; five found by widening the oracle to the secondary entry points).'}
