"""Configuration of the C05 check (see lib/props.py)."""
P = {'id': 'C05',
 'level': 'proof',
 'theorems': ['ptrie_refines_set', 'ptrie_reachable_related', 'contains_is_membership', 'len_is_card', 'insert_adds_exactly', 'remove_removes_exactly', 'reinsertion_idempotent', 'remove_then_reinsert', 'unlink_preserves_others', 'fsa_accepts_is_contains', 'fsa_agrees', 'walk_injective', 's_longest_prefix_spec', 'keys_enumerates', 'keys_no_duplicates', 'prefix_query_exact', 'prefix_no_duplicates', 'walk_depth_bound', 'louds_refines_set', 'sparse_refines_set', 'sparse_remove_refuted', 'louds_remove_refuted', 'louds_fsa_refuted', 'louds_long_key_refuted', 'critbit_stub_refuted', 'clone_preserves', 'ptrie_refines_set_with_clone', 'fsa_longest_prefix_correct', 'fsa_generic_is_patricia', 'da_refines_set', 'da_reachable_related', 'da_insert_adds_exactly', 'da_relocation_preserves_keys', 'da_lookup_is_view', 'da_contains_is_lookup', 'da_remove_refuted', 'da_keys_enumerates', 'da_prefix_query_exact', 'da_keys_no_duplicates', 'da_clone_preserves', 'da_refines_set_with_clone', 'cs_refines_set', 'cs_reachable_related', 'cs_insert_adds_exactly', 'cs_keys_enumerates', 'cs_prefix_query_exact', 'cs_keys_no_duplicates', 'cs_clone_preserves', 'cs_remove_refuted'],
 'trusted': ['modelled (M+S): src/fsa/zipora_trie.rs Patricia storage as written, i.e. an uncompressed 256-ary trie over a node vector '
             '(insert_patricia_actual, contains_patricia_actual, remove_patricia_actual incl. the bottom-up cleanup, keys_patricia_actual / '
             'collect_keys_patricia_recursive, keys_with_prefix_patricia_actual, impl Trie::insert num_keys, ZiporaTrie::remove, impl FiniteStateAutomaton '
             'is_final/transition with the default accepts / longest_prefix of src/fsa/traits.rs): default and cache_optimized presets, custom Patricia '
             'configs, the Trie-trait face, PatriciaTrie / CritBitTrie aliases',
             'modelled (M+S): CompressedSparse storage (same trie, remove is a no-op) for sparse_optimized, custom config, CompressedSparseTrie wrapper; LOUDS '
             'storage as a flat [len][bytes] record buffer (insert_louds, contains_louds_internal, keys_louds_actual after fix c7ec3ed, stub FSA view) for '
             'space_optimized, custom config, NestedLoudsTrie wrapper; CriticalBit stubs (finding)',
             'spec-only cells (direct BTreeSet oracle, no mechanism model): DoubleArray storage (concurrent_high_performance preset, custom config, '
             'DoubleArrayTrie wrapper with two capacities), NestedTrieDawg (Trie::insert and build_from_keys), SimpleDawg, ParallelLoudsTrie (single-threaded '
             'tokio runtime)',
             'histories whose keys exceed 100 bytes are decided by the oracle only (not replayed in Coq); state ids are unbounded nat in the model'],
 'assumptions': ['agreement of model and code (every observation of every op of the generated histories) is established on the generated histories only',
                 'keys are byte strings (symbols < 256) in the theorems about insert; lookups are proved for arbitrary symbol lists',
                 'u32 state ids / usize counters do not overflow (2^32 nodes are out of reach)'],
 'level_text': 'Machine-checked Coq theorems, by induction over arbitrary operation histories, about a Gallina restatement of the trie code as written: the '
               'Patricia-storage ZiporaTrie (in fact an uncompressed 256-ary node-vector trie) started empty answers every history of insert / remove / '
               'contains / len / accepts / longest_prefix exactly like the set of keys inserted and not removed (ptrie_refines_set), under an explicit shape '
               'invariant with ghost node addresses; keys() and keys_with_prefix(p) enumerate exactly the members (with prefix p) once each; the cleanup of '
               'remove never changes another lookup; the automaton view agrees; the LOUDS record buffer and the compressed-sparse storage refine the set on '
               'the operations they implement; refutation theorems for the recorded findings. The model is tied to the compiled code on every run by replaying '
               'generated histories in Coq (vm_compute) and comparing every observation; a BTreeSet oracle decides the property directly on every preset, '
               'wrapper and alias. Proof is the right level because the quantifier is all histories over all byte strings.',
 'level_note': 'Trusted: Coq kernel + vm_compute; the hand-written model; harness generators and oracle. Double-array storage and the DAWG types are covered '
               'by the oracle only (labelled S-only).',
 'technique': 'Coq proof (refinement by induction on histories, ghost-address shape invariant, frame lemmas for link insertion/removal) + model/implementation '
              'differential check on operation histories by vm_compute + BTreeSet differential oracle for all cells',
 'explanation': 'Unbounded refinement theorems for the Patricia, sparse and LOUDS storages as written; differential oracle for every TrieStrategy preset, '
                'custom config and legacy wrapper; stubs and missing remove recorded as narrow finding classes; five small defects repaired by fix: commits.'}
