"""Configuration of the C05 check (see lib/props.py)."""
P = {'id': 'C05',
 'level': 'proof',
 'theorems': ['ptrie_refines_set', 'ptrie_reachable_related', 'contains_is_membership', 'len_is_card', 'insert_adds_exactly', 'remove_removes_exactly', 'reinsertion_idempotent', 'remove_then_reinsert', 'unlink_preserves_others', 'fsa_accepts_is_contains', 'fsa_agrees', 'walk_injective', 's_longest_prefix_spec', 'keys_enumerates', 'keys_no_duplicates', 'prefix_query_exact', 'prefix_no_duplicates', 'walk_depth_bound', 'louds_refines_set', 'sparse_refines_set', 'sparse_remove_refuted', 'louds_remove_refuted', 'louds_fsa_refuted', 'louds_long_key_refuted', 'critbit_stub_refuted'],
 'trusted': ['modelled (M+S): src/fsa/zipora_trie.rs Patricia storage'],
 'assumptions': ['agreement of model and code is established on the generated histories only'],
 'level_text': 'wip',
 'level_note': 'wip',
 'technique': 'Coq proof + model/implementation differential check on operation histories by vm_compute; differential oracle for S-only cells',
 'explanation': 'wip'}
