"""Configuration of the C05 check (see lib/props.py)."""
P = {'id': 'C05',
 'level': 'proof',
 'theorems': ['fsa_accepts_is_contains', 'walk_injective'],
 'trusted': ['modelled (M+S): src/fsa/zipora_trie.rs Patricia storage'],
 'assumptions': ['agreement of model and code is established on the generated histories only'],
 'level_text': 'wip',
 'level_note': 'wip',
 'technique': 'Coq proof + model/implementation differential check on operation histories by vm_compute; differential oracle for S-only cells',
 'explanation': 'wip'}
