"""Configuration of the C02 check (see lib/props.py)."""
P = {'id': 'C02',
 'level': 'proof',
 'theorems': ['write_bits_refines',
              'read_bits_refines',
              'match_roundtrip',
              'matches_roundtrip',
              'encode_matches_defined',
              'bits_len_ge_8',
              'decode_matches_padding_refuted',
              'far3long_len_refused',
              'hybrid_roundtrip',
              'hybrid_refuted_nothing_helped',
              'huffman_frame_roundtrip',
              'legacy_stream_roundtrip',
              'far1short_old_reader_refuted',
              'rans_compressor_refuted',
              'normalize_not_idempotent',
              'rans_compressor_roundtrip',
              'rans_frame_roundtrip',
              'rans_counts_u16_refuted',
              'dict_compressor_roundtrip',
              'huffman_compressor_roundtrip',
              'huffman_tree_serialize_roundtrip',
              'huffman_size_u16_refuted',
              'hybrid_compressor_roundtrip',
              'realtime_block_roundtrip',
              'realtime_tag_names_producer',
              'realtime_batch_roundtrip',
              'adaptive_roundtrip',
              'adaptive_history_total',
              'adaptive_zero_interval_refuted',
              'realtime_stale_block_limit',
              'simd_copy_is_lz_copy',
              'simd_copy_periodic',
              'simd_tokens_roundtrip',
              'simd_tokens_padding_err',
              'simd_decode_padding_refuted',
              'simd_stream_roundtrip',
              'simd_lz77_roundtrip',
              'simd_covers_unless_early',
              'simd_find_never_fuel',
              'simd_token_defined',
              'simd_compress_defined',
              'simd_reconstruct_fast_eq',
              'simd_decompress_fast_eq',
              'simd_lz77_literal_refuted',
              'simd_lz77_rle_refuted',
              'simd_lz77_padding_refuted',
              'simd_lz77_early_termination_refuted',
              'simd_lz77_roundtrip_g',
              'pazip_sequential_roundtrip',
              'pazip_compress_roundtrip',
              'pazip_compress_roundtrip_real',
              'pazip_answer_ok_guarded',
              'pazip_guarded_candidates_fit',
              'pazip_unguarded_candidate_unfit',
              'pazip_far2long_len65536_refuted',
              'pazip_blockwise_old_refuted',
              'pazip_global_guard_needed',
              'pazip_compress_as_replay',
              'pazip_choose_type_true_match'],
 'coq_deps': ['C01'],
 'trusted': ['modelled (M+S): src/compression/dict_zip/compression_types.rs (CompressionType::supports, Match::validate, BitWriter, BitReader, '
             'encode/decode_variable_length, encode_match, decode_match, encode_matches, decode_matches) bit-exact; src/compression/mod.rs '
             'HybridCompressor::{compress,decompress} over arbitrary component codecs, the HuffmanCompressor header layout over an arbitrary tree '
             '(de)serialiser and entropy coder; src/entropy/rans.rs Rans64Encoder::normalize_frequencies as applied to the RansCompressor header',
             'modelled by the extension (M+S): RansCompressor, DictCompressor, HuffmanCompressor end to end (src/compression/mod.rs; HuffmanTree::serialize/deserialize of '
             'src/entropy/huffman.rs with both HashMap iteration orders as parameters) composed with the coder models of coq/C01; HybridCompressor over these three components; '
             'RealtimeCompressor and AdaptiveCompressor as decision automata (clock readings and cost-model outcome as inputs); PaZipCompressor::compress legacy path '
             '(candidate strategies with their guards, choose_best_compression_type complete, per-position loop, block-wise path) over abstract match finders and an abstract '
             'selector; SimdLz77Compressor inherent compress/decompress (token stream, guard-3 decode loop, reconstruction with placeholder literals)',
             'spec-only cells (direct oracle, no mechanism model): CompressorFactory x {None, Lz4, Zstd(-5,1,3,9,19), SimdLz77 trait impl} end to end; '
             'PaZipCompressor x 6 presets x 3 dictionary builders end to end with the real match finders (the loop is tied through hooks verif_candidates / '
             'verif_apply_strategy, the block-wise path at its real sizes is observed by the oracle only)',
             'not modelled: zstd, lz4 (feature off in the default build: the factory hands out a compressor that refuses, counted as not obtainable), the PA-Zip match finders '
             '(suffix-array dictionary, DFA cache, local matcher: their answers are inputs of the model; the theorem asks only that they are true matches), the f64 cost models '
             '(PA-Zip selector, adaptive scores, SIMD LZ77 early-termination average: abstract inputs), the SIMD LZ77 pattern search, '
             'wall-clock behaviour of the real-time front end (every clock comparison is an input of the automaton; the harness forces passed and distant deadlines and batches that overrun)'],
 'assumptions': ['u8/u16/u32 field types of Match are the predicate wt; usize is 64 bits',
                 'agreement of model and code is established on the generated cases only (encode_matches output bytes, decode_matches on encoded and on '
                 'arbitrary bytes incl. Err/Panic outcomes, hybrid tag and length, normalised rANS tables, the MAX_*/MIN_* constants, PA-Zip record bytes per strategy and decompress on record streams '
                 'and on arbitrary byte streams; compressor frames from the counts of the instance / tree bytes, front-end calls explained by some allowed clock reading, adaptive histories, '
                 'PA-Zip candidate lists and replays of the selected strategies, SIMD LZ77 decompress on real, crafted and arbitrary streams)',
                 'component codecs of the front ends (zstd, lz4, none) enter the real-time / adaptive theorems through their round-trip law (hypothesis codec_ok); the Huffman / rANS / '
                 'dictionary components of the hybrid compressor are discharged by theorems',
                 'payloads of at most MAX_DECOMPRESSED_SIZE (100 MiB) for the rANS / dictionary / hybrid compressors, below 2^32 bytes for Huffman, training corpora below 2^32 bytes (u32 counts)'],
 'level_text': 'Machine-checked Coq theorems about a bit-exact Gallina model of the PA-Zip match codec: BitWriter/BitReader refine a little-endian bit '
               'stream; for all 8 match kinds and every field value decode_match inverts encode_match and reports the same bit count; for every list of '
               'matches decode_matches(encode_matches(ms)) = (ms, total bits), with the exact domain on which the encoder succeeds; every match takes 8..59 '
               'bits. Framing theorems for the compressor layer over arbitrary component codecs: the hybrid selector with its stored-data marker round-trips '
               'whatever branch it takes; the Huffman header layout round-trips; every parse of a payload into PA-Zip byte-level records (literal, RLE, '
               'near/far short/long, global) whose fields fit their casts decodes to the payload; refutation theorems (with witnesses replayed on the code) for the four '
               'defects that were repaired (padding bits read as a match, Far3Long length masked, rANS table normalised twice, hybrid raw fallback tagged 0). '
               'The model is tied to the code by evaluating generated cases in Coq against what the implementation returned. '
               'Extension: the trained compressors end to end over the C01 coder theorems (rans_compressor_roundtrip incl. an instance trained on other data, dict_compressor_roundtrip, '
               'huffman_compressor_roundtrip over any heap behaviour and any HashMap order, hybrid_compressor_roundtrip with the component laws discharged), the real-time and adaptive front '
               'ends as automata (realtime_block_roundtrip, realtime_batch_roundtrip, realtime_tag_names_producer, adaptive_roundtrip for every history), PaZipCompressor::compress over abstract '
               'true-match finders for every configuration and block size (pazip_compress_roundtrip), the SIMD LZ77 token stream with the exact conditions under which it loses data; refutations '
               'for every narrower field layout / missing guard that was tried or repaired. zstd / lz4 / None and the PA-Zip presets with the real match finders remain oracle-only (S-only).',
 'level_note': 'Trusted: Coq kernel + vm_compute; hand-written model; harness generators and the round-trip oracle. Entropy coders and zstd are parameters '
               '(Section variables / record fields) of the framing theorems.',
 'technique': 'Coq proof by refinement of the bit writer/reader to arithmetic on a little-endian number (lia/nia), induction over field lists and match '
              'lists; model/implementation differential check by vm_compute; direct round-trip oracle over every compressor, configuration and front end',
 'explanation': 'Unbounded theorems for the PA-Zip bit-level codec, the byte-level record format and the compress loop, the trained compressors end to end over the C01 coders, '
                'the hybrid selector, the real-time / adaptive front ends and the SIMD LZ77 token stream; round-trip oracle for zstd / lz4 and the real match finders.'}
