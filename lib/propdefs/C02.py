"""Configuration of the C02 check (see lib/props.py)."""
P = {'id': 'C02',
 'level': 'proof',
 'theorems': ['write_bits_refines',
              'read_bits_refines',
              'match_roundtrip',
              'matches_roundtrip',
              'encode_matches_defined',
              'bits_len_ge_8',
              'decode_matches_padding_refuted',
              'far3long_len_refused',
              'hybrid_roundtrip',
              'hybrid_refuted_nothing_helped',
              'huffman_frame_roundtrip',
              'legacy_stream_roundtrip',
              'far1short_old_reader_refuted',
              'rans_compressor_refuted',
              'normalize_not_idempotent',
              'rans_compressor_roundtrip',
              'rans_frame_roundtrip',
              'rans_counts_u16_refuted',
              'dict_compressor_roundtrip',
              'huffman_compressor_roundtrip',
              'huffman_tree_serialize_roundtrip',
              'huffman_size_u16_refuted',
              'hybrid_compressor_roundtrip',
              'realtime_block_roundtrip',
              'realtime_tag_names_producer',
              'realtime_batch_roundtrip',
              'adaptive_roundtrip',
              'adaptive_history_total',
              'adaptive_zero_interval_refuted',
              'realtime_stale_block_limit',
              'simd_copy_is_lz_copy',
              'simd_copy_periodic',
              'simd_tokens_roundtrip',
              'simd_tokens_padding_err',
              'simd_decode_padding_refuted',
              'simd_stream_roundtrip',
              'simd_lz77_roundtrip',
              'simd_covers_unless_early',
              'simd_find_never_fuel',
              'simd_token_defined',
              'simd_compress_defined',
              'simd_reconstruct_fast_eq',
              'simd_decompress_fast_eq',
              'simd_lz77_literal_refuted',
              'simd_lz77_rle_refuted',
              'simd_lz77_padding_refuted',
              'simd_lz77_early_termination_refuted',
              'simd_lz77_roundtrip_g',
              'pazip_sequential_roundtrip',
              'pazip_compress_roundtrip',
              'pazip_compress_roundtrip_real',
              'pazip_answer_ok_guarded',
              'pazip_guarded_candidates_fit',
              'pazip_unguarded_candidate_unfit',
              'pazip_far2long_len65536_refuted',
              'pazip_blockwise_old_refuted',
              'pazip_global_guard_needed',
              'pazip_compress_as_replay',
              'pazip_choose_type_true_match'],
 'coq_deps': ['C01'],
 'trusted': ['modelled (M+S): src/compression/dict_zip/compression_types.rs (CompressionType::supports, Match::validate, BitWriter, BitReader, '
             'encode/decode_variable_length, encode_match, decode_match, encode_matches, decode_matches) bit-exact; src/compression/mod.rs '
             'HybridCompressor::{compress,decompress} over arbitrary component codecs, the HuffmanCompressor header layout over an arbitrary tree '
             '(de)serialiser and entropy coder; src/entropy/rans.rs Rans64Encoder::normalize_frequencies as applied to the RansCompressor header',
             'spec-only cells (direct oracle, no mechanism model): CompressorFactory x {None, Lz4, Zstd(-5,1,3,9,19), Huffman, Rans, Dictionary, SimdLz77, Hybrid} '
             'end to end incl. a second instance trained on other data decoding Huffman/rANS output; AdaptiveCompressor and RealtimeCompressor operation '
             'histories (algorithm/mode switches, passed and distant deadlines); PaZipCompressor x 6 presets x 3 dictionary builders; '
             'SimdLz77Compressor inherent compress/decompress',
             'not modelled: the entropy coders themselves (Huffman, rANS, dictionary: property C01), zstd, lz4 (feature off in the default build: the '
             'factory hands out a compressor that refuses, counted as not obtainable), PA-Zip match selection (suffix-array dictionary, local matcher, '
             'cost model; Local strategies are unreachable through compress because the local matcher is never fed - their records are exercised '
             'through the hook), '
             'wall-clock behaviour of the real-time front end (deadlines are forced to both outcomes instead)'],
 'assumptions': ['u8/u16/u32 field types of Match are the predicate wt; usize is 64 bits',
                 'agreement of model and code is established on the generated cases only (encode_matches output bytes, decode_matches on encoded and on '
                 'arbitrary bytes incl. Err/Panic outcomes, hybrid tag and length, normalised rANS tables, the MAX_*/MIN_* constants, PA-Zip record bytes per strategy and decompress on record streams '
                 'and on arbitrary byte streams)'],
 'level_text': 'Machine-checked Coq theorems about a bit-exact Gallina model of the PA-Zip match codec: BitWriter/BitReader refine a little-endian bit '
               'stream; for all 8 match kinds and every field value decode_match inverts encode_match and reports the same bit count; for every list of '
               'matches decode_matches(encode_matches(ms)) = (ms, total bits), with the exact domain on which the encoder succeeds; every match takes 8..59 '
               'bits. Framing theorems for the compressor layer over arbitrary component codecs: the hybrid selector with its stored-data marker round-trips '
               'whatever branch it takes; the Huffman header layout round-trips; every parse of a payload into PA-Zip byte-level records (literal, RLE, '
               'near/far short/long, global) whose fields fit their casts decodes to the payload; refutation theorems (with witnesses replayed on the code) for the four '
               'defects that were repaired (padding bits read as a match, Far3Long length masked, rANS table normalised twice, hybrid raw fallback tagged 0). '
               'The model is tied to the code by evaluating generated cases in Coq against what the implementation returned. All other compressors and front '
               'ends are decided by a boundary-biased round-trip oracle only, labelled S-only.',
 'level_note': 'Trusted: Coq kernel + vm_compute; hand-written model; harness generators and the round-trip oracle. Entropy coders and zstd are parameters '
               '(Section variables / record fields) of the framing theorems.',
 'technique': 'Coq proof by refinement of the bit writer/reader to arithmetic on a little-endian number (lia/nia), induction over field lists and match '
              'lists; model/implementation differential check by vm_compute; direct round-trip oracle over every compressor, configuration and front end',
 'explanation': 'Unbounded theorems for the PA-Zip bit-level codec and the hybrid/Huffman/rANS framing; round-trip oracle for everything else.'}
