"""Configuration of the C16 check (see lib/props.py)."""
P = {'id': 'C16',
 'level': 'proof',
 'theorems': ['writer_exclusion',
              'second_writer_refused',
              'min_le_live',
              'reclaim_safe',
              'counters_exact_at_quiescence',
              'counters_zero_when_done',
              'seq_no_dangling',
              'seq_own_tokens',
              'seq_counters_exact',
              'seq_counters_zero',
              'seq_writer_exclusion',
              'solo_acquire_refines',
              'solo_release_refines',
              'two_writers_refuted',
              'min_version_overtakes_refuted',
              'reclaim_unsafe_refuted',
              'dangling_manager_refuted',
              'cache_crosses_managers_refuted',
              'process_safe_items_spec',
              'queue_in_age_order',
              'bulk_reclaim_safe',
              'handed_back_safe',
              'handed_back_safe_after',
              'process_safe_default_is_take_safe',
              'spec_invariants',
              'step_refines',
              'run_refines',
              'property_from_spec',
              'deadlock_free',
              'mutex_free_at_quiescence',
              'counters_exact_at_rest',
              'drain_empties',
              'counters_bounded_always'],
 'trusted': ['modelled (M+S): src/fsa/version_sync.rs VersionManager::{acquire_reader_token, acquire_writer_token, release_reader_token, '
             'release_writer_token, try_advance_min_version} one shared access per step in the code\'s order, token_chain_mutex as an owner field, '
             'LazyFreeList::process_safe_items / LazyFreeItem::can_free; src/fsa/token.rs TokenManager::{acquire_*_token, return_*_token, '
             'clear_thread_cache} with the per-thread TOKEN_CACHE; sequential histories over several managers with the cache shared by all of them; '
             'token::with_reader_token / with_writer_token (acquire through the cache, one schedule point while the closure owns the token, return to the cache), '
             'tokens handed from thread to thread (a mailbox in the shared state: released by another thread than the acquiring one), '
             'LazyFreeList::{with_bulk_threshold, push, process_safe_items with the list\'s own threshold (the loop as written: a threshold of 0 frees one item), '
             'should_bulk_process (2 x threshold, saturating)}, 40-item retirements, clear_all_stats as a no-op on the modelled state; the LazyFreeList alone under '
             'scripts of push / process / gated process / clear_stats / drain (coq/C16/ModelLazy.v)',
             'schedule hooks (cfg zipora_verif, src/fsa/verif_sched.rs + calls in version_sync.rs) are trusted to sit before every shared access of '
             'the modelled functions; the harness scheduler lets exactly one real thread run from one hook to the next',
             'atomics are modelled as sequentially consistent: the Relaxed/Acquire/Release orderings in the code and the hardware memory model are not modelled',
             'not modelled: statistics mutexes and Instant timing, poisoned-mutex paths, a closure of with_*_token that fails or panics, a VersionManager '
             'moved in memory while tokens issued by it are live; the extended sequential histories (cell seqx) and the long generated histories (cell long) are judged by the oracle only'],
 'assumptions': ['fewer than 2^64 acquisitions from one manager (current_version and the active counters do not wrap)',
                 'sequential consistency of the atomics (see trusted)',
                 'agreement of model and code is established on the enumerated and generated schedules only (every step of every run is compared)'],
 'level_text': 'Machine-checked Coq theorems about a small-step model of the version/token protocol (one atomic access, mutex acquisition or mutex '
               'release per step; any number of threads, any programs of acquire/drop/cache/with_*_token/hand-over/retire/(gated) bulk-reclaim operations, any bulk threshold, any schedule): in '
               'OneWriteMultiRead at most one writer token is ever live and a request arriving while one is live is refused; at every level '
               'min_version never exceeds the version of a live token, so process_safe_items(min_version) never frees an item retired at or after a '
               'live token\'s version, and every item that leaves the lazy free list in a step of any interleaving is older than every token live before and after that step '
               '(the queue stays in age order; process_safe_items frees a prefix of it, at most max(1, threshold) items per call, and drains it under repeated calls); the active counters equal the numbers of live tokens whenever no operation is in flight and are zero at the end. '
               'Refinement: every step of the interleaving semantics is a step of a small abstract specification (multisets of live reader / writer versions '
               'and the threshold; acquire, release, advance), whose invariants are the clauses of the property. '
               'These hold for the access order of the code after two fix: commits; for the order of the pinned tree the same model refutes (i) and '
               '(ii) with explicit schedules that also failed on the real code. The model is tied to the code on every run by executing real threads '
               'under explicit schedules (hooks before every shared access) and comparing every step with the model evaluated in Coq.',
 'level_note': 'Trusted: Coq kernel + vm_compute; hand-written model; hook placement; harness scheduler and oracle. For (iv) the model carries the Arc '
               'reference count of each manager state (seq_no_dangling); on the real code every release consults a registry of destroyed manager states '
               '(hook), also at thread exit.',
 'technique': 'Coq: inductive invariant over all reachable states of an interleaving semantics (rely/guarantee-style frame lemmas), forward simulation to an abstract specification (token-conservation lemma per step), refutation by '
              'vm_compute on explicit schedules; controlled-scheduler (baton passing) differential check of real threads against the model; '
              'pre-emption-bounded schedule enumeration + random schedules; direct oracle on observed tokens and counters',
 'explanation': 'Unbounded theorems for the concurrent protocol (incl. with_*_token, hand-over between threads, bulk reclamation with any threshold), a refinement to an abstract specification, deadlock freedom; the lazy free list proved on its own; sequential multi-manager histories checked by model correspondence and oracle.',
 'harness_timeout': 1500}
