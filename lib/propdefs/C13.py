"""Configuration of the C13 check (see lib/props.py)."""
P = {'id': 'C13',
 'level': 'proof',
 'theorems': ['leb128_u64_law',
              'zigzag_roundtrip',
              'zigzag_surjective',
              'zigzag_varint_law',
              'prefix_free_law',
              'prefix_free_signed_law',
              'seq_law',
              'delta_u64_law',
              'delta_u64_refuted',
              'group_varint_refuted',
              'fixed_le_law',
              'fixed_be_law',
              'swap_involutive',
              'be_is_le_of_swap',
              'blob_law',
              'option_law',
              'pair_law',
              'vec32_law',
              'versioned_field_law',
              'version_pack_law',
              'version_pack_refuted',
              'sbr_reads_concat',
              'sbr_initial_stream',
              'sbr_seek_current',
              'range_reads_concat',
              'range_initial_stream',
              'zc_reads_concat',
              'types_law',
              'types_concat_law',
              'record_fields_law',
              'versioned_record_law',
              'vs_accepted_is_record',
              'vs_same_version_accepts',
              'writers_concat',
              'writers_flushed',
              'range_read_is_cursor_read',
              'sbr_over_range_stream',
              'range_writer_confined',
              'range_writer_contiguous',
              'mmap_zc_reads_concat',
              'mmap_zc_set_position'],
 'trusted': ['modelled (M+S): src/io/var_int.rs (VarInt, SignedVarInt), src/io/var_int_variants.rs (all 7 strategies, single values and sequences); '
             'src/io/simd_encoding/varint.rs (batch = concatenation of scalar LEB128); src/io/data_output.rs / data_input.rs item formats (fixed-width LE, '
             'varint, length-prefixed bytes/strings); src/io/endian.rs EndianIO byte layouts (LE/BE, any width) and byte swap; Option / Vec (u32 count) / '
             'versioned-field layouts of complex_types.rs, smart_ptr.rs, versioning.rs; StreamBufferedReader, RangeReader, ZeroCopyReader state machines '
             '(src/io/stream_buffer.rs, range_stream.rs, zero_copy.rs) over an inner cursor with optional short reads; '
             'extension: the serialisable types as one universe of type codes (SerializableType / ComplexSerialize impls of smart_ptr.rs and complex_types.rs: '
             'integers, bool, String, Option, Box, context-free Rc/Arc, Vec / sets / maps, arrays, tuples, Result, the metadata form, arbitrarily nested), '
             'versioned records of versioning.rs (serialize_with_manager / deserialize_with_manager, serialize_versioned / deserialize_versioned, '
             'VersionedSerializer::deserialize_from_bytes with its VersionConfig checks), StreamBufferedWriter and ZeroCopyWriter as state machines over a '
             'short-write inner writer, RangeWriter as a transducer to inner writes (with seeks), a buffered reader stacked on a RangeReader, MmapZeroCopyReader, '
             'the preset readers performance_optimized / low_latency / ZeroCopyReader::new',
             'spec-only (oracle on the real code, no mechanism model): every DataInput/DataOutput back end pairing (Vec, std::io writer/reader, file, append, '
             'mmap output, MmapDataInput, MemoryMappedInput, buffered / zero-copy / range wrappers), tuples up to 12, arrays, Result, HashMap/HashSet/BTreeMap/BTreeSet, '
             'nested collections (as DataInput/DataOutput back ends; their layouts are modelled), ComplexTypeSerializer configurations and batches, Weak pointers and shared-pointer contexts, '
             'VersionProxy ranges, migrations, bulk endian conversion, endianness magic, MultiRangeReader, a RangeReader stacked on a buffered reader, '
             'seeks on the buffered writer, ZeroCopyBuffer on its own, MemoryMappedOutput; second pass (design/C13.md, "Oracle breadth"): preset constructors and configurations, the strategy chooser, '
             'sequences and collections of up to 70 000 elements and inputs of up to 8.6 MB named by (kind, n, seed), VectoredIO, UTF-8 / CRC32C of buffered bytes, '
             'ZeroCopyBuffer, seekable buffered / range / memory-mapped writers, MultiRangeReader range management, context reuse, cross-version records and migrations',
             ],
 'assumptions': ["wrapping (release) arithmetic in the model; the checked profile's panics are observed on the real code by the harness",
                 'agreement of model and code is established on the generated cases only',
                 'the inner reader of the reader models is a std::io::Cursor, optionally limited to k bytes per call; other inner readers are covered by the '
                 'oracle only (files, memory maps, readers stacked on readers)',
                 'reader theorems speak about histories without an error outcome; that plain reads never fail is checked on the real code by the oracle',
                 'type-universe model: strings are byte lists (UTF-8 validation not modelled), maps are the pair list in the iteration order of the serialising '
                 'object, Rc/Arc outside a shared context only, collections below 2^32 elements',
                 'writer theorems: capacity >= 1 and an inner writer that never fails and accepts at least one byte per call (the harness destination); '
                 'histories that end in an error are excluded'],
 'level_text': 'Machine-checked Coq theorems, unbounded (all values / all sequences / all trailing bytes / all operation histories, buffer capacities and '
               'short-read behaviours), about a Gallina restatement of the codecs and readers as written: varint laws, zigzag bijection, prefix-free law, '
               'sequence / option / pair / u32-counted-vector combinators, fixed-width LE/BE integers of any width, byte-swap involution, length-prefixed '
               'byte strings, versioned fields, Version packing (law + refutation), delta law outside the recorded finding class, refutation witnesses for '
               'the recorded findings, "the bytes handed out concatenate to the inner stream (of the range)" for the buffered, the ranged and the zero-copy reader, '
               'the round-trip law for EVERY type code of the serialisable-type universe (one induction on the code), versioned records for every schema and every '
               '(writer version, reading version) pair incl. the VersionedSerializer acceptance logic, "destination ++ buffer = accepted bytes" for every history of '
               'the buffered and the zero-copy writer, confinement of the range writer under every history of writes and seeks, and "a RangeReader over a cursor reads '
               'like a cursor over the range slice". The '
               'model is tied to the compiled code on every run by evaluating thousands of generated cases (values, item scripts, reader histories) in Coq and '
               'comparing with what the implementation returned; a direct oracle (round trip, exact bytes consumed, concatenation, reader = reference slice '
               'under arbitrary read-size histories) runs on the implementation over every back end the property names.',
 'level_note': 'Trusted: Coq kernel + vm_compute; the hand-written models (agreement with the code is checked on generated cases only); harness '
               'generators/oracle; wrapping arithmetic in the model. Spec-only cells are listed under `trusted`; their level is differential testing, not proof.',
 'technique': 'Coq proof (induction over fuelled loops, stream invariants for the reader state machines, lia) + model/implementation differential check evaluated by '
              'vm_compute + direct oracle on the real code with a probe child process for cases that abort',
 'explanation': 'Unbounded Coq theorems about a Gallina restatement of the serialisation codecs and stream readers + differential check of that model against the '
                'compiled code + direct round-trip / bytes-consumed / stream-equality oracle on the code over every named back end.'}
