"""Configuration of the C13 check (see lib/props.py)."""
P = {'id': 'C13',
 'level': 'proof',
 'theorems': ['leb128_u64_law',
              'zigzag_roundtrip',
              'zigzag_surjective',
              'zigzag_varint_law',
              'prefix_free_law',
              'prefix_free_signed_law',
              'seq_law',
              'delta_u64_law',
              'delta_u64_refuted',
              'group_varint_refuted'],
 'trusted': ['modelled: src/io/var_int.rs (VarInt, SignedVarInt), src/io/var_int_variants.rs (all 7 strategies, single values and sequences)',
             'spec-only (oracle, no mechanism model): none yet for data_input/data_output/endian/complex_types/smart_ptr'],
 'assumptions': ["wrapping (release) arithmetic in the model; the checked profile's panics are observed on the real code by the harness",
                 'agreement of model and code is established on the generated cases only'],
 'level_text': 'Machine-checked Coq theorems, for all 2^64 values / all sequences / all trailing bytes, about a Gallina restatement of the varint codecs as '
               'written (unsigned LEB128 law, zigzag bijection, prefix-free law, sequence combinator, delta law outside the recorded finding class, refutation '
               'witnesses for the two findings); the model is tied to the compiled code on every run by evaluating thousands of generated cases in Coq and '
               'comparing with the implementation, and a direct round-trip oracle runs on the implementation. Proof is the right level because the quantifier '
               'is all u64/i64 values and all sequences.',
 'level_note': 'Trusted: Coq kernel + vm_compute; the hand-written model (agreement with the code is checked on generated cases only); harness '
               'generators/oracle; wrapping arithmetic in the model. Not modelled yet: DataInput/DataOutput back ends, endian, complex_types, smart_ptr, '
               'versioned fields, simd_encoding/varint.rs.',
 'technique': 'Coq proof (induction over fuelled LEB128 loops, lia) + model/implementation differential check evaluated by vm_compute',
 'explanation': 'Unbounded Coq theorems about a Gallina restatement of the varint codecs + differential check of that model against the compiled code + direct '
                'round-trip oracle on the code.'}
