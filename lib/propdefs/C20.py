"""Configuration of the C20 check (see lib/props.py)."""
P = {'id': 'C20',
 'level': 'proof',
 'theorems': ['mag_cmp_correct_thm', 'decimal_strcmp_correct', 'decimal_antisym', 'decimal_trans'],
 'trusted': ['modelled (M+S): src/string/numeric_compare.rs (decimal_strcmp, realnum_strcmp and helpers) as byte-list functions',
             'spec-only cells (direct oracle against std, no mechanism model): FastStr, join*, JoinBuilder, words, SortedVecLexIterator, LineProcessor, '
             'LineSplitter, ASCII case conversion'],
 'assumptions': ['the realnum comparator is modelled and differentially checked but its value theorem is not yet proved (exhaustive oracle up to length 3/4 '
                 'stands in)',
                 'agreement of model and code is established on the generated cases only'],
 'level_text': 'Machine-checked Coq theorems that the decimal string comparator, as written, equals comparison of the denoted integers for all strings of any '
               'length (leading zeros, signs, signed zero), returns None exactly on invalid input, and is antisymmetric and transitive; the model (decimal and '
               'real comparators) is tied to the code by evaluating thousands of cases in Coq on every run; the remaining cells (FastStr, join/split, words, '
               'lines, lexicographic iterator, case conversion, realnum value semantics) are decided by an exhaustive/generated differential oracle against '
               'std and exact integer arithmetic, which is weaker than proof and labelled S-only in the evidence.',
 'level_note': 'Trusted: Coq kernel + vm_compute; hand-written model; harness oracle (exact i128 arithmetic for numeric values, std slice/str operations). Not '
               'modelled: SIMD paths of FastStr (hash/compare), streaming iterator, SortableStrVec (shared with C10).',
 'technique': 'Coq proof (digit-string induction, nia) for the decimal comparator + model/implementation differential check by vm_compute + exhaustive '
              'small-universe oracle for the other cells',
 'explanation': 'Unbounded theorems for the decimal comparator; differential + exhaustive oracle for the rest.'}
