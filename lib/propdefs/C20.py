"""Configuration of the C20 check (see lib/props.py)."""
P = {'id': 'C20',
 'level': 'proof',
 'theorems': ['mag_cmp_correct_thm',
              'decimal_strcmp_correct',
              'decimal_antisym',
              'decimal_trans',
              'realnum_strcmp_correct',
              'realnum_antisym',
              'realnum_trans',
              'realnum_le_trans',
              'join_is_intercalate',
              'join_iter_is_intercalate',
              'join_length',
              'split_join',
              'join_split',
              'split_fields_clean',
              'fs_split_spec',
              'fs_split_join',
              'lines_unlines',
              'words_are_maximal_runs',
              'case_maps',
              'to_lower_bmi2_is_map',
              'to_upper_bmi2_is_map',
              'case_length',
              'lex_seek_lower_bound_spec',
              'lex_seek_upper_bound_spec',
              'lex_enumerate_all',
              'lex_lower_bound_walk',
              'lex_upper_bound_walk',
              'fs_find_first_occurrence',
              'fs_find_byte_first',
              'fs_starts_with_spec',
              'fs_ends_with_spec',
              'fs_starts_with_is_find_0',
              'fs_cmp_by_common_prefix',
              'fs_cmp_total_order',
              'fs_slicing',
              'fs_substring_spec',
              'fs_hash_paths_agree',
              'fs_eq_hash_coherent',
              'find_word_boundaries_spec',
              'word_at_position_maximal',
              'lines_cfg_decompose',
              'lines_keep_concat',
              'count_lines_is_length',
              'batches_spec',
              'lines_default_is_lines',
              'utf8_walks',
              'utf8_roundtrip',
              'streaming_enumerates',
              'streaming_unlines',
              'ssv_binary_search_spec',
              'zo_spec',
              'zo_accepts',
              'ssv_push_get',
              'ssv_push_refuses',
              'fast_lex_cmp_is_lex',
              'boundaries_cut'],
 'trusted': ['modelled (M+S): src/string/numeric_compare.rs (decimal_strcmp, realnum_strcmp and helpers); src/string/join.rs '
             '(join/join_str/join_fast_str/JoinBuilder::build as one loop, join_iter/join_bytes_iter as the first-flag loop); LineSplitter::split_optimized '
             'and FastStr::split (SplitIter) ; WordIterator; LineProcessor::read_next_line/process_lines in the default configuration (BufRead::read_line is '
             'part of the model); Bmi2StringProcessor::to_{lower,upper}case_ascii_bmi2 (u64 chunk path with BEXTR/shift/or and the scalar remainder); '
             'SortedVecLexIterator (next/prev/seek_start/seek_end/binary_search_by/seek_lower_bound and the trait-default seek_upper_bound) -- all as '
             'byte-list functions; extension (all M+S): FastStr (slicing arithmetic, find / find_byte, starts_with / ends_with, common_prefix_len, compare, '
             'the AVX2 / SSE2 / portable hash paths with hash_remainder), word-boundary helpers (is_word_boundary, find_word_boundaries, word_at_position), '
             'LineProcessor under every skip_empty / trim / preserve-endings configuration (process_lines, count_lines, process_batches), unicode.rs '
             '(utf8_byte_count, Utf8ToUtf32Iterator, validation count), StreamingLexIterator, SortableStrVec storage (packed 64-bit entries, push / get), '
             'SortableStrVec::binary_search (block path) and fast_lexicographic_cmp (through a cfg(zipora_verif) hook), ZoSortedStrVec (NUL-terminated data + '
             'boundary bits, get, binary_search, lower_bound, range, acceptance test)',
             'spec-only cells (direct oracle against std, no mechanism model): the sorting algorithms of SortableStrVec (comparison sort through std, MSD '
             'radix sort, sort_by_length, sort_by), Unicode case wrappers and UnicodeProcessor, split_lines_by / find_lines / line_utils, LineProcessor buffer '
             'sizes and max_line_length, FastStr conversions',
             'std is trusted where the code delegates to it and is modelled by its specification: str::split in LineSplitter simple strategy (tied to '
             'split_opt by cases), slice cmp / starts_with / ends_with in FastStr, str::from_utf8 + chars() (the UTF-8 validation automaton decode1), '
             'str::trim (a parameter of the line theorems; the Unicode White_Space set in the cases), slice::binary_search_by (any index among equal strings '
             'accepted), RankSelectInterleaved256::select1 (position of the k-th set bit; its layout is C04)'],
 'assumptions': ['strings are lists of bytes < 256; usize arithmetic does not overflow for in-memory strings',
                 'agreement of model and code is established on the generated cases only (about 6000 per quick run, evaluated inside Coq)'],
 'level_text': 'Machine-checked Coq theorems, for inputs of any length: decimal_strcmp and realnum_strcmp, as written, equal comparison of the denoted '
               'integers / rationals (signs, signed zero, leading zeros, trailing fraction zeros, "5." = "5"), return None exactly on invalid input, and are '
               'antisymmetric and transitive (also mixed <=/< transitivity for the real comparator); every join entry point equals the straightforward '
               'intercalation and the precomputed capacity is exact; split(join) = id for every non-empty list whose elements do not contain the separator '
               'byte, join(split) = id for every text, FastStr::split is the plain split minus one trailing empty field; process_lines returns exactly the '
               'lines of any text written with any mix of "\\n" and "\\r\\n" terminators (lone \\r is content) plus an unterminated tail; words are the '
               'maximal runs of word bytes; the BMI2 chunked ASCII case conversion is the byte-wise map, length-preserving, identity outside letters, '
               'involutive on letters; the sorted-vector lexicographic iterator enumerates every string once in order, seek_lower_bound/seek_upper_bound '
               'position the cursor at the first string >= / > the target on every sorted list with duplicates and empty strings, and walking from there '
               'yields exactly the strings >= / > the target. Extension, also machine-checked for all inputs: FastStr::find returns exactly the first '
               'occurrence (None iff there is none; empty and overlapping needles), starts_with / ends_with are the prefix / suffix relations and agree with '
               'find, common_prefix_len is the longest common prefix and compare is decided by the unsigned bytes after it, compare is a total order '
               'consistent with ==, the slicing functions clamp as documented (substring panics exactly when start > len), the AVX2, SSE2 and portable hash '
               'paths compute the same function (so equal strings hash equally on every machine) ; find_word_boundaries lists exactly the positions '
               'is_word_boundary accepts and word_at_position returns the maximal word around a position; every LineProcessor configuration is the per-line '
               'post-processing and filtering of the raw pieces, with endings preserved the pieces concatenate to the input, count_lines equals the number of '
               'delivered lines and process_batches hands over the same lines in full batches plus one partial batch; on every valid UTF-8 text next_char / '
               'prev_char enumerate exactly chars() forward / backward and every list of scalar values round-trips; StreamingLexIterator enumerates exactly '
               'the lines of the stream; SortableStrVec reads back every pushed string through its packed entries, its binary_search (block and small path) '
               'returns the needle or the insertion point on every sorted enumeration, and its chunked comparison kernel equals byte-wise order; '
               'ZoSortedStrVec accepts exactly sorted NUL-free lists, reads back every string, and its binary_search / lower_bound / range are exact on lists '
               'with duplicates and empty strings. The models are tied to the code by evaluating about 6000 cases in Coq on every run. The sorting algorithms '
               'of SortableStrVec, the Unicode case wrappers and the remaining LineProcessor entry points are decided by a differential oracle against std '
               'only (S-only in the evidence).',
 'level_note': 'Trusted: Coq kernel + vm_compute; hand-written models; harness oracle (exact i128 arithmetic for numeric values, std slice/str operations). '
               'Not modelled: the AVX-512 paths of FastStr (feature-gated), the sorts of SortableStrVec (radix, by length, custom), the rank/select layout '
               'under ZoSortedStrVec (select1 by specification; C04). The hash paths are modelled as functions of the byte string; independence of the buffer '
               'address is observed by the oracle (24 alignments x lengths 0..130 x every constructor) and by the hash value itself being compared with the '
               'model. SortableStrVec::radix_sort is additionally run in child processes on strings with long common runs (recursion depth; a stack overflow there was found and repaired, e7f9123). Oracle breadth (harness/src/c20_wide.rs, oracle only, no Coq case): pre-parsed comparator entry points, numerals up to 2^20 digits, '
               'FastStr up to 2^20+1 bytes, presets / buffer sizes / maximum line length of LineProcessor, operation histories on one reused LineProcessor, '
               'LineSplitter, JoinBuilder, SortableStrVec (with its environment options), Utf8ToUtf32Iterator and StreamingLexIterator, big sorted lists and '
               'ZoSortedStrVec layouts above 2^16 / 2^20 bits.',
 'technique': 'Coq proof (digit-string induction + nia for the comparators; list induction, fuelled loops and a binary-search invariant for the string models; '
              'bit-field arithmetic by lia for the u64 chunk path) + model/implementation differential check by vm_compute + exhaustive/generated oracle for '
              'the spec-only cells; extension: first-occurrence invariants for the search loops, chunk decomposition (concat of chunks_exact pieces) for the '
              'hash paths and the comparison kernel, a UTF-8 piece decomposition for the bidirectional iterator, binary-search invariants over block starts, '
              'bit-field arithmetic for the packed entries',
 'explanation': 'Unbounded theorems (56) for both numeric comparators, join/split, line splitting in every configuration, words and word boundaries, ASCII '
                'case maps, both lexicographic iterators, FastStr search / order / slicing / hash paths, the UTF-8 iterator, SortableStrVec storage / search / '
                'comparison kernel and ZoSortedStrVec; differential oracle only for the SortableStrVec sorts and a few std wrappers.'}
