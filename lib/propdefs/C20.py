"""Configuration of the C20 check (see lib/props.py)."""
P = {'id': 'C20',
 'level': 'proof',
 'theorems': ['mag_cmp_correct_thm', 'decimal_strcmp_correct', 'decimal_antisym', 'decimal_trans',
              'realnum_strcmp_correct', 'realnum_antisym', 'realnum_trans', 'realnum_le_trans',
              'join_is_intercalate', 'join_iter_is_intercalate', 'join_length',
              'split_join', 'join_split', 'split_fields_clean', 'fs_split_spec', 'fs_split_join',
              'lines_unlines', 'words_are_maximal_runs',
              'case_maps', 'to_lower_bmi2_is_map', 'to_upper_bmi2_is_map', 'case_length',
              'lex_seek_lower_bound_spec', 'lex_seek_upper_bound_spec', 'lex_enumerate_all',
              'lex_lower_bound_walk', 'lex_upper_bound_walk',
              'fs_find_first_occurrence', 'fs_find_byte_first', 'fs_starts_with_spec', 'fs_ends_with_spec', 'fs_starts_with_is_find_0', 'fs_cmp_by_common_prefix', 'fs_cmp_total_order', 'fs_slicing', 'fs_substring_spec', 'fs_hash_paths_agree', 'fs_eq_hash_coherent', 'find_word_boundaries_spec', 'word_at_position_maximal', 'lines_cfg_decompose', 'lines_keep_concat', 'count_lines_is_length', 'batches_spec', 'lines_default_is_lines', 'utf8_walks', 'utf8_roundtrip', 'streaming_enumerates', 'streaming_unlines', 'ssv_binary_search_spec', 'zo_spec', 'zo_accepts', 'ssv_push_get', 'ssv_push_refuses', 'fast_lex_cmp_is_lex'],
 'trusted': ['modelled (M+S): src/string/numeric_compare.rs (decimal_strcmp, realnum_strcmp and helpers); src/string/join.rs (join/join_str/join_fast_str/'
             'JoinBuilder::build as one loop, join_iter/join_bytes_iter as the first-flag loop); LineSplitter::split_optimized and FastStr::split '
             '(SplitIter) ; WordIterator; LineProcessor::read_next_line/process_lines in the default configuration (BufRead::read_line is part of the model); '
             'Bmi2StringProcessor::to_{lower,upper}case_ascii_bmi2 (u64 chunk path with BEXTR/shift/or and the scalar remainder); SortedVecLexIterator '
             '(next/prev/seek_start/seek_end/binary_search_by/seek_lower_bound and the trait-default seek_upper_bound) -- all as byte-list functions',
             'spec-only cells (direct oracle against std, no mechanism model): FastStr (eq/ord/hash coherence/find/slicing), StreamingLexIterator, '
             'SortableStrVec, ZoSortedStrVec, unicode.rs (UTF-8 validation/iteration, Unicode case wrappers), LineProcessor non-default configurations, '
             'batches and split_lines_by, word-boundary helper functions',
             'std is trusted where the code delegates to it: str::split in LineSplitter simple strategy (tied to split_opt by cases), slice cmp/starts_with/'
             'ends_with in FastStr'],
 'assumptions': ['strings are lists of bytes < 256; usize arithmetic does not overflow for in-memory strings',
                 'agreement of model and code is established on the generated cases only (about 4000 per quick run, evaluated inside Coq)'],
 'level_text': 'Machine-checked Coq theorems, for inputs of any length: decimal_strcmp and realnum_strcmp, as written, equal comparison of the denoted '
               'integers / rationals (signs, signed zero, leading zeros, trailing fraction zeros, "5." = "5"), return None exactly on invalid input, and are '
               'antisymmetric and transitive (also mixed <=/< transitivity for the real comparator); every join entry point equals the straightforward '
               'intercalation and the precomputed capacity is exact; split(join) = id for every non-empty list whose elements do not contain the separator '
               'byte, join(split) = id for every text, FastStr::split is the plain split minus one trailing empty field; process_lines returns exactly the '
               'lines of any text written with any mix of "\\n" and "\\r\\n" terminators (lone \\r is content) plus an unterminated tail; words are the '
               'maximal runs of word bytes; the BMI2 chunked ASCII case conversion is the byte-wise map, length-preserving, identity outside letters, '
               'involutive on letters; the sorted-vector lexicographic iterator enumerates every string once in order, seek_lower_bound/seek_upper_bound '
               'position the cursor at the first string >= / > the target on every sorted list with duplicates and empty strings, and walking from there '
               'yields exactly the strings >= / > the target. The models are tied to the code by evaluating thousands of cases in Coq on every run. FastStr, '
               'StreamingLexIterator, SortableStrVec, ZoSortedStrVec and unicode.rs are decided by a boundary-biased/exhaustive differential oracle against '
               'std, which is weaker than proof and labelled S-only in the evidence.',
 'level_note': 'Trusted: Coq kernel + vm_compute; hand-written models; harness oracle (exact i128 arithmetic for numeric values, std slice/str operations). Not '
               'modelled: SIMD hash/compare paths of FastStr (oracle: hash/eq coherence over 24 alignments x lengths 0..130 x every constructor), radix and '
               'block-search paths of SortableStrVec, the rank/select layout of ZoSortedStrVec (shared with C04). Oracle breadth (harness/src/c20_wide.rs, oracle only, no Coq '
               'case): pre-parsed comparator entry points, numerals up to 2^20 digits, FastStr up to 2^20+1 bytes, presets / buffer sizes / maximum line length '
               'of LineProcessor, operation histories on one reused LineProcessor, LineSplitter, JoinBuilder, SortableStrVec (with its environment options), '
               'Utf8ToUtf32Iterator and StreamingLexIterator, big sorted lists and ZoSortedStrVec layouts above 2^16 / 2^20 bits.',
 'technique': 'Coq proof (digit-string induction + nia for the comparators; list induction, fuelled loops and a binary-search invariant for the string models; '
              'bit-field arithmetic by lia for the u64 chunk path) + model/implementation differential check by vm_compute + exhaustive/generated oracle for '
              'the spec-only cells',
 'explanation': 'Unbounded theorems for both numeric comparators, join/split, line splitting, words, ASCII case maps and the sorted-vector lexicographic '
                'iterator; differential + exhaustive oracle for FastStr and the remaining containers.'}
