"""Configuration of the C10 check (see lib/props.py)."""
P = {'id': 'C10',
 'level': 'proof',
 'theorems': ['ensure_pow2_correct', 'ring_refines_deque', 'ring_observable', 'wrap_growth_preserves_order', 'ring_clone_same_sequence', 'ring_clear_drops_each_once', 'ring_exactly_once', 'full_ring_le_refuted', 'fastvec_refines_list', 'fastvec_clear_drops_each_once', 'fastvec_clone_same_sequence', 'valvec32_reserve_capacity', 'valvec32_push_capacity'],
 'trusted': [],
 'assumptions': ['usize is 64 bits'],
 'level_text': 'wip',
 'level_note': 'wip',
 'technique': 'wip',
 'explanation': 'wip'}
