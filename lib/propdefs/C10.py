"""Configuration of the C10 check (see lib/props.py)."""
P = {'id': 'C10',
 'level': 'proof',
 'theorems': [],
 'trusted': [],
 'assumptions': ['usize is 64 bits'],
 'level_text': 'wip',
 'level_note': 'wip',
 'technique': 'wip',
 'explanation': 'wip'}
