"""Configuration of the C10 check (see lib/props.py)."""
P = {'id': 'C10',
 'level': 'proof',
 'theorems': ['ensure_pow2_correct',
              'ring_refines_deque',
              'ring_observable',
              'wrap_growth_preserves_order',
              'ring_clone_same_sequence',
              'ring_clear_drops_each_once',
              'ring_exactly_once',
              'full_ring_le_refuted',
              'fastvec_refines_list',
              'fastvec_clear_drops_each_once',
              'fastvec_clone_same_sequence',
              'valvec32_reserve_capacity',
              'valvec32_push_capacity',
              'fixed_refines_bounded_deque',
              'fixed_refuses_when_full',
              'fixed_clear_drops_each_once',
              'valvec32_refines_list',
              'valvec32_exactly_once',
              'valvec32_clone_same_sequence',
              'valvec32_clear_drops_each_once',
              'valvec32_capacity_agrees',
              'valvec32_set_leak_refuted',
              'valvec32_extend_truncation_refuted',
              'strvec_consts_ok',
              'strvec_entry_roundtrip',
              'strvec_refines_spec',
              'strvec_get_pushes',
              'strvec_push_refused_iff',
              'strvec_sort_is_sorted_perm',
              'strvec_sort_by_is_sorted_perm',
              'strvec_sort_by_length_is_sorted_perm',
              'strvec_radix_sort_is_sorted_perm',
              'strvec_long_string_refuted',
              'fixedlen_refines_list',
              'fixedlen_get_pushes',
              'fixedlen_push_refused_iff',
              'fastvec_copy_refines_list',
              'fastvec_bulk_equals_scalar',
              'fastvec_copy_eq_decides',
              'fastvec_copy_from_refuted',
              'cachevec_capacity_aligned',
              'cachevec_refines_list',
              'cachevec_exactly_once',
              'cachevec_truncate_drops_tail',
              'bumpvec_refines_bounded_vec',
              'bumpvec_exactly_once',
              'bitpacked_entry_roundtrip',
              'bitpacked_refines_list',
              'bitpacked_get_pushes',
              'ring_pop_bulk_into_slice',
              'ring_pop_bulk_into_agrees'],
 'consts': True,
 'trusted': ['modelled (M+S), memory = map slot -> option element (None = uninitialised / moved out; reading, moving out or dropping a None slot is '
             'the outcome UB): src/containers/specialized/circular_queue.rs AutoGrowCircularQueue (ensure_power_of_two, with_capacity, reserve, '
             'grow_to incl. in-place realloc vs. linearising two-part copy, push_back + slow path, pop_front, front, back, clear, push_bulk, '
             'pop_bulk, Clone, Drop) and FixedCircularQueue<T,N> (push_back, pop_front, front, back, clear, Drop); src/containers/fast_vec.rs '
             'FastVec (with_capacity, reserve, ensure_capacity, realloc growth max(new_cap, 2*cap), push, pop, insert, remove, resize, clear, '
             'shrink_to_fit, extend, Clone, Drop - the paths taken by element types that need Drop); src/containers/specialized/valvec32.rs ValVec32 '
             "at element level with allocation-checked slot accesses (new, with_capacity with the allocator's usable size as an input, "
             'larger_capacity / calculate_new_capacity / reserve / grow_to, push / push_panic / push_slow, pop, get, set, clear, extend_from_slice, '
             'extend_from_slice_copy, push_n_copy incl. the doubling copy, Clone, Drop); src/containers/specialized/sortable_str_vec.rs '
             'SortableStrVec (CompactEntry packing and accessors with the field widths regenerated from the source by the constant extractor, '
             'push_str / push, get / get_by_id, len, iter, clear, Clone, sort_lexicographic / sort (debug-assertions path), sort_by, sort_by_length, radix_sort (MSD radix; its counting-sort loop modelled by its result), '
             'get_sorted, iter_sorted; slice::sort_unstable_by is a parameter); src/containers/specialized/fixed_len_str_vec.rs FixedLenStrVec<N> '
             '(push with its three refusals, 24+8-bit index packing, get with str::from_utf8, get_bytes, len, find_exact, count_prefix - the code '
             'compiled with the default feature simd); src/containers/fast_vec.rs the paths taken by Copy element types (is_simd_beneficial '
             'thresholds, temporary-buffer insert/remove, fast_fill resize, bulk extend, extend_from_slice_fast, fill_range_fast, '
             'copy_from_slice_fast, ensure_capacity, PartialEq; the SIMD kernels fast_copy / fast_fill / fast_compare are parameters with their '
             'contract as hypotheses); src/memory/cache.rs CacheAlignedVec<T> (new, with_capacity, reserve with '
             'required.max(2*capacity).max(4), reallocate with the checked cache-line rounding `(n*size+63) & !63` / size and the Layout limit, '
             'fresh block + copy + dealloc, push, pop, get, clear, truncate, Drop; size_of::<T>() is a parameter) and src/memory/bump.rs '
             'BumpVec<T> (new_in, push with its refusal at len >= capacity, pop, as_slice().get, Drop) - coq/C10/ModelCacheVec.v, every slot access '
             'checked against the block; src/containers/specialized/bit_packed_string_vec.rs BitPackedStringVec32/64 (BitPackedEntry packing '
             'offset | length << 32 resp. (offset & 2^40-1) | length << 40 and the fallback accessors, push with its checks in the order of the '
             'code - the arena is extended before the entry is validated -, get, get_bytes, len) - coq/C10/ModelBitPacked.v; AutoGrowCircularQueue::pop_bulk at the level of '
             "the caller's slice (`output[i] = read()` destroys the overwritten value; one or two runs) - coq/C10/ModelRingBulk.v",
             'spec-only cells (shadow Vec/VecDeque oracle with per-id live-instance counting, no mechanism model): '
             'cache_layout::CacheAlignedVec<u64>, memory::cache::CacheAlignedVec for element types other than the drop-counting handle and u8, '
             'MmapVec<u64> (push, pop, resize, truncate, '
             'clear, extend, push_bulk_simd, pop_bulk_simd, fill_range_simd, copy_from_simd, reserve, shrink_to_fit), ZoSortedStrVec (three '
             'constructors), AdvancedStringVec levels 0..3, BitPackedStringVec::find_simd / iter; oracle-only inside modelled cells: SortableStrVec::binary_search, '
             'the u32::MAX probe of ValVec32 on zero-sized elements, the 2^24-byte arena probe of FixedLenStrVec, the child-process probe of the '
             'FastVec operations that aborted the process',
             'not covered: src/containers/specialized/circular_queue_ultrafast.rs is not part of the crate (no `mod` declaration; it uses '
             'std::intrinsics) and cannot be executed; zero-sized and over-aligned element types; allocation failure paths; the memory safety of the '
             'raw pointer accesses as such (the index arithmetic is modelled, the dereference is not); thread-safety of FixedCircularQueue atomics',
             'the element type of the oracle owns no heap memory (a double drop must stay observable instead of aborting the process): it counts '
             'constructions, clones and drops per id',
             'constant extractor tools/extract_consts.py (tools/consts_spec.json -> coq/gen/ConstsC10.v): CompactEntry field widths, masks and '
             "limits, valvec32::MAX_CAPACITY, the ring's INITIAL_CAPACITY; strvec_consts_ok re-proves on every run what the proofs need of them",
             'hypotheses of the theorems about external code: slice::sort_unstable_by returns a permutation of its input that is sorted whenever the '
             'comparator is a total preorder (inhabited by insertion sort, which is what the model runs); str::from_utf8 accepts well-formed UTF-8 '
             '(modelled by an RFC 3629 validator); the SIMD kernels copy / fill / compare exactly (property C14); malloc_usable_size reports at '
             'least the requested size'],
 'assumptions': ['usize is 64 bits; the ring theorems bound the history at 2^61 elements and the CacheAlignedVec theorems at 2^60 bytes (allocation '
                 'would fail long before; cache-line alignment only, element alignment <= 64); the ValVec32, '
                 'string-vector and FastVec theorems need no size bound (the u32 / 20-bit / 24-bit / 40-bit limits are part of the model and '
                 'refusals are part of the specification)',
                 'realloc/malloc succeed and preserve contents (allocator is not modelled)',
                 'agreement of model and code (return values, destroyed elements per operation as a multiset, len, capacity, head and tail index, '
                 'strings and sorted views after every operation) is established on the generated and enumerated histories only; the release-mode '
                 'comparator of SortableStrVec::sort_lexicographic is not compiled into the harness (debug assertions on)'],
 'level_text': 'Machine-checked Coq theorems about Gallina models in which memory is a map from slots to initialised/uninitialised. '
               'AutoGrowCircularQueue, FixedCircularQueue and FastVec: for every element type, capacity and operation history the container returns '
               'exactly what a deque / bounded deque / Vec returns, never reads or drops an uninitialised slot, clone keeps the sequence, and over a '
               'history plus Drop every element is handed back or destroyed exactly once. ValVec32 at element level (u32 len/cap, golden-ratio '
               'growth, every access checked against the allocation): refinement of a Vec bounded by u32::MAX for every history without size bound, '
               "exactly-once destruction, clone; the pinned tree's set() leak and its `slice.len() as u32` truncation (a heap overflow) are "
               'refutation theorems. SortableStrVec: the packed (offset, length, seq) entries with the field widths taken from the source read back '
               'what was packed, get i is the i-th pushed string, a push is refused exactly when a field would overflow, and for every sorting '
               'routine meeting the contract of sort_unstable_by the sorted view is the (unique) lexicographically sorted permutation of the pushed '
               'strings while the strings themselves are untouched; likewise sort_by, sort_by_length and radix_sort. FixedLenStrVec<N>: get i is the i-th pushed '
               'string byte for byte (no padding, NUL kept), refusal exactly beyond N / 255 bytes / 2^24 arena bytes, find_exact and count_prefix '
               'are first-index and prefix-count. FastVec for Copy types: the SIMD / bulk paths are, for every element size and every kernel meeting '
               'its contract, the list functions of the scalar path (same value, len, capacity and buffer), fill_range_fast and copy_from_slice_fast '
               "are splice and assignment, PartialEq decides equality; the pinned tree's process abort in ensure_capacity is a refutation theorem. "
               'memory::cache::CacheAlignedVec (any element size): the cache-line capacity arithmetic covers the request with less than 64 bytes of '
               'slack, every history of push/pop/get/clear/truncate/reserve that fits 2^60 bytes behaves as a Vec without any refusal, and every '
               'pushed element is handed back or destroyed exactly once over history + Drop; BumpVec: a Vec bounded by its fixed capacity (push '
               'refused exactly when full, the refused value destroyed), exactly-once destruction. '
               'BitPackedStringVec32/64: the packed entries read back what was packed, get i is the i-th accepted string for every history (64-bit '
               'variant: below 2^40 bytes, the width of its unchecked offset mask), refusals exactly at the limits. '
               "pop_bulk into a slice: the first min(|out|, len) slots receive the queue's front in order and exactly the overwritten values are "
               'destroyed, once each. '
               'The models are tied to the code by replaying enumerated and generated histories in Coq (about 1700 per quick run) and comparing '
               'every return value, the multiset of destroyed elements, len, capacity, head/tail indices, strings and sorted views. The remaining '
               'containers are decided by a boundary-biased differential oracle only (S-only). The oracle also drives, inside the same histories, the '
               'secondary entry points (aliases, ==, Debug, Index/IndexMut/get_mut/as_mut_slice/iter_mut, iterators, filling and preset constructors, '
               'binary_search / range / find), element types i16, u128, a 24-byte struct and zero-sized ones, and sizes around 2^16, 2^20, the 64 KiB '
               'mapping and the 2^24 length fields, described in the cases by numbers.',
 'level_note': 'Trusted: Coq kernel + vm_compute; hand-written models; harness generators, shadow Vec/VecDeque oracle and the drop-counting element '
               'type. Raw-pointer reads/writes are modelled as slot accesses with an explicit undefined-behaviour outcome.',
 'technique': 'Coq proof by simulation (abstraction relations R/F/V/W/SV/FV between buffer or arena + indices and lists) lifted to histories by '
              'induction; bit-level proofs of the power-of-two round-up and of the packed index entries; sorting abstracted as a parameter with the '
              'standard contract plus uniqueness of sorted permutations; symbolic refutation for a 2^32-element witness; constants regenerated from '
              'the source; model/implementation differential check on operation histories by vm_compute; differential oracle with drop-counting '
              'elements for all cells; child-process probes for operations that may abort',
 'explanation': 'Unbounded refinement theorems for both circular queues, FastVec (drop and Copy paths), ValVec32, SortableStrVec, FixedLenStrVec, '
                'memory::cache::CacheAlignedVec, BumpVec and BitPackedStringVec32/64; '
                'differential oracle for the other containers.'}
