"""Configuration of the C10 check (see lib/props.py)."""
P = {'id': 'C10',
 'level': 'proof',
 'theorems': ['ensure_pow2_correct',
              'ring_refines_deque',
              'ring_observable',
              'wrap_growth_preserves_order',
              'ring_clone_same_sequence',
              'ring_clear_drops_each_once',
              'ring_exactly_once',
              'full_ring_le_refuted',
              'fastvec_refines_list',
              'fastvec_clear_drops_each_once',
              'fastvec_clone_same_sequence',
              'valvec32_reserve_capacity',
              'valvec32_push_capacity',
              'fixed_refines_bounded_deque',
              'fixed_refuses_when_full',
              'fixed_clear_drops_each_once',
              'valvec32_refines_list',
              'valvec32_exactly_once',
              'valvec32_clone_same_sequence',
              'valvec32_clear_drops_each_once',
              'valvec32_capacity_agrees',
              'valvec32_set_leak_refuted',
              'valvec32_extend_truncation_refuted',
              'strvec_consts_ok',
              'strvec_entry_roundtrip',
              'strvec_refines_spec',
              'strvec_get_pushes',
              'strvec_push_refused_iff',
              'strvec_sort_is_sorted_perm',
              'strvec_sort_by_is_sorted_perm',
              'strvec_sort_by_length_is_sorted_perm',
              'strvec_long_string_refuted',
              'fixedlen_refines_list',
              'fixedlen_get_pushes',
              'fixedlen_push_refused_iff',
              'fastvec_copy_refines_list',
              'fastvec_bulk_equals_scalar',
              'fastvec_copy_eq_decides',
              'fastvec_copy_from_refuted'],
 'consts': True,
 'trusted': ['modelled (M+S), memory = map slot -> option element (None = uninitialised / moved out; reading, moving out or dropping a None slot is the '
             'outcome UB): src/containers/specialized/circular_queue.rs AutoGrowCircularQueue (ensure_power_of_two, with_capacity, reserve, grow_to incl. '
             'in-place realloc vs. linearising two-part copy, push_back + slow path, pop_front, front, back, clear, push_bulk, pop_bulk, Clone, Drop) and '
             'FixedCircularQueue<T,N> (push_back, pop_front, front, back, clear, Drop); src/containers/fast_vec.rs FastVec (with_capacity, reserve, '
             'ensure_capacity, realloc growth max(new_cap, 2*cap), push, pop, insert, remove, resize, clear, shrink_to_fit, extend, Clone, Drop - the paths '
             'taken by element types that need Drop); src/containers/specialized/valvec32.rs capacity arithmetic only (larger_capacity, '
             'calculate_new_capacity, reserve, push_slow)',
             'spec-only cells (shadow Vec/VecDeque oracle with per-id live-instance counting, no mechanism model): FastVec<u64>/FastVec<u8> (the SIMD paths '
             'of insert/remove/resize/extend, fill_range_fast, extend_from_slice_fast, PartialEq), ValVec32<El>/ValVec32<u64> (push, pop, set, get, clear, '
             'extend_from_slice(_copy), push_n_copy, reserve, Clone), memory::cache::CacheAlignedVec<El>/<u8>, cache_layout::CacheAlignedVec<u64>, '
             'BumpVec<El>, MmapVec<u64> (push, pop, resize, truncate, clear, extend, push_bulk_simd, pop_bulk_simd, fill_range_simd, copy_from_simd, '
             'reserve, shrink_to_fit), SortableStrVec (push, get, iter, clear, Clone, four sorts + sorted views), FixedLenStrVec<4/8/16>, '
             'ZoSortedStrVec (three constructors), BitPackedStringVec32/64, AdvancedStringVec levels 0..3',
             'not covered: src/containers/specialized/circular_queue_ultrafast.rs is not part of the crate (no `mod` declaration; it uses '
             'std::intrinsics) and cannot be executed; zero-sized and over-aligned element types; allocation failure paths; the memory safety of the raw '
             'pointer accesses as such (the index arithmetic is modelled, the dereference is not); thread-safety of FixedCircularQueue atomics',
             'the element type of the oracle owns no heap memory (a double drop must stay observable instead of aborting the process): it counts '
             'constructions, clones and drops per id'],
 'assumptions': ['usize is 64 bits; no container ever holds more than 2^61 elements (the history theorems state this bound; allocation would fail long before)',
                 'realloc/malloc succeed and preserve contents (allocator is not modelled)',
                 'agreement of model and code (return values, destroyed elements per operation as a multiset, len, capacity, head and tail index after every '
                 'operation) is established on the generated and enumerated histories only'],
 'level_text': 'Machine-checked Coq theorems about Gallina models of AutoGrowCircularQueue, FixedCircularQueue and FastVec in which memory is a map from '
               'slots to initialised/uninitialised: for every element type, every initial capacity and every operation history the ring (power-of-two mask, '
               'growth by in-place realloc or linearising copy while wrapped, bulk operations split at the wrap point) returns exactly what a deque returns '
               'and holds its sequence, never reads or drops an uninitialised slot, clone keeps the sequence, and over a history plus Drop every element '
               'handed in is handed back or destroyed exactly once with no initialised slot left in the freed buffer; the fixed queue is a deque bounded by N '
               'that refuses the push beyond N; FastVec is a Vec under push/pop/insert/remove/resize/clear/shrink/extend/reserve/get/clone with exact '
               'out-of-range refusals; ensure_power_of_two is proved correct up to 2^62; ValVec32 capacity arithmetic stays within u32 and refuses exactly at '
               'the limit; the pinned tree\'s full-ring defect is a refutation theorem. The models are tied to the code by replaying enumerated and '
               'generated histories in Coq and comparing every return value, the multiset of destroyed elements, len, capacity and head/tail indices. The '
               'remaining vectors and all string vectors are decided by a boundary-biased differential oracle only (S-only).',
 'level_note': 'Trusted: Coq kernel + vm_compute; hand-written models; harness generators, shadow Vec/VecDeque oracle and the drop-counting element type. '
               'Raw-pointer reads/writes are modelled as slot accesses with an explicit undefined-behaviour outcome.',
 'technique': 'Coq proof by simulation (abstraction relations R/F/V between buffer+indices and lists) lifted to histories by induction; bit-level proof of '
              'the power-of-two round-up; model/implementation differential check on operation histories by vm_compute; differential oracle with '
              'drop-counting elements for all cells',
 'explanation': 'Unbounded refinement theorems for both circular queues and FastVec; differential oracle for the other containers.'}
