"""Configuration of the C08 check (see lib/props.py)."""
P = {'id': 'C08',
 'level': 'proof',
 'theorems': ['tagged_no_double_owner',
              'tagged_free_list_well_formed',
              'tagged_no_block_lost',
              'tagged_holds_nodup',
              'tagged_count_at_quiescence',
              'generation_bound_by_steps',
              'lockfree_pool_cfg_wf',
              'fivelevel_pool_cfg_wf',
              'untagged_aba_refuted',
              'narrow_generation_refuted',
              'treiber_aba_refuted',
              'treiber_uaf_refuted',
              'fixedcap_no_double_owner',
              'fixedcap_no_block_lost',
              'fixedcap_free_lists_well_formed',
              'fixedcap_holds_nodup',
              'fixedcap_count_at_quiescence',
              'fixedcap_stats_at_quiescence',
              'fixedcap_generation_bound_by_steps',
              'fixedcap_code_cfg_wf',
              'fixedcap_untagged_refuted',
              'tagged_generation_monotone',
              'tagged_pop_last_keeps_generation',
              'zero_on_free_never_touches_listed_block',
              'counters_exact_at_quiescence',
              'generation_reset_refuted',
              'count_before_cas_refuted',
              'zero_after_push_refuted',
              'secure_concurrent_no_chunk_lost',
              'secure_concurrent_no_double_owner',
              'secure_concurrent_free_finds_its_chunk',
              'secure_counters_at_quiescence',
              'secure_concurrent_reuse_refuted',
              'mempool_accounting_exact_at_quiescence',
              'mempool_no_chunk_in_two_places'],
 'trusted': ['modelled (M+S): src/memory/lockfree_pool.rs allocate_from_fast_bin / deallocate_to_fast_bin / allocate_new_block and src/memory/five_level_pool.rs '
             'LockFreePool::alloc_from_fast_bin_lockfree / free_to_fast_bin_lockfree (one bin, generation-tagged head, link word inside the block, count, bump '
             'allocation: load + compare-exchange of next_offset in lockfree_pool.rs, one step under the mutex in five_level_pool.rs) as a sequentially consistent small-step machine with one step per shared access; '
             'src/memory/secure_pool.rs LockFreeStack::{push,pop} as a small-step machine over a heap whose allocator may reuse any free address (refutations only)',
             'tie: #[cfg(zipora_verif)] schedule points before every shared access of those functions (src/memory/verif_sched.rs); real threads are parked at '
             'every point by a baton scheduler, the schedule and every value the code observed (loaded heads, link words, exchange outcomes, bump offsets), the '
             'final head/count/bump, the traversed free list and the blocks each thread holds are replayed in Coq against the model; hook placement is trusted '
             'to cover every shared access of the modelled functions',
             'spec-only cells (oracle on the real code, no mechanism model): FixedCapacityMemoryPool under controlled schedules, SecureMemoryPool (thread cache + '
             'Treiber stack) under controlled schedules, free-running stress of LockFreeMemoryPool, five-level LockFreePool / MutexBasedPool / ThreadLocalPool, '
             'FixedCapacityMemoryPool, SecureMemoryPool, the global secure size-class pools, MemoryPool (pool.rs)',
             'not modelled: weak-memory effects (Relaxed/Acquire/Release are treated as sequentially consistent), spurious failure of compare_exchange_weak, the '
             'retry bound max_cas_retries, the skip-list / huge-block paths (stubs in the code), mutex internals (each mutex-protected operation is atomic)'],
 'assumptions': ['fewer than 2^32 successful compare-exchanges on one bin between a thread loading the head and its own exchange (stated in every positive theorem as '
                 'ncas < gmod; narrow_generation_refuted shows it cannot be dropped)',
                 'sequential consistency',
                 'agreement of model and code is established on the explored schedules only (enumerated windows + random programs/schedules)'],
 'level_text': 'Machine-checked Coq theorems about a small-step model of the generation-tagged lock-free free list used by LockFreeMemoryPool and (since the fix '
               'made by this check) the five-level LockFreePool: for any number of threads, any operation sequences, any interleaving of the individual shared '
               'accesses, and owners overwriting the link word of their blocks at will, as long as the 32-bit generation has not wrapped: no block is ever in two '
               'threads\' hands, the free list is finite, duplicate-free, inside the carved arena and disjoint from every thread\'s blocks, every carved block is '
               'in exactly one place (no block lost, a freed block available exactly once), and the reported count equals the list length at quiescence. '
               'Refutation theorems show that the same machine without a generation (the five-level and fixed-capacity heads before the fix), with a wrapped '
               'generation, and the node-based Treiber stack of SecureMemoryPool (ABA and use-after-free) violate the property. The model is tied to the code by '
               'running real threads under explicit schedules through schedule-point hooks and replaying every observation in Coq. The remaining pools are '
               'decided by the ownership/free-list/counter oracle under controlled schedules or stress only (S-only).',
 'level_note': 'Trusted: Coq kernel + vm_compute; hand-written model; hook placement; baton scheduler and oracle in the harness; sequential consistency.',
 'technique': 'Coq proof of an inductive invariant of a concurrent small-step semantics (ghost free list + ghost exchange counter), refutations by vm_compute on explicit '
              'schedules; correspondence by deterministic replay of real threads under a controlled scheduler, evaluated in Coq; ownership-table oracle and stress',
 'explanation': 'Unbounded theorems for the tagged free-list stack; S-only oracle for the other pools.'}
