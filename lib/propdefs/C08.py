"""Configuration of the C08 check (see lib/props.py)."""
P = {'id': 'C08',
 'level': 'proof',
 'theorems': ['tagged_no_double_owner',
              'tagged_free_list_well_formed',
              'tagged_no_block_lost',
              'tagged_holds_nodup',
              'tagged_count_at_quiescence',
              'generation_bound_by_steps',
              'lockfree_pool_cfg_wf',
              'fivelevel_pool_cfg_wf',
              'untagged_aba_refuted',
              'narrow_generation_refuted',
              'treiber_aba_refuted',
              'treiber_uaf_refuted',
              'fixedcap_no_double_owner',
              'fixedcap_no_block_lost',
              'fixedcap_free_lists_well_formed',
              'fixedcap_holds_nodup',
              'fixedcap_count_at_quiescence',
              'fixedcap_stats_at_quiescence',
              'fixedcap_generation_bound_by_steps',
              'fixedcap_code_cfg_wf',
              'fixedcap_untagged_refuted',
              'tagged_generation_monotone',
              'tagged_pop_last_keeps_generation',
              'zero_on_free_never_touches_listed_block',
              'counters_exact_at_quiescence',
              'generation_reset_refuted',
              'count_before_cas_refuted',
              'zero_after_push_refuted',
              'secure_concurrent_no_chunk_lost',
              'secure_concurrent_no_double_owner',
              'secure_concurrent_free_finds_its_chunk',
              'secure_counters_at_quiescence',
              'secure_concurrent_reuse_refuted',
              'mempool_accounting_exact_at_quiescence',
              'mempool_no_chunk_in_two_places'],
 'trusted': ['modelled (M+S): src/memory/lockfree_pool.rs allocate_from_fast_bin / deallocate_to_fast_bin / allocate_new_block / deallocate_with_zero and '
             'src/memory/five_level_pool.rs LockFreePool::alloc_from_fast_bin_lockfree / free_to_fast_bin_lockfree (one bin, generation-tagged head, link word '
             'inside the block, count, bump allocation: load + compare-exchange of next_offset in lockfree_pool.rs, one step under the mutex in '
             'five_level_pool.rs) with the counters they report (fast_allocs, fast_deallocs, cas_successes, cas_failures, memory_usage; fragment_size) - '
             'coq/C08/Model.v, ModelStats.v; src/memory/fixed_capacity_pool.rs allocate_from_free_list / allocate_by_splitting (recursion over the size '
             'classes) / deallocate_to_free_list with the header magic check, secure_clear and the statistics - ModelFixedCap.v; src/memory/secure_pool.rs '
             'allocate_with_hint / deallocate_internal / LockFreeStack::{push,pop} (thread caches, Treiber stack over a heap, next_generation, active table, '
             'counters) - ModelSecure.v; src/memory/pool.rs MemoryPool::allocate / deallocate (try_lock queue, miss and direct-release paths, byte accounting, '
             'counters) - ModelMemPool.v; all as sequentially consistent small-step machines with one step per shared access, any number of threads',
             'tie: #[cfg(zipora_verif)] schedule points before every shared access of those functions (src/memory/verif_sched.rs; pool.rs: never inside the '
             'stats write lock); real threads are parked at every point by a baton scheduler; the schedule, every value the code observed (loaded heads, link '
             'words, exchange and try_lock outcomes, bump offsets, peeked heads, node addresses), the final heads / counts / free lists / stack / caches / '
             'queue, the blocks each thread holds and the reported counters are replayed in Coq against the model (coq/C08/Cases.v); hook placement is trusted '
             'to cover every shared access of the modelled functions; secure-pool chunks and pool.rs chunks are renamed to serial numbers in order of creation '
             'by the harness',
             'the theorems about SecureMemoryPool are for the model whose node allocator never hands out an address twice (s_reuse = false); the code runs on '
             'malloc, which does (s_reuse = true: secure_concurrent_reuse_refuted, treiber_aba_refuted, treiber_uaf_refuted = the recorded findings); the '
             'correspondence cases use s_reuse = true with the real node addresses',
             'spec-only cells (oracle on the real code, no mechanism model): free-running stress of LockFreeMemoryPool (with and without zero_on_free), '
             'five-level LockFreePool / MutexBasedPool / ThreadLocalPool, FixedCapacityMemoryPool, SecureMemoryPool, the global secure size-class pools, '
             'MemoryPool and the global pool.rs pools; the same pools through every other public way in (bulk allocation, RAII guards, FiveLevelPoolHandle of levels 2 and 3, presets as they are, clear(), global pools of all size classes, PooledVec): stress/*/entry_points, stress/five_level::handles, stress/FixedCapacityMemoryPool/presets; controlled runs that contain an operation the models do not have (bulk allocation, clear(), a refused free, large-block / huge paths, pools without statistics, fixed-capacity geometries other than alignment 8 and max_block_size <= 128, stops at the utilization gauge) are judged by the oracle only',
             'not modelled: weak-memory effects (Relaxed/Acquire/Release are treated as sequentially consistent), spurious failure of compare_exchange_weak, '
             'the retry bound max_cas_retries and back-off, the skip-list / huge-block paths (stubs in the code), mutex / RwLock / DashMap internals (each '
             'protected operation is atomic), FixedCapacityMemoryPool lazy initialisation, u64 overflow of stats.allocated, SecureChunk::validate (canaries), '
             'clear()'],
 'assumptions': ['fewer than 2^32 successful compare-exchanges on one bin (all classes together for FixedCapacityMemoryPool) - stated in every positive '
                 'theorem about a tagged list as ncas < gmod / fnc < fc_gmod; narrow_generation_refuted shows it cannot be dropped',
                 'SecureMemoryPool: stack node addresses are not recycled while the pool lives (s_reuse c = false) - stated in the secure_concurrent_* '
                 'theorems; secure_concurrent_reuse_refuted shows it cannot be dropped, and the code does not satisfy it (recorded findings)',
                 'sequential consistency',
                 'agreement of model and code is established on the explored schedules only (enumerated windows, stalled-operation windows, random '
                 'programs/schedules)'],
 'level_text': 'Machine-checked Coq theorems about small-step models of five pools, each for any number of threads, any operation sequences and any '
               'interleaving of the individual shared accesses: (1) the generation-tagged lock-free free list of LockFreeMemoryPool and the five-level '
               'LockFreePool (owners may overwrite link words, deallocate_with_zero scrubs before it pushes): no block in two hands, free list finite / '
               "duplicate-free / inside the arena / disjoint from the threads' blocks, every carved block in exactly one place, generation never decreasing "
               '(also when a pop empties the list), the scrub never touches a listed block, and all reported counters exact at quiescence; (2) '
               'FixedCapacityMemoryPool with one tagged list per size class, class-to-class splitting and the header magic check: the same ownership / '
               'conservation / well-formedness / count theorems over all classes, statistics exact; (3) SecureMemoryPool (thread caches, Treiber stack over a '
               'heap, generation, active table): every chunk in exactly one place, no double owner, frees always find their chunk, counters add up - for a '
               'node allocator that does not recycle addresses, with the refutation for malloc-style reuse (the recorded ABA / use-after-free findings); (4) '
               'MemoryPool (pool.rs): byte accounting exact at quiescence, counters, lock free, capacity, chunk uniqueness. Refutation theorems show that each '
               'protocol detail seeded as a regression (no generation, wrapped generation, generation reset on empty, counting before the exchange, scrubbing '
               'after the push) breaks the property. Every model is tied to the code by running real threads under explicit schedules through schedule-point '
               'hooks and replaying every observation in Coq. The free-running stress cells are decided by the ownership / free-list / counter oracle only '
               '(S-only).',
 'level_note': 'Trusted: Coq kernel + vm_compute; hand-written model; hook placement; baton scheduler and oracle in the harness; sequential consistency.',
 'technique': 'Coq proofs of inductive invariants of concurrent small-step semantics (ghost free lists, ghost exchange counters, occurrence counting of chunks '
              'over thread table + shared structure), refutations by vm_compute on explicit schedules; correspondence by deterministic replay of real threads '
              'under a controlled scheduler, evaluated in Coq; ownership-table oracle and stress',
 'explanation': 'Unbounded theorems for the tagged free-list stacks (lock-free, five-level, fixed-capacity), the secure pool bookkeeping modulo node reuse, '
                'and pool.rs accounting; S-only oracle for the stress cells.'}
