"""Configuration of the C09 check (see lib/props.py)."""
P = {'id': 'C09',
 'level': 'proof',
 'theorems': ['field_fits_thm',
              'min0_get_defined',
              'min0_get_refuses_out_of_range',
              'min0_set_defined',
              'min0_set_get_same',
              'min0_set_get_other',
              'min0_get_build',
              'min0_push_back_fast',
              'min0_wide_refuted',
              'zip_get_build',
              'sorted_uint_vec_get',
              'sorted_uint_vec_get2',
              'sorted_uint_vec_get_block',
              'sorted_uint_vec_build_only_if'],
 'trusted': ['modelled (M+S): src/containers/uint_vec_min0.rs (compute_uintbits, compute_mem_size, get, set/set_uint_bits single-word path, new, resize, '
             'push_back all three paths, build_from_usize) with the byte vector represented as (length, little-endian number); src/containers/zip_int_vec.rs '
             'is modelled (definitions) but only oracle-checked',
             'spec-only cells (direct oracle, no mechanism model): ZipIntVec, SortedUintVec + builder (3 presets, get/get2/get_block), IntVec<u8..u64,i8..i64> '
             'x from_slice/from_slice_bulk/from_slice_bulk_simd, UintVector build_from/push',
             'not modelled: the byte-wise slow path of set_uint_bits (reachable only for widths > 58, which is the recorded finding)'],
 'assumptions': ['usize is 64 bits',
                 'agreement of model and code (incl. raw memory contents after every history) is established on the generated histories only'],
 'level_text': 'Machine-checked Coq theorems about a bit-exact Gallina model of UintVecMin0 (the packed store under ZipIntVec and the blob-store offset '
               'tables): for every width <= 58, every index and every memory content, a field never straddles the 64-bit load window, in-range reads and '
               'writes are defined and stay inside the allocation computed by compute_mem_size, a write reads back and leaves every other element unchanged, '
               'bulk build returns every element for all sequences of any length whose range fits 58 bits, in-place push_back appends without disturbing '
               'earlier elements; refutation witness for widths above 58. The model is tied to the code by replaying generated operation histories in Coq and '
               'comparing every output and the raw memory image. The other containers (SortedUintVec, IntVec, UintVector, ZipIntVec) are decided by a '
               'boundary-biased differential oracle only, labelled S-only.',
 'level_note': 'Trusted: Coq kernel + vm_compute; hand-written model; harness generators and shadow-Vec oracle. Unsafe pointer reads are modelled as index '
               'arithmetic with an explicit out-of-bounds outcome.',
 'technique': 'Coq proof by bit extensionality (N.testbit) + finite sweep lifted by lemma + induction over build; model/implementation differential check on '
              'operation histories by vm_compute; differential oracle for S-only cells',
 'explanation': 'Unbounded theorems for UintVecMin0; differential oracle for the other containers.'}
