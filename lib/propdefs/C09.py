"""Configuration of the C09 check (see lib/props.py)."""
P = {'id': 'C09',
 'level': 'proof',
 'theorems': ['field_fits_thm',
              'min0_get_defined',
              'min0_get_refuses_out_of_range',
              'min0_set_defined',
              'min0_set_get_same',
              'min0_set_get_other',
              'min0_get_build',
              'min0_push_back_fast',
              'min0_wide_refuted',
              'zip_get_build',
              'sorted_uint_vec_get',
              'sorted_uint_vec_get2',
              'sorted_uint_vec_get_block',
              'sorted_uint_vec_build_only_if',
              'intvec_write_bits',
              'intvec_read_bits',
              'intvec_any_strategy',
              'intvec_analysis_widths_cover',
              'intvec_construct_get',
              'uintvector_any_strategy',
              'uintvector_get_build',
              'uintvector_push_equals_bulk',
              'min0_build_from_u32_get',
              'min0_build_from_i32_get',
              'min0_push_back_all_paths',
              'min0_push_all_get',
              'zip_push_get'],
 'trusted': ['modelled (M+S): src/containers/uint_vec_min0.rs (compute_uintbits, compute_mem_size, get, set/set_uint_bits single-word path, new, resize, '
             'push_back all three paths, build_from_usize) with the byte vector represented as (length, little-endian number); '
             'src/containers/zip_int_vec.rs (new, get, set, build_from_usize/u32, push_back, resize) on top of it; '
             'src/blob_store/sorted_uint_vec.rs (SortedUintVecConfig::validate, builder push/finish/compress_values/store_bits_static, '
             'get/get2/get_unchecked/get_block_min_val/get_block_delta/extract_bits portable and BMI2 paths/get_block sequential and AVX2 paths) '
             'with index and data each as (length, little-endian number); '
             'src/containers/specialized/int_vec.rs (PackedInt::to_u64/from_u64 for u8..u64 and i8..i64, BitOps::compute_bit_width/extract_bits, '
             'SimdOps::analyze_range_bulk(_optimized), fast_sorted_check, detect_uniform_delta, analyze_delta_bulk/analyze_delta, '
             'analyze_small_dataset_strategy, analyze_fast_strategy, analyze_min_max, analyze_block_based, analyze_optimal_strategy with the '
             'estimated sizes, write_bits both paths, write_bits_bulk, read_bits incl. the ninth byte, compress_raw/min_max/delta/block_based and '
             'their *_bulk_simd counterparts incl. the byte-aligned copies, get_raw/get_min_max/get_delta/get_block_based, get, from_slice, '
             'from_slice_bulk, from_slice_bulk_simd with its size dispatch)',
             'src/containers/specialized/uint_vector.rs (calculate_run_ratio, estimate_run_length_size, compute_compressed_size, should_compress, '
             'analyze_optimal_strategy, compress_raw/min_max_bit_packed/run_length, write_bits_fast both paths, read_bits_fast, get_raw/get_min_max_bit_packed/'
             'get_run_length, get with pending values, push, quick_append, recompress_all, build_from); UintVecMin0::build_from_u32/build_from_i32 on top of the modelled new/set',
             'spec-only cells (direct oracle, no mechanism model): ZipIntVec/history (operation histories over all 17 public entry points incl. swap, clone, resize_with_range, shrink_to_fit, static fast_get), '
             'UintVector/build_from+push; oracle-only operations inside M+S cells (a case that contains one is not sent to the model): UintVecMin0 get2, back, shrink_to_fit, resize_with_uintbits, '
             'resize_with_wire_max_val, static fast_get, build_from_u32/i32 as the start of a history, Default; SortedUintVec builder extend / new / default / with_pool / reuse after a refusal, '
             'to_bytes + from_bytes, get_block into larger and shorter buffers; UintVector with_capacity / Default; IntVec Clone / new / Default; the (container, kind, n, seed) inputs of 2^16 and 2^20 elements',
             'not modelled: the byte-wise slow path of set_uint_bits (reachable only for widths > 58, which is the recorded finding); '
             'src/containers/specialized/int_vec/int_vec_simd.rs is not compiled into the crate (int_vec.rs declares an inline module of the same name), so nothing of it can run; '
             'IntVec functions no constructor reaches (compress_with_bulk_strategy and its non-SIMD bulk writers, compress_with_fast_strategy, analyze_bulk_fast_strategy, '
             'write_bits_fast, write_bits_fallback, from_slice_bulk_zerocopy, bulk_convert_to_u64) and the statistics fields'],
 'assumptions': ['usize is 64 bits',
                 'agreement of model and code (incl. raw memory contents after every UintVecMin0 history; every get/get2/get_block result of SortedUintVec; size/bits/min_val/every get of ZipIntVec) is established on the generated cases only',
                 'BMI2 PEXT with a contiguous mask and BEXTR are modelled by shift-and-mask; the AVX2 add in get_block by a wrapping add',
                 'IntVec: products of a length and a bit width do not wrap usize (they cannot for a slice that fits in memory); the f64 comparison of estimated '
                 'compression ratios in analyze_optimal_strategy is a parameter of the model (the theorems hold for every comparison function; the replayed cases use '
                 'the comparison of the numerators); fast_copy is a byte copy; agreement of model and code (len, data+index byte size, every replayed get) on the generated cases only',
                 'UintVector: the f64 comparisons `ratio < 0.8` and `run_ratio > 0.5` are parameters of the model (the theorems hold for every pair of comparison functions; '
                 'the replayed cases use the exact rational comparisons, which agree with f64 for all sizes below 2^40 bytes); agreement of model and code (len, stats().1 = stored bytes, '
                 'probes during construction, every replayed get) on the generated cases only'],
 'level_text': 'Machine-checked Coq theorems about bit-exact Gallina models of the five packed containers. UintVecMin0: for every width <= 58, every '
               'index and every memory content, a field never straddles the 64-bit load window, in-range reads and writes are defined and stay inside the '
               'allocation, a write reads back and leaves every other element unchanged, bulk build returns every element for all sequences whose range '
               'fits 58 bits, push_back on each of its three paths (in place, more memory, rebuild with wider fields) appends without disturbing earlier elements, so construction by push from new(0, max) returns every element; refutation witness for widths above 58. ZipIntVec: bulk build '
               'returns every element for every sequence of u64 values whose range fits 58 bits (also at the top of the usize range), reads past the end '
               'are refused; construction by new(0, min, max) + push_back gives the same observations. SortedUintVec: for every admissible configuration (block sizes 16..256, offset widths 8..32, sample widths 16..57 and 64, both '
               'bit-extraction paths) and every sequence, the builder succeeds exactly when the input is sorted, every in-block delta fits offset_width and '
               'every block minimum fits sample_width; then the length is preserved, get(i) returns element i, get2 is two gets, get_block returns the '
               'block followed by zeros, and every index or block index past the end is refused. IntVec<T>: both bit writers OR the masked value in at '
               'the offset on each of their paths and the reader returns the field for every width 1..64 (8-byte window up to 58 bits, ninth byte above); '
               'whatever strategy is used (raw, min-max, block based with any block size and a short last block, delta, uniform delta) with parameters that '
               'cover the input, on either compression path, for u8..u64 and i8..i64, the build succeeds, the length is kept, element i reads back with its '
               'sign and reads past the end return None; the widths computed by the small-dataset, fast and full analyses (global range, per-block maximum '
               'offset, largest block minimum, maximum adjacent delta, uniform delta) always cover; hence from_slice / from_slice_bulk / '
               'from_slice_bulk_simd return every element for every input. UintVector: with whatever strategy covers the input (raw, min-max bit '
               'packing, run length) the stored fields read back; build_from returns every element of every u32 sequence whatever the two floating-point '
               'comparisons of its analysis answer; construction by push (pending values, recompression of everything at every 64th push) succeeds and '
               'equals bulk construction at every index. UintVecMin0::build_from_u32 / build_from_i32 store every element of every u32 / i32 sequence '
               '(i32::MIN together with i32::MAX included). The models are tied to the code by replaying generated '
               'cases in Coq and comparing every output.',
 'level_note': 'Trusted: Coq kernel + vm_compute; hand-written models; harness generators and shadow-Vec oracle. Unsafe pointer reads are modelled as index '
               'arithmetic with an explicit out-of-bounds outcome; growing byte vectors as (length, number).',
 'technique': 'Coq proof by bit extensionality (N.testbit) + packed-field-array invariant through the builder loops + induction over build; '
              'model/implementation differential check on generated cases by vm_compute; direct shadow-Vec oracle on every cell',
 'explanation': 'Unbounded theorems for UintVecMin0 (incl. the typed builders), ZipIntVec, SortedUintVec, IntVec<T> and UintVector.'}
