"""Configuration of the C15 check (see lib/props.py)."""
P = {'id': 'C15',
 'coq_deps': ['C01', 'C02', 'C19'],
 'level': 'proof',
 'theorems': ['parser_total',
              'leb128_decode_total',
              'sequence_decoder_total',
              'delta_sequence_total',
              'group_varint_sequence_total',
              'sequence_decoder_unchecked_refuted',
              'lz_decompress_total',
              'lz_decompress_unlimited_refuted',
              'pazip_decode_total',
              'pazip_far2long_unfixed_refuted',
              'length_prefixed_read_total',
              'vec_u32_decode_total',
              'hex_decode_total',
              'hex_decode_to_slice_total',
              'sorted_uint_vec_load_total',
              'sorted_uint_vec_get_total',
              'sorted_uint_vec_unfixed_refuted',
              'zip_offset_load_total',
              'zip_offset_get_total',
              'length_prefixed_read_bounded',
              'length_prefixed_read_regressed_refuted',
              'huffman_deserialize_total',
              'huffman_decode_total',
              'huffman_unfixed_refuted',
              'rans_decode_total',
              'fse_decode_total',
              'fse_fastdiv_unfixed_refuted',
              'mmap_vec_open_total',
              'reorder_map_open_total',
              'dictionary_deserialize_total',
              'simd_lz77_decompress_total',
              'hex_decode_str_total',
              'base64_decode_total'],
 'trusted': ['modelled (M+S, 39 entry points of the first development): src/io/var_int.rs (VarInt::decode, decode_multiple, SignedVarInt::decode_signed), src/io/var_int_variants.rs '
             '(decode_u64 / decode_i64 / decode_u64_sequence / decode_i64_sequence for all 7 strategies, incl. check_sequence_count), src/entropy/dictionary.rs '
             '(DictionaryCompressor::decompress and OptimizedDictionaryCompressor::decompress: flag format, back-reference and size-limit checks; the model tracks '
             'the output length, not its contents), src/compression/dict_zip/compression_types.rs (BitReader, decode_variable_length, decode_match incl. validate, '
             'decode_matches), src/string/hex.rs (hex_decode_bytes, hex_decode_to_slice), src/io/data_input.rs (SliceDataInput read_var_int / read_length_prefixed_bytes incl. the chunked read_vec / skip / read_u8), src/io/smart_ptr.rs (Vec<u32>::deserialize)',
             'modelled (M+S, extension, 48 further cells: 41 formerly oracle-only + 7 new DataInput cells): src/blob_store/sorted_uint_vec.rs (from_bytes, get, get2, get_block, extract_bits - one definition for the BEXTR / PEXT / portable paths), '
             'src/blob_store/zip_offset.rs (FileHeader, load_from_reader, get; zstd records are WILD), src/io/data_input.rs read_vec with buffer growth on all four DataInput implementations, '
             'src/entropy/huffman.rs (HuffmanTree::deserialize for an arbitrary HashMap insertion order, ContextualHuffmanEncoder::deserialize, HuffmanDecoder::decode, ContextualHuffmanDecoder::decode orders 0/1/2, decode_x1/2/4/8 - over the C01 models), '
             'src/entropy/rans.rs (Rans64Decoder::decode 1/2/4/8 streams - over the C01 model), src/entropy/fse.rs (FseDecoder::decompress up to and including FseTable::new validation and FastDivision::new; the floating-point normaliser and the decoding loop behind it are not modelled: verdict "value or error"), '
             'src/memory/mmap_vec.rs (MmapVecHeader::validate, MmapVec::open - over the C19 model), src/blob_store/reorder_map.rs (ZReorderMap::open + iteration - over the C19 model), '
             'src/entropy/dictionary.rs (Dictionary::deserialize), src/compression/simd_lz77.rs (decompress: decode loop, reconstruct_from_matches, copy_backward_reference; output length only), '
             'src/string/hex.rs (hex_decode(&str)), src/system/base64.rs (AdaptiveBase64::decode, 4 engines: a specification of the base64 crate behaviour the wrapper relies on)',
             'oracle only (S-only, no mechanism model): ComplexTypeSerializer (12 cells), SmartPtrSerializer (4), Vec<Vec<String>>, read_string / String / Vec<String> / skip cells of the reader, range and mmap inputs, '
             'SliceDataInput fixed-width reads and length-prefixed string, MmapDataInput, MemoryMappedInput, the eight Compressor::decompress framings (+4 single-symbol), PaZipCompressor::decompress, '
             'remove_fse_compression, base64_decode_simd, simd_encoding (decode_varint, decode_varint_batch, decode_base64, decode_base64_from_buffer), SuffixArrayDictionary::deserialize, DfaCache::deserialize',
             'not covered: src/ffi/c_api.rs (exports no byte parser at the pinned commit; the `ffi` feature is not built), '
             'zstd / lz4_flex / base64 / bincode crate internals (exercised through the wrappers only)',
             'a panic is modelled where the checked (dev) profile panics: arithmetic overflow, division by zero, out-of-range slice/index, capacity overflow; counters bounded by '
             'the slice length are plain additions; memory safety of unsafe code is not modelled (observed by the oracle as SIGSEGV/SIGBUS only)',
             'the decoder loops of the Huffman models run min(expected length, 8 * input + 1) times - what the code does when every symbol costs at least one bit (guaranteed by the constructors and, since fix 7993515, by deserialize); '
             'a fuel-exhausted round-robin loop of decode_xN is reported as an error, not as non-termination'],
 'assumptions': ['usize is 64 bits; inputs shorter than 2^60 bytes (2^58 for ContextualHuffmanEncoder::deserialize; beyond that count * 8 resp. tree_count * 80 can exceed isize::MAX)',
                 'byte strings are lists of numbers below 256 where a theorem says bytes_ok; trained tables are arbitrary up to the stated side condition (rANS: frequencies sum to at most 4096; contextual encoder: at least one tree, map indices below the tree count)',
                 'allocation accounting covers explicit reservations (with_capacity / vec![0; n] / reserve); growth by push is bounded through the proved output-length bounds',
                 'agreement of model and code is established on the generated cases only',
                 'oracle: a child process under RLIMIT_AS = 1 GiB and a per-case wall-clock limit stands for "does not abort, overflow the stack, loop forever or allocate without bound"'],
 'level_text': 'Machine-checked Coq theorems (33, all closed under the global context) about a Gallina restatement, in an outcome monad with an explicit Panic and allocation accounting, of the parsers behind 88 of the 147 oracle cells: first the 39 parser entry '
               'points (all varint decoders and count-prefixed sequence decoders, the dictionary/LZ decompressor, the PA-Zip bit reader and match decoder, hex, length-prefixed reads, Vec<u32>): '
               'for every byte string (< 2^60 bytes) and every argument the run is not a panic and reserves at most 8 bytes per input byte plus one 64 KiB chunk (parser_total), with '
               'per-parser output bounds; refutation theorems with concrete witnesses for the three code shapes that were repaired (sequence decoder without the '
               'count check, LZ without the size limit, Far2Long `as u16 + 34`); then (extension) the blob-store loaders (SortedUintVec, ZipOffset), read_vec with buffer growth from every loop state, the Huffman family over the C01 models (deserialisers for any HashMap order, decoders with output <= min(expected, 8 * input + 1)), rANS-64 decode and the FSE header over the C01 models, MmapVec / ZReorderMap open over the C19 models, Dictionary::deserialize, SimdLz77 decompress, hex_decode(&str), Base64 - each with an unbounded totality theorem and, where a code shape was repaired or a seeded regression is known, a refutation theorem with a concrete witness (SortedUintVec sample overflow, division before validation, read_vec reserving the declared length, with_capacity(output_length), zero-length Huffman code, FastDivision shift 64, SimdLz77 distance 0). The model is tied to the compiled code on every run by evaluating ~1500 generated '
               'cases in Coq against what the implementation returned. All 147 parser cells - including those without a model - are decided by a direct oracle: '
               'every short byte string, every valid encoding mutated at every position, and long inputs (64 KiB - 200 kB) behind a lying length field, in child processes under an address-space and time limit, must yield '
               'Ok or Err.',
 'level_note': 'Trusted: Coq kernel + vm_compute; the hand-written model (agreement with the code is checked on generated cases only); harness generators, the '
               'child-process protocol and RLIMIT_AS as the stand-in for unbounded allocation. Cells marked S-only carry no proof.',
 'technique': 'Coq proof (outcome monad with a compositional `good` rule, induction over fuelled parser loops, lia) + model/implementation differential check '
              'evaluated by vm_compute + crash oracle in resource-limited child processes',
 'explanation': 'Unbounded Coq theorems about a Gallina restatement of the parsers behind 88 cells (reusing the C01 and C19 models) + differential check of that model against the compiled code + a '
                'crash/abort/timeout oracle over 147 parser cells in resource-limited child processes.'}
