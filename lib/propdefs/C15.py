"""Configuration of the C15 check (see lib/props.py)."""
P = {'id': 'C15',
 'level': 'proof',
 'theorems': [],
 'trusted': [],
 'assumptions': [],
 'level_text': 'wip',
 'level_note': 'wip',
 'technique': 'wip',
 'explanation': 'wip'}
