"""Configuration of the C15 check (see lib/props.py)."""
P = {'id': 'C15',
 'coq_deps': ['C01', 'C02', 'C19'],
 'level': 'proof',
 'theorems': ['parser_total',
              'leb128_decode_total',
              'sequence_decoder_total',
              'delta_sequence_total',
              'group_varint_sequence_total',
              'sequence_decoder_unchecked_refuted',
              'lz_decompress_total',
              'lz_decompress_unlimited_refuted',
              'pazip_decode_total',
              'pazip_far2long_unfixed_refuted',
              'length_prefixed_read_total',
              'vec_u32_decode_total',
              'hex_decode_total',
              'hex_decode_to_slice_total',
              'sorted_uint_vec_load_total',
              'sorted_uint_vec_get_total',
              'sorted_uint_vec_unfixed_refuted',
              'zip_offset_load_total',
              'zip_offset_get_total',
              'length_prefixed_read_bounded',
              'length_prefixed_read_regressed_refuted',
              'huffman_deserialize_total',
              'huffman_decode_total',
              'huffman_unfixed_refuted',
              'rans_decode_total',
              'fse_decode_total',
              'fse_fastdiv_unfixed_refuted',
              'mmap_vec_open_total',
              'reorder_map_open_total',
              'dictionary_deserialize_total',
              'simd_lz77_decompress_total',
              'hex_decode_str_total',
              'base64_decode_total'],
 'trusted': ['modelled (M+S, 39 entry points): src/io/var_int.rs (VarInt::decode, decode_multiple, SignedVarInt::decode_signed), src/io/var_int_variants.rs '
             '(decode_u64 / decode_i64 / decode_u64_sequence / decode_i64_sequence for all 7 strategies, incl. check_sequence_count), src/entropy/dictionary.rs '
             '(DictionaryCompressor::decompress and OptimizedDictionaryCompressor::decompress: flag format, back-reference and size-limit checks; the model tracks '
             'the output length, not its contents), src/compression/dict_zip/compression_types.rs (BitReader, decode_variable_length, decode_match incl. validate, '
             'decode_matches), src/string/hex.rs (hex_decode_bytes, hex_decode_to_slice), src/io/data_input.rs (SliceDataInput read_var_int / read_length_prefixed_bytes incl. the chunked read_vec / skip / read_u8), src/io/smart_ptr.rs (Vec<u32>::deserialize)',
             'oracle only (S-only, no mechanism model): HuffmanTree/HuffmanDecoder, ContextualHuffman (deserialize, decode order 0/1/2, decode_x1/2/4/8), FSE '
             '(fse_decompress, remove_fse_compression), Rans64Decoder x1/x2/x4/x8, Dictionary::deserialize, the eight Compressor::decompress framings (none, lz4, '
             'zstd, huffman, rans, dictionary, simd_lz77, hybrid), SimdLz77Compressor, PaZipCompressor::decompress, ZipOffsetBlobStore::load_from_reader (+get), SortedUintVec::from_bytes (+get/get2/get_block), '
             'ZReorderMap::open, MmapVec::open, MmapDataInput, SliceDataInput, ComplexTypeSerializer (tuple, HashMap, HashSet, BTreeMap, BTreeSet, array, Option, '
             'batch), SmartPtrSerializer (Box, Rc, Arc, Option<Box>), Vec<T> decoders, Base64 (4 configurations + base64_decode_simd), hex_decode(str)',
             'not covered: src/ffi/c_api.rs (exports no byte parser at the pinned commit; the `ffi` feature is not built), '
             'zstd / lz4_flex / base64 crate internals (exercised through the wrappers only)',
             'a panic is modelled where the checked (dev) profile panics: arithmetic overflow, out-of-range slice/index, capacity overflow; counters bounded by '
             'the slice length are plain additions; memory safety of unsafe code is not modelled (observed by the oracle as SIGSEGV/SIGBUS only)'],
 'assumptions': ['usize is 64 bits; inputs shorter than 2^60 bytes (beyond that count * 8 can exceed isize::MAX)',
                 'allocation accounting covers explicit reservations (with_capacity / vec![0; n] / reserve); growth by push is bounded through the proved output-length bounds',
                 'agreement of model and code is established on the generated cases only',
                 'oracle: a child process under RLIMIT_AS = 1 GiB and a per-case wall-clock limit stands for "does not abort, overflow the stack, loop forever or allocate without bound"'],
 'level_text': 'Machine-checked Coq theorems about a Gallina restatement, in an outcome monad with an explicit Panic and allocation accounting, of 39 parser entry '
               'points (all varint decoders and count-prefixed sequence decoders, the dictionary/LZ decompressor, the PA-Zip bit reader and match decoder, hex, length-prefixed reads, Vec<u32>): '
               'for every byte string (< 2^60 bytes) and every argument the run is not a panic and reserves at most 8 bytes per input byte plus one 64 KiB chunk (parser_total), with '
               'per-parser output bounds; refutation theorems with concrete witnesses for the three code shapes that were repaired (sequence decoder without the '
               'count check, LZ without the size limit, Far2Long `as u16 + 34`). The model is tied to the compiled code on every run by evaluating ~1500 generated '
               'cases in Coq against what the implementation returned. All 122 parser cells - including those without a model - are decided by a direct oracle: '
               'every short byte string and every valid encoding mutated at every position, in child processes under an address-space and time limit, must yield '
               'Ok or Err.',
 'level_note': 'Trusted: Coq kernel + vm_compute; the hand-written model (agreement with the code is checked on generated cases only); harness generators, the '
               'child-process protocol and RLIMIT_AS as the stand-in for unbounded allocation. Cells marked S-only carry no proof.',
 'technique': 'Coq proof (outcome monad with a compositional `good` rule, induction over fuelled parser loops, lia) + model/implementation differential check '
              'evaluated by vm_compute + crash oracle in resource-limited child processes',
 'explanation': 'Unbounded Coq theorems about a Gallina restatement of 39 parser entry points + differential check of that model against the compiled code + a '
                'crash/abort/timeout oracle over 122 parser cells in resource-limited child processes.'}
