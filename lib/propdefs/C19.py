"""Configuration of the C19 check (see lib/props.py)."""
P = {'id': 'C19',
 'level': 'proof',
 'theorems': ['mv_reopen_after_clean_sync',
              'mv_open_inside_file',
              'mv_open_elements',
              'mv_truncated_refused',
              'mv_sync_crash_safe',
              'mv_history_crash_safe',
              'crash_compose',
              'puts_history_crash_safe',
              'replace_crash_safe',
              'mv_set_len_safe',
              'ro_roundtrip',
              'ro_truncated_refused',
              'mv_torn_rewrite_v0_refuted',
              'zo_save_is_zip_image',
              'zo_reopen_after_save',
              'zo_truncated_refused',
              'zo_footer_cut_reopens',
              'zo_load_inside_file',
              'replace_multi_crash_safe',
              'zo_save_crash_safe',
              'zo_resave_crash_safe',
              'plain_crash_safe',
              'plain_tmp_truncated',
              'plain_put_notrunc_refuted',
              'mv_ops_preserve_header_inv',
              'mv_ops_sync_reopens',
              'mv_copy_from_underreserve_refuted',
              'ro_builder_writes_concat',
              'ro_build_crash_safe',
              'ro_builder_whole_blocks_refuted',
              'mmio_roundtrip',
              'mmio_history_inv',
              'crash_setlen_compose',
              'mv_units_crash_safe',
              'mv_traced_history_crash_safe'],
 'coq_deps': ['C03'],
 'trusted': ['modelled (M+S): src/memory/mmap_vec.rs MmapVecHeader::validate, open/validate_file_length, len/get, the file image sync() writes, the '
             'file operations sync()/resize_to_capacity issue, and the in-memory operations (push/grow, pop, get_mut, truncate, clear, reserve, '
             'shrink_to_fit, resize, extend, push_bulk_simd, copy_from_simd, sync, reopen) as a state machine over (elements, capacity, file length); '
             'src/blob_store/reorder_map.rs builder record encoding, its buffered write sequence and temporary-file protocol, and '
             'open/validate_entries/iteration; src/blob_store/zip_offset.rs FileHeader, save_to_writer/save_to_file, load_from_reader, get, with '
             'src/blob_store/sorted_uint_vec.rs to_bytes/from_bytes/get2 (byte-exact); src/blob_store/plain.rs put/remove/reopen refined to named file '
             'operations (ids from the C03 directory model); src/io/mmap.rs MemoryMappedOutput create/ensure_capacity/write_slice/seek/truncate and '
             'MemoryMappedInput len/read_slice (all evaluated against the real readers and writers on every run)',
             'spec-only (oracle on the real code, no mechanism model): SuffixArrayDictionary save/load (bincode image; its write protocol is compared '
             'with the modelled atomic-replace sequence), DictZipBlobStore dictionary files (save_dictionary / load_dictionary / '
             'from_dictionary_file), NestLoudsTrieBlobStore (its records reach a file through finalize + blob_store().save_to_file), '
             'ReplaceSelectSort run files (parsed by the definition of their format; a finished run cut short before the merge must fail the sort), '
             'and the secondary entry points, presets, element types (signed, u128, 3-byte, zero-sized) and thresholds of the modelled cells '
             '(design/C19.md, Oracle breadth): histories containing them are judged by the oracle and left out of the model comparison',
             'zstd (compress_level > 0) is outside the model: the modelled ZipOffsetBlobStore cases are built with compress_level 0; the presets '
             'with zstd levels 1-12 (22 in the thorough tier) are oracle-only',
             'the in-process file-operation tracer of the harness (libc symbol interposition; self-tested at start-up and cross-checked against the '
             'real directory after every case) and the crash relation built on it: ordered prefixes, torn last write, one unsynced write dropped, '
             'one 4 KiB block rolled back; fsync pins earlier writes of that file; rename/unlink/set_len atomic',
             'not covered: real power-loss behaviour of a file system beyond that relation, mmap coherence, the blobs of a DictZipBlobStore and the '
             'trie of a NestLoudsTrieBlobStore (neither is ever written to a file), MemoryMappedAllocator (anonymous mappings)'],
 'assumptions': ['a crash leaves the operations issued before it applied in order, except as the stated relation allows',
                 'agreement of model and code is established on the generated cases only',
                 'the reader process runs on the same machine and file system as the writer'],
 'level_text': 'Machine-checked Coq theorems, for all element sizes 1/2/4/8, all contents, capacities, unused-capacity bytes, all cut positions and all '
               'byte strings, about a Gallina restatement of MmapVec open/validate/read and of the file operations its sync issues, over an explicit '
               'crash relation (clean reopen is exact; whatever open accepts lies inside the file; every truncation of a synced file is refused; every '
               'crash image of sync() reopens as the old or the new content; in-place set_len is safe; the pinned tree\'s protocol is refuted by a '
               'witness), and likewise about the ZipOffsetBlobStore file (save then load gives the store back for every content length, every '
               'truncation before the unread footer is refused, whatever load accepts lies inside the file), the multi-write atomic-replace protocol '
               '(every crash image: old file or the complete concatenation of the writes), PlainBlobStore histories under the crash relation, every '
               'MmapVec operation history (length <= capacity and the file covers the capacity), the buffered writes of ZReorderMapBuilder and '
               'MemoryMappedOutput/Input; three seeded regressions are refuted on the model by witnesses. The model is tied to the compiled code on every run by evaluating hundreds of real and damaged file images in Coq against '
               'what a separate reader process observed, and a direct oracle traces the real file operations of every writer, constructs the crash '
               'images and truncations and reopens each in a child process. Proof is the right level because the quantifier is all histories, all '
               'crash points and all byte strings.',
 'level_note': 'Trusted: Coq kernel + vm_compute; the hand-written model (agreement with the code is checked on generated cases only); the harness '
               'tracer, crash relation, generators and oracle. Oracle-only cells: SuffixArrayDictionary, DictZipBlobStore dictionaries, NestLoudsTrieBlobStore, ReplaceSelectSort run files. All other cells (MmapVec, ZReorderMap, '
               'PlainBlobStore, ZipOffsetBlobStore, MemoryMappedOutput/Input) have executable models of writer and reader checked against the code on '
               'every run and unbounded theorems (round trip, truncation, inside-file, crash safety of the write protocol, header invariant of every '
               'operation history).',
 'technique': 'Coq proof (list/firstn/skipn reasoning, case analysis over the crash relation, lia) + model/implementation differential check evaluated by '
              'vm_compute + traced crash-image oracle with reopen in a separate process',
 'explanation': 'Unbounded Coq theorems about a Gallina restatement of MmapVec open/sync and an explicit crash relation + differential check of the model '
                'against the compiled reader/writer + crash-image oracle on the real code (file operations traced, images reopened in a child process).',
 'harness_timeout': 1500}
