"""Configuration of the C12 check (see lib/props.py)."""
P = {'id': 'C12',
 'level': 'proof',
 'theorems': ['lex_lt_characterisation',
              'sa_unique',
              'sort_suffixes_is_sa',
              'check_sa_iff',
              'build_is_sa',
              'dc3_pinned_refuted',
              'search_exact',
              'search_all_and_only',
              'search_count_exact',
              'wrapper_search_same',
              'kasai_correct',
              'bwt_correct',
              'bwt_perm',
              'c12_pipeline',
              'sa_equal_range_exact',
              'sa_match_continuation_longest',
              'da_match_is_continuation',
              'da_match_max_length_longest',
              'esa_lcp_at_is_kasai',
              'esa_bwt_is_bwt',
              'cesa_lcp_at_is_kasai',
              'cesa_too_long_refused',
              'stored_width_exact_iff',
              'cesa_narrow_width_refuted',
              'sort_by_cmp_is_sa',
              'build_by_plain_is_build',
              'build_by_is_sa',
              'keyed_compare_is_suffix_compare',
              'keyed_sort_is_sa',
              'keyed_sort_last_nonzero',
              'keyed_compare_refuted',
              'sais_classify_correct',
              'sais_names_order_lms_substrings',
              'sais_recursion_needed_iff_duplicate_names',
              'sais_is_sa_partial',
              'sais_go_is_sa_partial',
              'sais_too_long_refused',
              'induced_sort_lemmas_small'],
 'trusted': ['modelled (M+S): src/algorithms/suffix_array.rs SuffixArray::{compare_suffix_pattern, lower_bound, upper_bound, search_range, search}, '
             'SuffixArrayBuilder::{select_algorithm, build, build_sequential, build_parallel, dc3_construct, divsufsort_construct, '
             'larsson_sadakane_construct, fallback_sort}, LcpArray::compute_lcp_kasai, EnhancedSuffixArray::compute_bwt; '
             'src/compression/suffix_array.rs EnhancedSuffixArray::{lower_bound, upper_bound, find_pattern_range}, compute_lcp_kasai (same text)',
             'certificate-checked, not modelled (cell build/SAIS is S-only): sais_construct (induced sorting) - every SA-IS output of a run on a text of at most '
             '300 bytes is passed through the verified checker check_sa inside Coq; larger ones are judged by the Rust oracle only',
             'parameter of the model: the f64 part of select_algorithm (entropy, repetition ratio); build_is_sa quantifies over every choice it can make',
             'spec-only cells (direct oracle, no mechanism model): compression::dict_zip::SuffixArrayDictionary::{sa_match_continuation, da_match_max_length}; '
             'the IntVec storage of the compressor (values read back through suffix_at_rank / lcp_at)',
             "not modelled: Rust's sort_by (a comparison sort on pairwise distinct keys; the model sorts by insertion and sa_unique shows every correct sort "
             'returns the same list)'],
 'assumptions': ['usize arithmetic is modelled on unbounded nat: no overflow is reachable (mid = left + (right-left)/2, indices <= n <= 2^30)',
                 'agreement of model and code is established on the generated cases only',
                 'SA-IS correctness is established per run on the cases run, not for all texts'],
 'level_text': 'Machine-checked Coq theorems, for every byte string with no length bound, about a Gallina restatement of the suffix-array code as written: the '
               'suffix array is unique; the sort-based constructions (DC3, DivSufSort, Larsson-Sadakane, fallback, Adaptive below the threshold) with their '
               'short-input special cases return it for every configuration; a verified certificate checker decides "is the suffix array"; Kasai as written '
               '(h not reset at rank 0) returns the exact LCP array; compute_bwt is the BWT induced by the order and a permutation of the text; search_range '
               'returns exactly the contiguous rank range of the suffixes that start with the pattern, search lists all and only the occurrences with the right '
               'count, and the compressor\'s copy of the loops returns the same range. SA-IS is not proved: its outputs are certified per run by the verified '
               'checker evaluated in Coq. The model is tied to the compiled code on every run by evaluating 1250 cases in Coq (arrays, LCP, BWT and search results '
               'of the implementation must be reproduced by the model, and the oracle verdict must equal check_sa), and a naive oracle judges every implementation '
               'and configuration on an exhaustive small universe plus boundary-biased generated texts.',
 'level_note': 'Trusted: Coq kernel + vm_compute; the hand-written model (agreement with the code is checked on generated cases only); harness generators and '
               'naive oracle. The SA-IS cell and the dictionary matcher cells are S-only (oracle / per-run certificate), not proof.',
 'technique': 'Coq proof (strict-order uniqueness of sorted permutations, insertion-sort correctness, binary-search invariant over a comparator proved monotone '
              'along a sorted array, Kasai loop invariant "h = 0 or h <= lcp with some smaller suffix") + verified certificate checker applied to SA-IS outputs '
              '+ model/implementation differential check by vm_compute + naive oracle over an enumerated universe',
 'explanation': 'Unbounded theorems for the sort-based constructions, search_range/search, Kasai, BWT and the certificate checker; SA-IS outputs certified per '
                'run; exhaustive small-universe oracle over all five algorithms, LCP, BWT, search, the compressor wrapper and the PA-Zip dictionary matcher.'}
