"""Configuration of the C12 check (see lib/props.py)."""
P = {'id': 'C12',
 'level': 'proof',
 'theorems': ['lex_lt_characterisation',
              'sa_unique',
              'sort_suffixes_is_sa',
              'check_sa_iff',
              'build_is_sa',
              'dc3_pinned_refuted',
              'search_exact',
              'search_all_and_only',
              'search_count_exact',
              'wrapper_search_same',
              'kasai_correct',
              'bwt_correct',
              'bwt_perm',
              'c12_pipeline',
              'sa_equal_range_exact',
              'sa_match_continuation_longest',
              'da_match_is_continuation',
              'da_match_max_length_longest',
              'esa_lcp_at_is_kasai',
              'esa_bwt_is_bwt',
              'cesa_lcp_at_is_kasai',
              'cesa_too_long_refused',
              'stored_width_exact_iff',
              'cesa_narrow_width_refuted',
              'sort_by_cmp_is_sa',
              'build_by_plain_is_build',
              'build_by_is_sa',
              'keyed_compare_is_suffix_compare',
              'keyed_sort_is_sa',
              'keyed_sort_last_nonzero',
              'keyed_compare_refuted',
              'sais_classify_correct',
              'sais_names_order_lms_substrings',
              'sais_recursion_needed_iff_duplicate_names',
              'sais_is_sa_partial',
              'sais_go_is_sa_partial',
              'build_with_sais_model_is_sa',
              'sais_too_long_refused',
              'induced_sort_lemmas_small'],
 'trusted': ['modelled (M+S): src/algorithms/suffix_array.rs SuffixArray::{compare_suffix_pattern, lower_bound, upper_bound, search_range, search}, '
             'SuffixArrayBuilder::{select_algorithm, build, build_sequential, build_parallel, dc3_construct, divsufsort_construct, '
             'larsson_sadakane_construct, fallback_sort}, LcpArray::{compute_lcp_kasai, lcp_at}, EnhancedSuffixArray::{with_lcp, with_bwt, compute_bwt}; '
             'SA-IS: sais_construct, sais_construct_with_depth, classify_suffixes, find_lms_suffixes, compute_bucket_boundaries, induced_sort, induce_l_type, '
             'induce_s_type, compact_lms_suffixes, name_lms_substrings, are_lms_substrings_equal (executable model ModelSais.v, final array and per-level '
             'intermediate arrays compared with the code through the cfg(zipora_verif) trace hook); '
             'src/compression/suffix_array.rs SuffixArrayCompressor::build_suffix_array (u32 casts, index refusal), EnhancedSuffixArray::{suffix_at_rank, lcp_at, '
             'len, is_empty, text_len, lower_bound, upper_bound, find_pattern_range}, compute_lcp_kasai (same text); '
             'src/compression/dict_zip/dictionary.rs SuffixArrayDictionary::{sa_equal_range, sa_equal_range_linear, sa_equal_range_binary_optimized, '
             'sa_match_continuation, da_match_max_length}',
             'hypotheses of sais_is_sa_partial (not proved): final_ok and first_ok, the correctness of one round of induced sorting seeded with sorted LMS '
             'suffixes / of the first round plus naming (order isomorphism of the reduced string); they are evaluated on every string of length <= 12 over 2 letters '
             'and <= 8 over 3 (induced_sort_lemmas_small), and every SA-IS output of a run on a text of at most 300 bytes is still passed through the verified '
             'checker check_sa inside Coq (larger ones: Rust oracle only)',
             'parameters of the models: the f64 part of select_algorithm (entropy, repetition ratio; build_is_sa quantifies over every choice it can make); '
             'the trie transition function used by da_match_max_length (ZiporaTrie, property C05; the theorem needs only "no transition from the root to the root", '
             'and the correspondence cases would show a violation as a disagreement); DfaCache::get_zstr_length and get_state are constant None / root-only in this code',
             'taken as a faithful store: the packed-integer container IntVec<u32> (property C09) behind compression::suffix_array (values read back through '
             'suffix_at_rank / lcp_at are compared with the model); the DFA-cache construction inside SuffixArrayDictionary (only its query results are judged)',
             "not modelled: Rust's sort_by (a comparison sort on pairwise distinct keys; the model sorts by insertion and sa_unique shows every correct sort "
             'returns the same list)'],
 'assumptions': ['usize arithmetic is modelled on unbounded nat: no overflow is reachable (mid = left + (right-left)/2, indices <= n <= 2^30; suffix_idx + pos <= 2n); '
                 'the `as u32` casts of compression::suffix_array are modelled as reduction modulo 2^32',
                 'agreement of model and code is established on the generated cases only',
                 'SA-IS: sais_is_sa_partial is conditional on the two induced-sort hypotheses; unconditional SA-IS correctness is established per run on the cases run'],
 'level_text': 'Machine-checked Coq theorems, for every byte string with no length bound, about a Gallina restatement of the suffix-array code as written: the '
               'suffix array is unique; the sort-based constructions (DC3, DivSufSort, Larsson-Sadakane, fallback, Adaptive below the threshold) with their '
               'short-input special cases return it for every configuration, and for every comparator that is the slice order on the suffixes - a zero-padded '
               'key-then-remainder comparison is characterised exactly (it differs only on two different strings inside the key with equal padded keys; wrong on '
               '"\\0\\0"); a verified certificate checker decides "is the suffix array"; Kasai as written returns the exact LCP array; compute_bwt is the BWT '
               'induced by the order; search_range / search return exactly the rank range / all and only the occurrences, and the compressor\'s copy of the loops '
               'returns the same range; both enhanced-suffix-array containers return the Kasai value at every rank through lcp_at (the u32 store of the compressor is '
               'exact for every text it accepts, i.e. up to 2^32 bytes, longer ones are refused; a W-bit store is exact iff all values are below 2^W); the PA-Zip '
               'dictionary\'s sa_equal_range (phase-1 skip, linear shortcut, find-any, lower and upper bound) returns exactly the ranks of a common-prefix range with '
               'byte c at depth d, sa_match_continuation the longest occurring prefix of the input with its exact rank range, and da_match_max_length is the same '
               'function for every trie without a root self-transition. SA-IS has an executable model of the code (classification, LMS, buckets, induced sorting L '
               'then S, naming, fuelled recursion, depth fallback): classification and LMS positions equal their definitions, names are order-isomorphic to the LMS '
               'substrings, the recursion is entered iff two names coincide, and the whole algorithm returns the suffix array given two stated facts about one round '
               'of induced sorting (hypotheses; checked on a complete small domain, and each run\'s outputs are certified by the verified checker). The models are '
               'tied to the compiled code on every run by evaluating about 1550 cases in Coq (arrays, LCP, BWT, search results, dictionary range / match calls, '
               'accessor probes, SA-IS final arrays and per-level intermediate arrays must be reproduced by the models, and the oracle verdict must equal check_sa), and '
               'a naive oracle judges every implementation and configuration on an exhaustive small universe plus boundary-biased generated texts.',
 'level_note': 'Trusted: Coq kernel + vm_compute; the hand-written models (agreement with the code is checked on generated cases only); harness generators and '
               'naive oracle. SA-IS end-to-end correctness is conditional on the two induced-sort hypotheses (plus per-run certificates); IntVec and ZiporaTrie are '
               'outside this property.',
 'technique': 'Coq proof (strict-order uniqueness of sorted permutations, insertion-sort correctness, binary-search invariants over a comparator / probe key proved '
              'monotone along a sorted array, Kasai loop invariant, running-class-counter lemmas for the LMS naming, fuel induction for the SA-IS recursion) + verified '
              'certificate checker applied to SA-IS outputs + model/implementation differential check by vm_compute (including a cfg-guarded trace hook for the SA-IS '
              'intermediate arrays) + naive oracle over an enumerated universe',
 'explanation': 'Unbounded theorems for the sort-based constructions and comparator shapes, search_range/search, Kasai, BWT, both enhanced containers, the PA-Zip '
                'dictionary matcher and the certificate checker; SA-IS modelled and proved up to two induced-sort hypotheses, outputs certified per run; exhaustive '
                'small-universe oracle over all five algorithms, LCP, BWT, search, the compressor wrapper and every refinement step of the dictionary matcher.'}
