"""Configuration of the C06 check (see lib/props.py)."""
P = {'id': 'C06',
 'level': 'proof',
 'theorems': ['norm_avoids_markers',
              'std_refines_map',
              'smallmap_refines_map',
              'gold_refines_map',
              'remove_loop_is_get_loop',
              'sentinel_unmapped_refuted',
              'tombstone_first_slot_refuted',
              'iter_tombstone_refuted',
              'stub_refuted'],
 'trusted': ['modelled (M+S): src/hash_map/zipora_hash_map.rs standard storage - normalize_hash/hash_key, insert + insert_standard (lazy sizing to max(capacity,16), '
             'probe (index+i)&mask, first-tombstone reuse after the probe), resize_storage (max(2*len,32), re-insertion at the first empty slot, Err path), get_standard, '
             'get_mut_standard, remove_standard (tombstones), len, iterator, clear_standard, FastVec capacity bookkeeping; the hasher is a function parameter; keys and values are numbers '
             '(u64 in the harness); the three stub storages are modelled as the stubs they are; src/containers/specialized/small_map.rs (inline arrays, swap-remove, promotion, clear) is modelled '
             'and compared on every run',
             'spec-only cells (direct oracle against std BTreeMap, no mechanism model): GoldHashMap (4 presets + 3 custom configs, u32 and u64 links, hash cache, auto GC, freelist on/off), '
             'GoldHashIdx (new, with_capacity, with_pool), EasyHashMap (5 builder variants), HashStrMap',
             'std_refines_map is stated for power-of-two initial capacities (default 16, pool preset 64, with_capacity(2^k)); other capacities (with_capacity(100), custom initial_capacity 3/10/24, '
             'capacity left by clear()) are covered by the model/implementation comparison and the oracle only',
             'the harness hashers (ten functions incl. constant 0, constant u64::MAX, k mod 4, k<<60) are mirrored by `hasher` in Model.v; a mismatch between the two shows up as a model/implementation disagreement'],
 'assumptions': ['usize is 64 bits; (hash as usize) & mask and index + i do not overflow',
                 'K: Eq is a true equality and Hash is consistent with it; the hasher is a function of the key (BuildHasher::build_hasher yields the same function every time)',
                 'entries[probe_index] is in bounds (mask < len) - holds for every state the model reaches from a power-of-two capacity; other capacities are exercised by the comparison only',
                 'agreement of model and code is established on the generated and enumerated histories only; allocation failure is not modelled'],
 'level_text': 'Machine-checked Coq theorem std_refines_map: for EVERY hasher (an arbitrary function N -> N, so also ones returning 0, u64::MAX or a constant), every power-of-two initial capacity and '
               'EVERY finite history of insert/remove/get/get_mut/contains_key/len/iter/clear, the exact Gallina model of ZiporaHashMap\'s standard storage (after four small fix: commits) returns what a '
               'mathematical map returns - insert/remove return the previous value exactly when present, get is the last value inserted unless removed, len is the number of live keys, iteration is a '
               'permutation of the live entries - across lazy sizing, tombstone reuse, growth (resize never fails) and clear. Proved by a table invariant (every live slot is what a search for its key '
               'finds) preserved by each operation, plus a pigeonhole argument for growth. Refutation theorems show that the pre-fix code (marker hashes, first-tombstone reuse, tombstone-yielding '
               'iterator) and the three stub storage strategies do not have the property. The model is tied to the code on every run by replaying ~1200 histories in Coq (vm_compute) under ten '
               'caller-supplied hashers and nine capacities. GoldHashMap, GoldHashIdx, EasyHashMap and HashStrMap are decided by the differential oracle only (S-only); SmallMap is modelled and compared (M+S).',
 'level_note': 'Trusted: Coq kernel + vm_compute; the hand-written model and its mirror of the test hashers; harness generators and the BTreeMap oracle. The theorem is about the model; keys/values are '
               'natural numbers, Rust generics (K: Hash+Eq+Clone) are not modelled.',
 'technique': 'Coq refinement proof (invariant + simulation over all histories, hasher universally quantified) for the open-addressing table; refutation witnesses by vm_compute for the pre-fix code and the stubs; '
              'model/implementation differential check on operation histories evaluated in Coq; differential oracle (std BTreeMap) over every map type, preset and adversarial hasher, incl. an enumerated '
              'universe of all short histories over three colliding keys',
 'explanation': 'Unbounded refinement theorem for ZiporaHashMap standard storage (all hashers, all histories); exact-model comparison for SmallMap; differential oracle for the remaining map types; '
                'stub storage strategies are a recorded finding.'}
