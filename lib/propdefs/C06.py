"""Configuration of the C06 check (see lib/props.py)."""
P = {'id': 'C06',
 'level': 'proof',
 'theorems': ['norm_avoids_markers',
              'std_refines_map',
              'smallmap_refines_map',
              'gold_refines_map',
              'easy_refines_map',
              'idx_refines_map',
              'get_fast_is_get',
              'smallmap_u8_refines_map',
              'get_fast_unmasked_refuted',
              'hashstr_refines_map',
              'hashstr_counters',
              'easy_ext_refines_map',
              'idx_batch_refines_map',
              'remove_loop_is_get_loop',
              'sentinel_unmapped_refuted',
              'tombstone_first_slot_refuted',
              'iter_tombstone_refuted',
              'stub_refuted'],
 'trusted': ['modelled (M+S): src/hash_map/zipora_hash_map.rs standard storage - normalize_hash/hash_key, insert + insert_standard (lazy sizing to max(capacity,16), '
             'probe (index+i)&mask, first-tombstone reuse after the probe), resize_storage (max(2*len,32), re-insertion at the first empty slot, Err path), get_standard, '
             'get_mut_standard, remove_standard (tombstones), len, iterator, clear_standard, FastVec capacity bookkeeping; the hasher is a function parameter; keys and values are numbers '
             '(u64 in the harness); the three stub storages are modelled as the stubs they are',
             'modelled (M+S): src/containers/specialized/small_map.rs (inline arrays, first-match search, swap-remove, promotion to ZiporaHashMap::new() at the 9th key, clear demotes)',
             'modelled (M+S): src/hash_map/gold_hash_map.rs - with_config, insert (rehash trigger, chain walk, allocate_slot with freelist pop or append, hash-cache maintenance, head insertion), '
             'remove (unlink, free_slot, auto-GC trigger), revoke_deleted (compaction + relink), rehash/relink, next_prime with the PRIMES table, get/get_mut, len, safe iteration, clear; '
             'the hash function (DefaultHasher) and the f32 max-load computation are function parameters, instantiated per case with tables computed by the harness from the real code; '
             'the link-type capacity check (index > L::MAX, u32 vs u64 links) is not modelled',
             'modelled (M+S): src/containers/specialized/easy_hash_map.rs - put() with the auto-grow rebuild (ZiporaHashMap::with_capacity(max(2*capacity,64)), every iterated entry re-inserted, errors ignored), '
             'get/remove/contains_key/len/clear delegating to the inner map; get_or_insert / get_or_insert_with (contains_key, put if absent, get_mut().expect()) and extend / Extend / FromIterator as the loop of their put() calls '
             '(ModelEasyX.v, theorem easy_ext_refines_map); the f64 load-factor test is a function parameter; shrink_to_fit and retain are not modelled',
             'modelled (M+S): src/containers/specialized/gold_hash_idx.rs - with_capacity, insert (resize check, unbounded probe, allocate_value with free-list pop or push, store_value), resize/resize_to '
             '(re-insertion of every bucket, old value slots not released), get/get_mut, remove (free_value, rehash_after_removal: take out and re-place the following cluster), len; the hash function '
             '(AHasher) is a parameter; insert_batch (pre-sizing through resize_to to any power of two + the insert loop: ModelIdxX.v, theorem idx_batch_refines_map) is modelled; get_batch, shrink_to_fit and the memory statistics are not modelled; answers only are compared (the type exposes no layout)',
             'modelled (M+S): src/containers/specialized/small_map.rs SmallMap<u8>::get_fast - impl OptimizedSearch for u8 at the level of the 16 byte lanes and the 32 mask bits (zero-initialised key buffer, '
             '_mm_loadl_epi64, _mm_cmpeq_epi8, _mm_movemask_epi8, the lane mask (1 << min(len,8)) - 1 of fix 3fcc283, trailing_zeros), find_key_index_simd (unrolled search up to 4 keys), get_fast; '
             'the SSE2 intrinsics are modelled by their documented lane semantics; the dead u32/u64/i32 search impls are not modelled',
             'modelled (M+S): src/containers/specialized/hash_str_map.rs - the wrapper (entry point -> map call, total_inserts / unique_keys bookkeeping, clear, statistics()); the inner std::collections::HashMap is TRUSTED to be a map '
             '(its operations are the spec operations); String keys are numbered injectively by the harness; insert_fast_str with non-UTF-8 bytes is not exercised',
             'tied to the existing models on canonical key/value numbers (M+S): ZiporaHashMap<String> (lookups through &str, hash_key_borrowed) and ZiporaHashMap<T> for seven rarely used type pairs - standard-storage model under a hash '
             'function given as a per-case table of what the real BuildHasher returns for the real key; GoldHashMap<T> with a DefaultHasher table; GoldHashIdx<T>, SmallMap<T>, EasyHashMap<T> by their answers. '
             'Rust generics themselves (monomorphisation, Borrow, Drop of keys/values) are not modelled',
             'spec-only cells (direct oracle against std BTreeMap, no model comparison): ZiporaHashMap with the default hasher parameter (ahash / std RandomState, seeds unknown to the harness); '
             'the eighteen hash_functions.rs hashers are compared with the model through per-case hash tables (kind 6)',
             'oracle only (no model, judged by the BTreeMap shadow inside the same histories): housekeeping calls (reserve, shrink_to_fit, revoke_deleted, set_hash_caching, set_auto_grow, '
             'set_max_load_factor, statistics, Debug), Clone / PartialEq, bulk insertion (insert_batch, extend, Extend, FromIterator), alternative lookups (get_batch, get_or_default, get_by_fast_str, '
             'is_interned), get_or_insert(_with) on absent keys, retain, alternative iteration (iter_fast, keys/values, ExactSizeIterator), every further constructor / preset / builder option, '
             'eighteen hash functions of hash_functions.rs as the caller-supplied hasher, threshold sweeps and fills past 2^16 entries; the model comparison '
             'skips the content-preserving ones and stops before the first content-changing one',
             'std_refines_map is stated for power-of-two initial capacities (default 16, pool preset 64, with_capacity(2^k)); other capacities (with_capacity(100), custom initial_capacity 3/10/24, '
             'capacity left by clear()) are covered by the model/implementation comparison and the oracle only',
             'the harness hashers (ten functions incl. constant 0, constant u64::MAX, k mod 4, k<<60) are mirrored by `hasher` in Model.v; a mismatch between the two shows up as a model/implementation disagreement',
             'quick tier compares the answers of every operation (iteration sorted); thorough tier additionally compares slot/entry order, capacity, bucket count and deleted count at the end of each history'],
 'assumptions': ['usize is 64 bits; (hash as usize) & mask and index + i do not overflow',
                 'K: Eq is a true equality and Hash is consistent with it; the hasher is a function of the key (BuildHasher::build_hasher yields the same function every time)',
                 'entries[probe_index] is in bounds (mask < len) - holds for every state the model reaches from a power-of-two capacity; other capacities are exercised by the comparison only',
                 'GoldHashMap: fewer than L::MAX entries (the link-type overflow error path is not modelled)',
                 'agreement of model and code is established on the generated and enumerated histories only; allocation failure is not modelled'],
 'level_text': 'Machine-checked Coq refinement theorems, each for EVERY hash function (an arbitrary function N -> N, so also ones returning 0, u64::MAX or a constant) and EVERY finite history of '
               'insert/remove/get/get_mut/contains_key/len/iter/clear: std_refines_map (ZiporaHashMap standard storage after four small fix: commits, every power-of-two initial capacity: lazy sizing, '
               'tombstone reuse, growth - resize never fails -, clear), smallmap_refines_map (SmallMap: inline arrays with swap-remove, promotion at the 9th key, demotion on clear) and gold_refines_map '
               '(GoldHashMap: bucket chains, per-entry links, deleted-slot free list, auto-GC compaction, rehash; every combination of hash cache / auto GC / freelist reuse, every load-factor function, '
               'every initial capacity; the chain walk never gets stuck) easy_refines_map (EasyHashMap: rebuild-on-growth for every growth decision function) and idx_refines_map (GoldHashIdx: open addressing where removal re-places the following cluster, value pool with free list, growth; '
               'no probe or re-placement loop runs out of fuel). In each, the exact Gallina model of the code returns what a mathematical map returns: insert/remove return the previous value '
               'exactly when present, get is the last value inserted unless removed, len is the number of live keys, iteration is a permutation of the live entries. Refutation theorems show that the '
               'pre-fix code (marker hashes, first-tombstone reuse, tombstone-yielding iterator) and the three stub storage strategies do not have the property. The models are tied to the code on every '
               'run by replaying ~1500 histories in Coq (vm_compute) under ten caller-supplied hashers, nine capacities and nine GoldHashMap configurations. Extension: get_fast_is_get / smallmap_u8_refines_map '
               '(SmallMap<u8>::get_fast, the SSE2 key search modelled lane by lane and mask bit by mask bit, returns what get returns in every reachable state; get_fast_unmasked_refuted for the code before 3fcc283), '
               'hashstr_refines_map / hashstr_counters (HashStrMap: the wrapper over a trusted std HashMap answers like a map, len <= unique_keys <= total_inserts); String-keyed and typed cells run the same models on canonical '
               'key numbers with the real hasher tabulated per case; easy_ext_refines_map adds EasyHashMap::get_or_insert(_with) and extend, idx_batch_refines_map GoldHashIdx::insert_batch (growth to any power of two) to the modelled operations. Only ZiporaHashMap under randomly seeded hashers (the default hasher parameter) is decided by the differential oracle alone (S-only).',
 'level_note': 'Trusted: Coq kernel + vm_compute; the hand-written models and their mirror of the test hashers; harness generators and the BTreeMap oracle. The theorems are about the models; keys/values are '
               'natural numbers, Rust generics (K: Hash+Eq+Clone) are not modelled.',
 'technique': 'Coq refinement proofs (invariant + simulation over all histories, hash function universally quantified): probe-path invariant + pigeonhole for the open-addressing table, chain/relink/compaction '
              'invariant for the chained table; refutation witnesses by vm_compute for the pre-fix code and the stubs; model/implementation differential check on operation histories evaluated in Coq; '
              'differential oracle (std BTreeMap) over every map type, preset and adversarial hasher, incl. an enumerated universe of all short histories over three colliding keys',
 'explanation': 'Unbounded refinement theorems for ZiporaHashMap standard storage, SmallMap (incl. the vectorised get_fast of SmallMap<u8>), GoldHashMap, EasyHashMap, GoldHashIdx and the HashStrMap wrapper (all hash functions, all histories); '
                'String-keyed and typed cells tied to the same models; differential oracle for all of them and alone for randomly seeded hashers; '
                'stub storage strategies are a recorded finding.'}
