"""Configuration of the C06 check (see lib/props.py)."""
P = {'id': 'C06',
 'level': 'proof',
 'theorems': ['norm_avoids_markers'],
 'trusted': [],
 'assumptions': [],
 'level_text': 'wip',
 'level_note': 'wip',
 'technique': 'wip',
 'explanation': 'wip'}
