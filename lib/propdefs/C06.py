"""Configuration of the C06 check (see lib/props.py)."""
P = {'id': 'C06',
 'level': 'proof',
 'theorems': ['norm_avoids_markers', 'std_refines_map', 'remove_loop_is_get_loop', 'sentinel_unmapped_refuted', 'tombstone_first_slot_refuted', 'iter_tombstone_refuted', 'stub_refuted'],
 'trusted': [],
 'assumptions': [],
 'level_text': 'wip',
 'level_note': 'wip',
 'technique': 'wip',
 'explanation': 'wip'}
