"""Configuration of the C07 check (see lib/props.py)."""
P = {'id': 'C07',
 'level': 'proof',
 'theorems': ['lockfree_live_disjoint',
              'lockfree_live_within',
              'lockfree_refuses_over_capacity',
              'lockfree_foreign_rejected',
              'lockfree_free_reuse',
              'free_link_write_safe',
              'recycle_refuted',
              'offset_wrap_refuted',
              'bump_live_disjoint_within',
              'bump_alloc_aligned',
              'bump_refuses_over_capacity',
              'bump_align_refuted',
              'fixedcap_live_disjoint_within',
              'five_level_inv',
              'five_level_refuses_over_capacity',
              'five_level_refusal_exact',
              'five_level_class_roundtrip',
              'five_level_free_reuse',
              'five_level_reissue_fits',
              'five_level_used_exact',
              'five_level_frag_covers',
              'five_link_write_safe',
              'five_offset_wrap_refuted',
              'five_small_align_refuted',
              'five_tl_offset_alias_refuted',
              'threadlocal_inv',
              'threadlocal_refuses_over_capacity',
              'threadlocal_reissue_fits',
              'threadlocal_free_reuse',
              'threadlocal_arenas_retained',
              'tiered_same_class_on_free',
              'tiered_route_fits',
              'tiered_inv',
              'secure_no_chunk_lost',
              'secure_free_accepted',
              'secure_active_exact',
              'secure_double_free_detected',
              'mempool_inv',
              'mmap_inv',
              'mmap_reissue_fits'],
 'trusted': ['modelled (M+S): src/memory/lockfree_pool.rs (allocate, deallocate, allocate_from_fast_bin, deallocate_to_fast_bin, allocate_new_block, '
             'size_to_bin_index, align_size, ptr_to_offset; FAST_BIN_SIZES is read from the source by the harness and compared with the model table in every '
             'Coq-evaluated case), sequential semantics, free lists as stacks of offsets; src/memory/bump.rs (alloc_bytes, BumpScope drop) with the buffer '
             'base address as a parameter. Both in two variants: the pinned code (refutation theorems) and the code after the fix: commits (positive theorems)',
             'modelled (M+S): src/memory/fixed_capacity_pool.rs (generate_size_classes, find_size_class, allocate_from_free_list, allocate_by_splitting, '
             'deallocate_to_free_list, initial free list) with free lists as stacks of block offsets',
             'modelled (M+S): src/memory/five_level_pool.rs as one parametric model for NoLockingPool / MutexBasedPool / LockFreePool (sequential) / '
             'FixedCapacityPool, also behind AdaptiveFiveLevelPool (align_up as written with the bit mask, bin index and its inverse, alloc_from_fast_bin, '
             'alloc_from_end, free with the end-of-memory merge, free_to_fast_bin, the large-block path, used_memory / fragment_size accounting, the '
             'FixedCapacityPool capacity check and remaining_capacity, the constructors); the vector of intrusive free-list stacks is one list of (bin, offset) '
             'pairs, newest first; level 4 (ThreadLocalPool) modelled as it is for the refutation theorem',
             'modelled (M+S): src/memory/threadlocal_pool.rs (ThreadLocalCache allocate / deallocate / allocate_new_area_or_fallback / size_to_list_index, '
             'HotArea new / try_allocate; TLS_SIZE_CLASSES read from the source and compared in every case); src/memory/tiered.rs (the allocate routing chain, '
             'allocate_medium and deallocate_medium as two separate searches, allocate_large / allocate_huge) over src/memory/pool.rs (MemoryPool as a bounded '
             'FIFO queue), MemoryPool also on its own; src/memory/secure_pool.rs chunk bookkeeping (allocate_with_hint, deallocate_internal, LocalCache, the '
             'shared stack sequentially, generations, active_allocations); src/memory/mmap.rs (min size, page rounding, region cache keyed by the rounded size)',
             'oracle only (no mechanism model): the secondary entry points mixed into the histories of every pool - bulk requests, housekeeping (clear / '
             'clear_caches / clear_cache / reset / validate / statistics / capacity accessors), RAII guard views, cloneable handles, typed and slice '
             'allocation, non-preset configuration fields - and the deterministic threshold families; read-only ones are left out of the Coq history, '
             'state-changing ones keep the case out of the model comparison; CacheAlignedVec (Vec shadow) and the global secure pools are spec-only cells',
             'spec-only cells (direct oracle with shadow map of live ranges and per-block patterns, no mechanism model): PooledBuffer / PooledVec, the global '
             'tiered_allocate entry points, numa_alloc_aligned, HugePageAllocator; five-level family: offsets only - the memory behind a MemOffset is not '
             'reachable through the public API, so contents are not checked there',
             'hook (cfg zipora_verif only): SecureMemoryPool::verif_chunk_copy / verif_deallocate let the harness perform the double free the RAII guard makes '
             'unreachable; existing read-only inspectors (local cache, shared stack, active table size, MemOffset value) are used to compare states',
             'not modelled: CAS retry loops and backoff (concurrency is C08), statistics other than the ones compared, cache/NUMA/huge-page hints of the pool '
             'configs, canary validation of SecureChunk (always succeeds for a client that stays inside its blocks), the success of mmap / the system allocator'],
 'assumptions': ['usize is 64 bits; sequential use of one pool from one thread',
                 'the client frees only blocks it holds, once, with the size it allocated them with (the lock-free and five-level pools do not track what '
                 'they issued); the SecureMemoryPool double free is performed by the harness through the hook only while the chunk is not handed out again',
                 'agreement of model and code is established on the generated histories only (offsets / arena-relative offsets / chunk identities by '
                 'address, results of every allocate and free, pool statistics and inspector dumps after every operation)'],
 'level_text': 'Machine-checked Coq theorems (40, all closed under the global context) about hand-written models of the pools. LockFreeMemoryPool and '
               'BumpAllocator/BumpArena: for every arena size / base address and every history, live allocations are pairwise disjoint, at least as large as '
               'requested, aligned, inside the arena; requests beyond the capacity and foreign pointers are refused leaving the pool unchanged; the free-list '
               'link written on free touches no other live block. FixedCapacityMemoryPool: distinct whole blocks inside the arena for every configuration and '
               'history. Five-level family (NoLocking / Mutex / LockFree / FixedCapacity as one parametric model): the same invariant for every accepted '
               'configuration and history, refusal exactly when the capacity is exceeded (the FixedCapacityPool check is redundant), size-class round trip '
               '(what is carved for a class is what is filed under it on free), exact used_memory / remaining_capacity accounting, 4-byte link write safe. '
               'ThreadLocalMemoryPool: live blocks in different arenas or disjoint, inside a retained arena, re-issued only for their own class. '
               'TieredMemoryAllocator: for every size the pool chosen on free is the pool that served the allocation; over every history a live allocation '
               'holds a large-enough chunk of the right pool and chunks are never duplicated; MemoryPool likewise. SecureMemoryPool: over every history every '
               'chunk is in exactly one of local cache / shared stack / handed out, the active table mirrors the handed-out chunks, a second free is reported '
               'and changes nothing. MemoryMappedAllocator: live regions distinct and large enough, cached regions re-issued only for their own rounded size. '
               'Refutation theorems for the pinned code (lock-free class recycling and wrapping offset, bump offset-only alignment, five-level alignment 2 and '
               'capacity above 4 GiB) and for the recorded finding (five-level ThreadLocalPool offset aliasing), with witnesses that fail on the corresponding '
               'tree. All models are tied to the code by replaying generated histories in Coq. The remaining pools are decided by the shadow-map oracle only.',
 'level_note': 'Trusted: Coq kernel + vm_compute; the hand-written models (free lists abstracted to stacks / keyed lists with the per-key order of the code, '
               'justified by free_link_write_safe and five_link_write_safe; chunk addresses abstracted to serial numbers); the harness (generators, shadow-map '
               'oracle, address-to-identity maps, source reader for FAST_BIN_SIZES and TLS_SIZE_CLASSES); the cfg(zipora_verif) inspectors and hook.',
 'technique': 'Coq proof by invariant over histories (byte-cover counting <= 1 for live blocks plus free-list blocks; chunk identities as unit intervals; '
              'occurrence counting = 1 for the secure pool); refutation by vm_compute on witnesses; model/implementation differential check on operation '
              'histories by vm_compute, including full-state comparison through inspectors; shadow interval map + fill patterns oracle on every pool, run in a '
              'child process so that a crash yields the failing history',
 'explanation': 'Unbounded theorems for the lock-free, bump, fixed-capacity, five-level, thread-local, tiered, basic, secure and mmap pools; shadow-map oracle for all pools.'}
