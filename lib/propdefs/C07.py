"""Configuration of the C07 check (see lib/props.py)."""
P = {'id': 'C07',
 'level': 'proof',
 'theorems': ['lockfree_live_disjoint',
              'lockfree_live_within',
              'lockfree_refuses_over_capacity',
              'lockfree_foreign_rejected',
              'lockfree_free_reuse',
              'free_link_write_safe',
              'recycle_refuted',
              'offset_wrap_refuted',
              'bump_live_disjoint_within',
              'bump_alloc_aligned',
              'bump_refuses_over_capacity',
              'bump_align_refuted',
              'fixedcap_live_disjoint_within',
              'five_level_inv',
              'five_level_refuses_over_capacity',
              'five_level_refusal_exact',
              'five_level_class_roundtrip',
              'five_level_free_reuse',
              'five_level_reissue_fits',
              'five_level_used_exact',
              'five_link_write_safe',
              'five_offset_wrap_refuted',
              'five_small_align_refuted',
              'five_tl_offset_alias_refuted',
              'threadlocal_inv',
              'threadlocal_refuses_over_capacity',
              'threadlocal_reissue_fits',
              'threadlocal_free_reuse',
              'threadlocal_arenas_retained',
              'tiered_same_class_on_free',
              'tiered_route_fits',
              'tiered_inv',
              'secure_no_chunk_lost',
              'secure_free_accepted',
              'secure_active_exact',
              'secure_double_free_detected',
              'mempool_inv',
              'mmap_inv',
              'mmap_reissue_fits'],
 'trusted': ['modelled (M+S): src/memory/lockfree_pool.rs (allocate, deallocate, allocate_from_fast_bin, deallocate_to_fast_bin, allocate_new_block, '
             'size_to_bin_index, align_size, ptr_to_offset; FAST_BIN_SIZES is read from the source by the harness and compared with the model table in every '
             'Coq-evaluated case), sequential semantics, free lists as stacks of offsets; src/memory/bump.rs (alloc_bytes, BumpScope drop) with the buffer '
             'base address as a parameter. Both in two variants: the pinned code (refutation theorems) and the code after the fix: commits (positive theorems)',
             'modelled (M+S): src/memory/fixed_capacity_pool.rs (generate_size_classes, find_size_class, allocate_from_free_list, allocate_by_splitting, '
             'deallocate_to_free_list, initial free list) with free lists as stacks of block offsets',
             'spec-only cells (direct oracle with shadow map of live ranges and per-block patterns, no mechanism model): '
             'ThreadLocalMemoryPool, SecureMemoryPool, MemoryPool/PooledBuffer/PooledVec, TieredMemoryAllocator, MemoryMappedAllocator, numa_alloc_aligned, '
             'HugePageAllocator, five-level family (NoLocking/Mutex/LockFree/ThreadLocal/FixedCapacity/Adaptive: offsets only - the memory behind a MemOffset '
             'is not reachable through the public API, so contents are not checked there)',
             'not modelled: CAS retry loops and backoff (concurrency is C08), statistics, cache/NUMA/huge-page hints of the pool configs'],
 'assumptions': ['usize is 64 bits; sequential use of one pool from one thread',
                 'the client frees only blocks it holds, once, with the size it allocated them with (the lock-free pool does not track what it issued)',
                 'agreement of model and code is established on the generated histories only (offsets relative to the first allocation, results of every '
                 'allocate/deallocate)'],
 'level_text': 'Machine-checked Coq theorems about a hand-written model of LockFreeMemoryPool and BumpAllocator/BumpArena: for every arena size and every '
               'history of allocate / free-of-a-live-block / free-of-a-foreign-pointer, live allocations are pairwise disjoint, at least as large as requested, '
               '8-aligned, inside the arena; requests beyond the capacity and pointers outside the arena are refused leaving the pool unchanged; a freed '
               'fast-bin block is reissued for the next request of its class; the free-list link written on free touches no other live block. Bump '
               'allocator: for every base address, capacity and history with scopes, blocks are disjoint, inside the buffer and their addresses satisfy the '
               'requested alignment. Refutation theorems for the pinned code (class recycling overlap, wrapping bump offset, offset-only alignment) with '
               'witnesses that fail on the pinned tree. The models are tied to the code by replaying generated histories in Coq. All other pools are decided '
               'by the shadow-map oracle only (S-only).',
 'level_note': 'Trusted: Coq kernel + vm_compute; hand-written model (free lists abstracted to stacks, justified by free_link_write_safe); harness '
               'generators and the shadow-map oracle; the source reader for FAST_BIN_SIZES.',
 'technique': 'Coq proof by invariant over histories (byte-cover counting <= 1 for live blocks plus free-list blocks); refutation by vm_compute on witnesses; '
              'model/implementation differential check on operation histories by vm_compute; shadow interval map + fill patterns oracle on every pool, run in a '
              'child process so that a crash yields the failing history',
 'explanation': 'Unbounded theorems for the lock-free pool and the bump allocator; shadow-map oracle for all pools.'}
