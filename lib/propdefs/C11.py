"""Configuration of the C11 check (see lib/props.py)."""
P = {'id': 'C11',
 'level': 'proof',
 'theorems': ['is_sorted_perm_spec',
              'sorted_permutation_unique',
              'counting_pass_is_stable_bucketing',
              'lsd_sorts',
              'adv_lsd_sorts',
              'loser_tree_merges',
              'merge_two_merges',
              'ms_inter_is_filter',
              'ms_inter2_is_filter',
              'ms_union_is_sorted_union',
              'ms_diff_subtracts_multiplicities',
              'set_unique_spec',
              'insertion_sort_sorts',
              'replacement_selection_runs',
              'external_sort_sorts',
              'external_sort_zero_buffer_refuted',
              'msd_sorts_strings',
              'msd_sorts_ints',
              'sort_bytes_msd_sorts',
              'lex_sorted_permutation_unique',
              'msd_early_return_refuted',
              'keyed_counting_pass_is_stable_bucketing',
              'adv_sort_any_strategy_ints',
              'adv_sort_any_strategy_strings',
              'adv_sort_str_lsd_collision_refuted',
              'heap_merge_merges',
              'mwm_merge_merges',
              'counting_sort_sorts',
              'chunk_boundaries_agree',
              'parallel_sort_sorts_u32',
              'parallel_sort_sorts_u64',
              'par_chunk_mismatch_refuted',
              'constant_digit_pass_is_identity',
              'lsd_skip_constant_digit_sorts',
              'lsd_break_refuted',
              'ms_1small_inter_eq',
              'ms_1small_inter2_eq',
              'ms_fast_inter_eq',
              'ms_fast_inter2_eq',
              'multipass_merge_sorts',
              'external_sort_multipass_sorts',
              'multipass_chunks_exact_refuted',
              'co_sort_sorts',
              'kv_sort_keeps_pairs',
              'merge_tree_merges',
              'vec_external_sort_sorts',
              'sort_bytes_unfixed_depth_unbounded',
              'sort_bytes_depth_bounded',
              'sort_bytes_fix_keeps_result',
              'quicksort_sorts',
              'mergesort_sorts',
              'co_full_sort_sorts'],
 'trusted': ['modelled (M+S): src/algorithms/radix_sort.rs RadixSort::sort_u32 / sort_u64 incl. the chunk + merge paths (par_chunks_mut / chunks with the '
             'chunk size from the thread count, MultiWayMerge::merge dispatch), sort_u32_sequential / sort_u64_sequential (counts array, exclusive prefix '
             'sums, scatter into a zeroed buffer), counting_sort_u32, sort_bytes / sort_bytes_msd, KeyValueRadixSort::sort_by_key (per-key position queues); '
             'AdvancedRadixSort<T>::sort for u32 / u64 / RadixString: select_strategy, is_nearly_sorted, insertion_sort, lsd_radix_sort_sequential (generic in '
             'the element type), lsd_radix_sort_parallel, msd_radix_sort (257 buckets, insertion cut-off, depth cut-off), RadixString::extract_key; '
             'src/algorithms/tournament_tree.rs EnhancedLoserTree as coded (linear scan for the least head; the tree array is never read), '
             'MultiWayMerge::merge / merge_heap / merge_tournament, MergeOperations::merge_two / merge_in_place, SimdOperations::merge_multiple_sorted (merge '
             'tree); src/algorithms/external_sort.rs generate_runs + merge_runs (run ids carried in the heap entries as in the code; the number of runs is '
             'compared with stats().runs_generated), Vec::external_sort_with_config; src/algorithms/cache_oblivious.rs cache_oblivious_sort / '
             'calculate_funnel_width / funnel_sort_recursive / cache_oblivious_merge, sort / select_strategy / cache_aware_sort / hybrid_sort / cache_aware_quicksort (the slice during the Lomuto loop is kept as three segments) / cache_aware_mergesort; src/algorithms/set_ops.rs all two-pointer and binary-search variants, '
             'set_unique; src/algorithms/set_operations.rs bit-mask k-way intersection and union',
             'parameters of the theorems (not modelled, quantified over): slice::sort_unstable of the standard library (tim-sort strategy, the "merge" of the '
             'parallel LSD path, Vec::external_sort below the buffer size) - any function returning the sorted permutation; the size of the rayon pool - any '
             'thread count >= 1 (the harness reads it off AdvancedRadixSort::stats().threads_used)',
             'models of code that is NOT in the pinned tree (stated as such): the LSD loop that skips constant-digit passes, the MSD early return on '
             'depth >= max_bytes - each with the theorem that says what such a change must compute and a refutation of the wrong variant; merge_runs in '
             'passes of merge_ways runs IS in the tree since fix 824df8c (the oldest merge_ways runs are merged into a new run until at most merge_ways are '
             'left): the model merges every group once and then the partial results - a different grouping, proved to compute the same list as the single '
             'pass (external_sort_multipass_sorts), which is what the correspondence check compares',
             'oracle breadth (harness/src/c11_wide.rs, spec-only cells): operation histories on one RadixSort / AdvancedRadixSort / CacheObliviousSort / '
             'ReplaceSelectSort / MultiWayMerge / EnhancedLoserTree / SetOperations object, every constructor and configuration field, u8 / u16 / unit / '
             'String / signed / record element types, user-defined RadixSortable and MergeSource implementations, key-only comparators on tagged elements '
             '(which sequence an element is copied from), the SIMD comparison / minimum helpers, and inputs of 2^16 .. 2^20 elements around the default '
             'switch points, described by (kind, n, seed)',
             'spec-only cells (direct oracle + the verified checker is_sorted_perm evaluated in Coq on the implementation output): the custom-comparator '
             'loser tree, ReplaceSelectSort::with_comparator, the two largest configurations (default CacheObliviousSort on 5 000 / 1.1 M elements, sort_bytes with a '
             '40-300 KB common prefix: modelled mechanisms, inputs too large for Coq); inside modelled cells: LSD passes with radix_bits > 8 and inputs above the per-op size limit (90-400 '
             'elements)',
             'not modelled: BinaryHeap tie-breaking among equal items (irrelevant for integers: equal items are indistinguishable), file I/O and bincode '
             'framing of the temporary runs, SIMD intrinsics (the SIMD digit counting is taken to compute the counts), prefetching, rayon scheduling (chunks '
             'are disjoint slices sorted by a sequential function)'],
 'assumptions': ['usize is 64 bits',
                 'agreement of model and code is established on the generated cases only; for integer sorts the output is determined by the input, so that '
                 'agreement ties the model to the code no more strongly than the oracle does; mechanism-level observables that are compared: the number of '
                 'runs of replacement selection, AdvancedRadixSort stats().strategy_used and used_parallel, the output order of the string LSD path under key '
                 'collisions, the values next to their keys in the key-value sort'],
 'level_text': 'Machine-checked Coq theorems about a Gallina model of the code: (1) the counting pass exactly as coded (counts array of 2^r entries, exclusive '
               'prefix sums, left-to-right scatter into a zero-filled buffer) equals stable bucketing by the digit, for every digit width and shift; (2) LSD '
               'radix sort yields the sorted permutation for every key width w, every radix width r >= 1 (incl. r not dividing w) and every input below 2^w, '
               'also with the pass count derived from the largest key (AdvancedRadixSort); (3) the loser tree as coded (repeated selection of the first '
               'strictly least head) merges any number >= 0 of sorted ways, empty ones included, into the sorted union with duplicates kept; two-way merge '
               'likewise; replacement selection as coded yields sorted runs that together are the input, and run generation + loser-tree merge sorts, for '
               'every buffer of at least one element (refutation witness for the zero-element buffer of the unfixed code); insertion sort sorts; (4) the '
               'two-pointer multiset intersection (both copy directions), union, difference and set_unique equal their filter / multiplicity definitions on '
               'sorted inputs; (5) a verified checker is_sorted_perm <-> Sorted /\\ Permutation, and uniqueness of the sorted permutation. All other entry '
               'points and configurations the property names are decided by a direct oracle on the real code (std sort, concatenate-and-sort, textbook '
               'two-pointer algorithms) and, for sort cells without a mechanism model, by evaluating the verified checker in Coq on the implementation output. '
               'Extension (36 further theorems): (6) AdvancedRadixSort::msd_radix_sort as coded sorts RadixString (lexicographic byte order) and u32/u64 for '
               'every insertion threshold, RadixSort::sort_bytes likewise (after fix 1989929: with the common-prefix skip its nesting depth is at most the number of strings, before it the length of the common prefix); (7) AdvancedRadixSort::sort - whichever strategy is forced or selected adaptively, '
               'every radix width, threshold and thread count - yields the sorted permutation for u32/u64, and for RadixString under the exact hypothesis that '
               'the sequential LSD path is not taken on strings with colliding 8-byte keys (refutation witness otherwise: the recorded finding); (8) '
               'RadixSort::sort_u32/u64 incl. the chunk + merge path for every thread count and threshold: the slices sorted and the slices merged are the '
               'same list, heap-mode and tournament MultiWayMerge merge, counting sort sorts (refutation witness for mismatched chunk sizes); (9) a coded pass '
               'over a constant digit is the identity, so a pass-skipping loop equals the coded loop, `break` is refuted; (10) the binary-search and adaptive '
               'multiset intersections equal the two-pointer ones on sorted inputs with duplicates; (11) multi-pass merging of runs with any fan-in equals the '
               'coded single pass (chunks_exact refuted); the funnel recursion of cache_oblivious_sort sorts for every threshold and cache geometry; (12) '
               'KeyValueRadixSort::sort_by_key keeps every key with its value and is stable; the binary merge tree and the Vec external-sort wrapper sort; (13) CacheObliviousSort::sort - strategy selection from the cache hierarchy, insertion sort, Lomuto quicksort, merge sort, funnel sort - yields the sorted permutation for every hierarchy, element size and threshold.',
 'level_note': 'Trusted: Coq kernel + vm_compute; hand-written model; harness generators and oracle. The custom-comparator loser tree and the comparator '
               'variant of the external sort have no mechanism model (S-only); '
               'slice::sort_unstable and the thread count are parameters of the theorems.',
 'technique': 'Coq proof by induction over passes with a stability invariant (sorted by the low k digits), array-scatter invariant with disjoint regions, '
              'selection-merge induction on fuel, nested induction for two-pointer algorithms; model/implementation differential check by vm_compute; '
              'differential oracle over every public sort/merge/set-op entry point x configuration; abort-prone calls isolated in child processes; induction '
              'on the recursion depth with a common-prefix invariant (MSD), generic-element scatter invariant (keyed LSD), heap invariant "every way is '
              'bounded below by its heap entry", well-formed chunk lists for the chunk-boundary agreement, bisection invariants on index ranges (lower/upper '
              'bound), per-key subsequence equality for stability',
 'explanation': 'Unbounded theorems for LSD radix sort (as coded, integers and keyed elements), MSD radix sort (strings and integers), the AdvancedRadixSort '
                'strategy dispatch, the chunk + merge parallel paths, insertion sort, counting sort, loser-tree / heap / two-way / tree merges, '
                'replacement-selection external sort (single and multi pass), the funnel sort recursion, key-value pairing and the two-pointer and '
                'binary-search set operations; verified sorted-permutation checker; differential oracle for everything else (k-way set operations are modelled '
                'and correspondence-checked but have no theorem).'}
