"""Configuration of the C11 check (see lib/props.py)."""
P = {'id': 'C11',
 'level': 'proof',
 'theorems': ['is_sorted_perm_spec',
              'sorted_permutation_unique',
              'counting_pass_is_stable_bucketing',
              'lsd_sorts',
              'adv_lsd_sorts',
              'loser_tree_merges',
              'merge_two_merges',
              'ms_inter_is_filter',
              'ms_inter2_is_filter',
              'ms_union_is_sorted_union',
              'ms_diff_subtracts_multiplicities',
              'set_unique_spec',
              'insertion_sort_sorts',
              'replacement_selection_runs',
              'external_sort_sorts',
              'external_sort_zero_buffer_refuted',
              'msd_sorts_strings',
              'msd_sorts_ints',
              'sort_bytes_msd_sorts',
              'lex_sorted_permutation_unique',
              'msd_early_return_refuted',
              'keyed_counting_pass_is_stable_bucketing',
              'adv_sort_any_strategy_ints',
              'adv_sort_any_strategy_strings',
              'adv_sort_str_lsd_collision_refuted',
              'heap_merge_merges',
              'mwm_merge_merges',
              'counting_sort_sorts',
              'chunk_boundaries_agree',
              'parallel_sort_sorts_u32',
              'parallel_sort_sorts_u64',
              'par_chunk_mismatch_refuted',
              'constant_digit_pass_is_identity',
              'lsd_skip_constant_digit_sorts',
              'lsd_break_refuted',
              'ms_1small_inter_eq',
              'ms_1small_inter2_eq',
              'ms_fast_inter_eq',
              'ms_fast_inter2_eq',
              'multipass_merge_sorts',
              'external_sort_multipass_sorts',
              'multipass_chunks_exact_refuted',
              'co_sort_sorts',
              'kv_sort_keeps_pairs',
              'merge_tree_merges',
              'vec_external_sort_sorts'],
 'trusted': ['modelled (M+S): src/algorithms/radix_sort.rs sort_u32_sequential / sort_u64_sequential / AdvancedRadixSort::lsd_radix_sort_sequential '
             '(counts array, exclusive prefix sums, scatter into a zeroed buffer, pass count from the key width resp. the largest key), counting_sort_u32 and '
             'the sort_u32 dispatch, insertion sort; src/algorithms/tournament_tree.rs EnhancedLoserTree as coded (linear scan for the least head; the tree '
             'array is never read), MultiWayMerge::merge_heap / merge_tournament, MergeOperations::merge_two / merge_in_place; '
             'src/algorithms/external_sort.rs generate_runs + merge_runs (run ids carried in the heap entries as in the code; the number of runs is compared with stats().runs_generated); '
             'src/algorithms/set_ops.rs all two-pointer and binary-search variants, set_unique; src/algorithms/set_operations.rs bit-mask k-way intersection and union',
             'spec-only cells (direct oracle + the verified checker is_sorted_perm evaluated in Coq on the implementation output): the parallel paths of '
             'RadixSort / AdvancedRadixSort (rayon chunks + merge), MSD radix sort (integers and byte strings), tim-sort strategy, KeyValueRadixSort, '
             'CacheObliviousSort (all strategy branches), SIMD merge, Algorithm::execute wrappers, Vec::external_sort_with_config',
             'not modelled: BinaryHeap tie-breaking among equal items (irrelevant for integers: equal items are indistinguishable), file I/O and bincode '
             'framing of the temporary runs, SIMD intrinsics, rayon scheduling'],
 'assumptions': ['usize is 64 bits',
                 'agreement of model and code is established on the generated cases only; for integer sorts the output is determined by the input, so that '
                 'agreement ties the model to the code no more strongly than the oracle does (the number of runs of replacement selection is the one '
                 'mechanism-level observable compared)'],
 'level_text': 'Machine-checked Coq theorems about a Gallina model of the code: (1) the counting pass exactly as coded (counts array of 2^r entries, exclusive '
               'prefix sums, left-to-right scatter into a zero-filled buffer) equals stable bucketing by the digit, for every digit width and shift; (2) LSD '
               'radix sort yields the sorted permutation for every key width w, every radix width r >= 1 (incl. r not dividing w) and every input below 2^w, '
               'also with the pass count derived from the largest key (AdvancedRadixSort); (3) the loser tree as coded (repeated selection of the first '
               'strictly least head) merges any number >= 0 of sorted ways, empty ones included, into the sorted union with duplicates kept; two-way merge '
               'likewise; replacement selection as coded yields sorted runs that together are the input, and run generation + loser-tree merge sorts, for every '
               'buffer of at least one element (refutation witness for the zero-element buffer of the unfixed code); insertion sort sorts; (4) the two-pointer multiset intersection (both copy directions), union, difference and set_unique equal their filter / '
               'multiplicity definitions on sorted inputs; (5) a verified checker is_sorted_perm <-> Sorted /\\ Permutation, and uniqueness of the sorted '
               'permutation. All other entry points and configurations the property names are decided by a direct oracle on the real code (std sort, '
               'concatenate-and-sort, textbook two-pointer algorithms) and, for sort cells without a mechanism model, by evaluating the verified checker '
               'in Coq on the implementation output.',
 'level_note': 'Trusted: Coq kernel + vm_compute; hand-written model; harness generators and oracle. The parallel paths, MSD, cache-oblivious sort, SIMD merge '
               'and key-value sort have no mechanism model (S-only).',
 'technique': 'Coq proof by induction over passes with a stability invariant (sorted by the low k digits), array-scatter invariant with disjoint regions, '
              'selection-merge induction on fuel, nested induction for two-pointer algorithms; model/implementation differential check by vm_compute; '
              'differential oracle over every public sort/merge/set-op entry point x configuration; abort-prone calls isolated in child processes',
 'explanation': 'Unbounded theorems for LSD radix sort (as coded), insertion sort, loser-tree / two-way merge, replacement-selection external sort and the '
                'two-pointer set operations; verified sorted-permutation checker; differential oracle for everything else (heap-mode merge, binary-search '
                'set variants and k-way set operations are modelled and correspondence-checked but have no theorem).'}
