"""Configuration of the C11 check (see lib/props.py)."""
P = {'id': 'C11',
 'level': 'proof',
 'theorems': ['is_sorted_perm_spec'],
 'trusted': [],
 'assumptions': ['usize is 64 bits'],
 'level_text': 'wip',
 'level_note': 'wip',
 'technique': 'wip',
 'explanation': 'wip'}
