"""Configuration of the C03 check (see lib/props.py)."""
P = {'id': 'C03',
 'level': 'proof',
 'theorems': ['mem_history_refines_spec',
              'mem_ids_never_reused',
              'mem_id_wraparound_refuted',
              'mixed_get_record',
              'mixed_absent',
              'zip_get_record',
              'zip_absent',
              'simplezip_fragment_lossless',
              'simplezip_get_record',
              'simplezip_absent',
              'store_refines_every_history',
              'mem_store_refines_spec',
              'zero_history_refines_spec',
              'plain_store_refines_spec',
              'plain_history_refines_spec',
              'plain_history_no_reopen_refines_spec',
              'plain_ids_not_reused_for_live',
              'plain_open_existing',
              'wrapper_refines_spec',
              'wrapper_history_refines_spec',
              'huffman_frame_lossless',
              'zstd_over_memory_history_refines_spec',
              'huffman_over_memory_history_refines_spec',
              'pass_over_memory_history_refines_spec',
              'huffman_over_zstd_over_memory_history_refines_spec',
              'cached_refines_inner',
              'cached_removed_not_served',
              'cached_over_memory_history_refines_spec',
              'cached_caches_lawful',
              'dictzip_refines_spec',
              'dictzip_history_refines_spec',
              'dictzip_removed_not_served',
              'dictzip_standins_lawful',
              'plain_id_wraparound_refuted'],
 'trusted': ['modelled (M+S): src/blob_store/memory.rs; src/blob_store/mixed_len.rs (bitmap rank as count_occ-style spec rank, UintVecMin0 offsets at '
             'value level); src/blob_store/zip_offset_builder.rs + zip_offset.rs + sorted_uint_vec.rs (definitions, bit-exact file image compared on every run); '
             'src/blob_store/simple_zip.rs and zero_length.rs (definitions)',
             'spec-only cells (direct oracle against a shadow map, no mechanism model): PlainBlobStore, ZstdBlobStore, Huffman/Rans/DictionaryBlobStore, '
             'CachedBlobStore (3 write strategies, 3 cache presets, cache disabled), every wrapper stack, NestLoudsTrieBlobStore (4 presets, builder, keyed API), '
             'DictZipBlobStore (presets and entropy stages), ZipOffsetBlobStore with zstd, BatchZipOffsetBlobStoreBuilder',
             'zstd, the page cache, the trie, PA-Zip and the entropy coders are opaque (properties C01, C02, C05, C17)'],
 'assumptions': ['RecordId is u32, usize is 64 bits',
                 'agreement of model and code (observations of every operation, the byte-exact saved image of uncompressed ZipOffset stores, '
                 'pool and fragment counts of SimpleZip, fixed/variable byte counts of MixedLen) is established on the generated cases only'],
 'level_text': 'Machine-checked Coq theorems about hand-written Gallina models of MemoryBlobStore (every operation history refines the '
               'property\'s own state machine; ids are handed out by a counter that only grows, so an id is never reused while fewer than 2^32-1 ids were issued; '
               'refutation witness for the wrap-around) and MixedLenBlobStore (record i = input i for every input and fixed length). The models, plus exact models '
               'of the ZipOffset builder/file image, SimpleZip and ZeroLength stores, are tied to the code by replaying generated cases in Coq on every run. '
               'All other store types and wrapper stacks are decided by a history-based differential oracle only, labelled S-only.',
 'level_note': 'Trusted: Coq kernel + vm_compute; hand-written models; harness generators and shadow-map oracle. HashMap is abstracted as an association list.',
 'technique': 'Coq refinement proof by induction over operation histories with an abstraction relation; list-decomposition proofs for bulk-built stores; '
              'model/implementation differential check by vm_compute; history-based differential oracle over every store type and wrapper stack',
 'explanation': 'Unbounded refinement theorems for MemoryBlobStore and MixedLenBlobStore; bit-exact model correspondence for ZipOffset/SimpleZip/ZeroLength; '
                'differential oracle for every other store.'}
