"""Configuration of the C03 check (see lib/props.py)."""
P = {'id': 'C03',
 'level': 'proof',
 'theorems': ['mem_history_refines_spec',
              'mem_ids_never_reused',
              'mem_id_wraparound_refuted',
              'mixed_get_record',
              'mixed_absent',
              'zip_get_record',
              'zip_absent',
              'simplezip_fragment_lossless',
              'simplezip_get_record',
              'simplezip_absent',
              'store_refines_every_history',
              'mem_store_refines_spec',
              'zero_history_refines_spec',
              'plain_store_refines_spec',
              'plain_history_refines_spec',
              'plain_history_no_reopen_refines_spec',
              'plain_ids_not_reused_for_live',
              'plain_open_existing',
              'wrapper_refines_spec',
              'wrapper_history_refines_spec',
              'huffman_frame_lossless',
              'zstd_over_memory_history_refines_spec',
              'huffman_over_memory_history_refines_spec',
              'pass_over_memory_history_refines_spec',
              'huffman_over_zstd_over_memory_history_refines_spec',
              'cached_refines_inner',
              'cached_removed_not_served',
              'cached_over_memory_history_refines_spec',
              'cached_caches_lawful',
              'dictzip_refines_spec',
              'dictzip_history_refines_spec',
              'dictzip_removed_not_served',
              'dictzip_standins_lawful',
              'plain_id_wraparound_refuted',
              'stack_refines_spec',
              'stack_history_refines_spec',
              'batch_builder_equals_builder',
              'batch_get_record',
              'batch_absent',
              'nltb_get_by_key',
              'nltb_get_by_id',
              'nltb_standin_lawful',
              'mem_from_data_history_refines_spec',
              'mem_from_data_ids_fresh',
              'zero_finish_history_refines_spec'],
 'trusted': ['modelled (M+S): src/blob_store/memory.rs; mixed_len.rs (bitmap rank as count_occ-style spec rank, UintVecMin0 offsets at value level); '
             'zip_offset_builder.rs + zip_offset.rs + sorted_uint_vec.rs (bit-exact file image compared on every run); simple_zip.rs (fragmenting and the string pool); '
             'zero_length.rs; plain.rs (directory as a finite map, decimal file names, u32 parsing, close + reopen); traits.rs as a record of nine functions; '
             'compressed.rs ZstdBlobStore, entropy.rs Huffman framing / Rans / Dictionary pass-through as one generic wrapper over an arbitrary inner store and codec; '
             'cached_store.rs over an arbitrary inner store and an arbitrary page cache that never invents data; dict_zip/blob_store.rs bookkeeping over an arbitrary '
             'compressor, entropy stage and LRU map with the round-trip laws; every wrapper stack by composition; '
             'zip_offset_builder.rs BatchZipOffsetBlobStoreBuilder (batch buffer, lengths, flush loop; byte-exact image on every run); '
             'nest_louds_trie_blob_store.rs NestLoudsTrieBlobStoreBuilder + the put_with_key / get_by_key / get path it drives, over an arbitrary lawful trie '
             '(slice::sort_by by its specification: a stable sort); MemoryBlobStore::from_data and ZeroLengthBlobStore::finish(n) as the start of a history',
             'spec-only cells (direct oracle against a shadow map, no mechanism model): NestLoudsTrieBlobStore histories (4 presets, keyed API on a live store, build_from_* constructors), '
             'ZipOffsetBlobStore and its batch builder with zstd (theorems with zstd as a parameter, no evaluated image), the serde image of MemoryBlobStore',
             'zstd, the page cache, the LRU map, the trie, PA-Zip and the entropy coders are opaque (properties C01, C02, C05, C17): parameters of the theorems under their '
             'round-trip laws; in the evaluated cases zstd and the Huffman coder are the finite table of (input, output) pairs observed between two layers of the real stack, '
             'DictZip and the page cache use the stand-ins of their model files (the theorems say the observations do not depend on them)'],
 'assumptions': ['RecordId is u32, usize is 64 bits',
                 'the file system never fails and holds no foreign files (PlainBlobStore); the 2^64 byte counter of CachedBlobStore does not wrap',
                 'agreement of model and code (observations of every operation on every modelled stack, the content of the innermost store, the directory listing of '
                 'PlainBlobStore, the byte-exact saved image of uncompressed ZipOffset stores, pool and fragment counts of SimpleZip, fixed/variable byte counts of MixedLen) '
                 'is established on the generated cases only'],
 'level_text': 'Machine-checked Coq theorems about hand-written Gallina models: every operation history of MemoryBlobStore, ZeroLengthBlobStore, PlainBlobStore (including '
               'close + reopen), of every wrapper (Zstd, Huffman framing, Rans/Dictionary pass-through) over any inner store and any lossless codec, of CachedBlobStore over '
               'any inner store and any page cache that never invents data, and of DictZipBlobStore over any compressor with the round-trip law, refines the property\'s own '
               'state machine (one generic simulation theorem, instances by composition); bulk-built MixedLen, ZipOffset and SimpleZip stores return record i = input i for '
               'every input and configuration; the batch builder equals the plain builder for every batch size and every interleaving of add_record / flush_batch; the trie '
               'store\'s builder returns, over any lawful trie and whether or not it sorts, the value added last under every key; a store seeded by from_data refines the '
               'machine started from the map; ids are never reused for a live record below 2^32-1 issued ids, with refutation witnesses for the counter wrap-around of '
               'MemoryBlobStore and PlainBlobStore. The models are tied to the code by replaying generated histories of whole store stacks in Coq on every run. '
               'The remaining store types are decided by a history-based differential oracle only, labelled S-only.',
 'level_note': 'Trusted: Coq kernel + vm_compute; hand-written models; harness generators and shadow-map oracle. HashMap and directories are abstracted as association lists; '
               'opaque codecs and caches are parameters of the theorems.',
 'technique': 'Coq refinement proofs: one generic simulation (`refines`) between a store interface and the property\'s state machine, proved per store by an abstraction relation and '
              'lifted to every history by induction; wrapper and cache theorems generic in the inner store; list-decomposition proofs for bulk-built stores; '
              'model/implementation differential check by vm_compute on whole stacks; history-based differential oracle over every store type and wrapper stack',
 'explanation': 'Unbounded refinement theorems for Memory, ZeroLength, Plain (with reopen), all wrapper stores, CachedBlobStore and the DictZip bookkeeping; record-i theorems for '
                'MixedLen, ZipOffset (plain and batch builder) and SimpleZip; last-value-wins theorem for the trie store\'s builder; from_data histories; bit-exact / observation-exact model correspondence on every run; differential oracle for the rest.'}
