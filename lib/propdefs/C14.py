"""Configuration of the C14 check (see lib/props.py)."""
P = {'id': 'C14',
 'level': 'translation_validation',
 'theorems': ['simd_memchr_is_scalar',
              'memchr_is_first_index',
              'simd_compare_is_scalar',
              'compare_sign_is_lexicographic',
              'copy_windows_is_copy',
              'crc_table_is_polynomial',
              'crc_hardware_is_polynomial',
              'crc_incremental',
              'hex_decode_encode',
              'hex_lengths',
              'b64_decode_encode',
              'b64_encoded_length',
              'utf8_dfa_correct',
              'utf8_simd_is_scalar',
              'utf8_count_is_chars',
              'select_in_word_spec',
              'select_in_word_total',
              'bit_reverse_spec',
              'bit_reverse_involutive',
              'string_hash_simd_is_scalar'],
 'trusted': ['the vector intrinsics themselves are not modelled: a W-lane compare + movemask + trailing_zeros is taken to be "first differing / matching lane", '
             'CRC32 r32, r/m is taken to be 8k steps of the bit-serial division, PCMPESTRI and PDEP/PEXT/BZHI are covered by the differential oracle only',
             'tiers below the native one are reached through the repo hook ZIPORA_VERIF_DISABLE (masks detected CPU features, add-only, cfg(zipora_verif)); '
             'tiers the host lacks and the nightly-only `avx512` cargo feature paths are not exercised',
             'reference oracles in harness/src/c14.rs (std::str::from_utf8, slice::cmp, naive search, bit loops, bitwise CRC, RFC 4648 tables)'],
 'assumptions': ['x86_64 little endian, usize = 64 bits',
                 'agreement of the kernels with the scalar definitions is established on the generated cases only (all lengths 0..=130 and around 256/4096, '
                 'all 64 alignments, guard pages on both sides; operation histories on shared buffers; 2^16 / 2^20-byte inputs) in each of six dispatch tiers'],
 'level_text': 'Differential check of every public accelerated entry point against a dumb scalar oracle, in six dispatch tiers (native, AVX-512 masked, '
               'AVX2 masked, everything masked, SSE4.1 without SSE4.2, BMI masked alone) with inputs bracketed by guard pages, plus machine-checked Coq theorems that the scalar definitions are the '
               'mathematical objects the property names and that the loop structure the kernels use (W-byte vector loop + scalar tail for any W, table / '
               'CRC32-instruction CRC loops, hex and Base64 codecs) computes those definitions for all inputs. The intrinsics themselves have no model, so the '
               'level claimed is translation validation with a proved reference, not proof.',
 'level_note': 'Trusted: Coq kernel + vm_compute; the hand-written model (tied to the code by evaluating generated cases in Coq); harness generators and '
               'oracles; the CPU-feature mask hook. Not covered: tiers the host CPU lacks, cargo feature avx512 code, aarch64 paths.',
 'technique': 'Coq proof (induction over chunked loops, GF(2)-linearity of the CRC step, finite alphabet checks lifted by lemma) + per-tier differential '
              'oracle on the compiled code under guard pages + model/implementation comparison by vm_compute',
 'explanation': 'Per-tier differential oracle on the real entry points (guard pages, all alignments, boundary lengths) + unbounded Coq theorems that the '
                'scalar definitions and the kernels\' loop structure compute the mathematical objects.'}
