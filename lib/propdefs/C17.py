"""Configuration of the C17 check (see lib/props.py)."""
P = {'id': 'C17',
 'level': 'proof',
 'theorems': ['spec_size_le_cap',
              'lru_refines',
              'lru_size_le_cap',
              'lru_evicts_oldest_last_access',
              'spec_callback_exact',
              'spec_keys_distinct',
              'spec_put_then_get',
              'spec_get_most_recent_unless_evicted',
              'cmap_per_shard',
              'cmap_shard_is_lru',
              'read_correct',
              'page_cache_history_correct',
              'overwrite_then_invalidate_coherent',
              'cached_get_is_inner_get',
              'invalidate_range_covers',
              'invalidated_page_is_always_reloaded',
              'invalidate_file_covers',
              'read_after_write_is_fresh',
              'read_after_write_is_fresh_from',
              'covering_invalidation_history_correct',
              'single_cache_is_wrapped_cache',
              'page_load_is_file_page',
              'virtual_read_supplies_nothing',
              'virtual_pages_stay_empty',
              'cached_store_is_inner_store',
              'shared_cache_reads_stay_fresh',
              'routed_per_shard',
              'rr_per_shard',
              'rr_shard_is_lru',
              'rr_one_shard_is_lru',
              'rr_get_after_put_refuted',
              'ta_per_shard',
              'ta_shard_is_lru',
              'ta_one_thread_is_lru',
              'ta_cross_thread_get_refuted',
              'hash_routing_is_routed',
              'page_cache_size_le_cap'],
 'trusted': ['modelled (M+S): src/containers/specialized/lru_map.rs (LruList insert_head/remove/move_to_head, LruMap get/put/remove/contains_key/len/clear/evict_lru/allocate_node), '
             'src/containers/specialized/concurrent_lru_map.rs (select_shard for Hash with the hash as a parameter, RoundRobin with the global counter, ThreadAffinity with the thread-id hash as a parameter; per-shard dispatch, clear, len), '
             'src/cache/basic_cache.rs (LruPageCache read with the file-size clamp and the page loop, get_page with invalidation tracker and eviction, prefetch, read_with_prefetch, invalidate_page/range with the page arithmetic as written, '
             'close_file, the file rewritten in place by somebody else with or without a later invalidate_range; SingleLruPageCache) with FileManager::read_page of src/cache/mod.rs (PAGE_SIZE buffer, zero fill, truncation to bytes_read), '
             'src/blob_store/cached_store.rs (put/get/remove/size/contains/len/flush/prefetch_range/enable/disable/set_write_strategy over the virtual file id, own or shared cache, any wrapped store)',
             'spec-only cells (direct oracle, no mechanism model): FsaCache (bounded, no stale state / zero path), the two-thread probe of one LruMap shard (recorded findings), and the oracle-breadth cells */wide, CacheBuffer, FileManager (secondary constructors and entry points, rare key / value types, presets as shipped, options, big capacities and files)',
             'not compiled in the pinned tree and therefore not checked: src/cache/lru_cache.rs, page_cache.rs, sharding.rs, simple_impl.rs (src/cache/mod.rs declares only config, stats, buffer, basic_cache)'],
 'assumptions': ['the key table of LruMap (std HashMap) is a finite map key -> node index; hashers are opaque (key hash and thread-id hash are parameters of the theorems; the wrapped blob store is a parameter too)',
                 'an external rewrite of a cached file keeps its size (FileManager records the size at open_file); the dirty-page set of the tracker has no reader that influences a result and is not represented',
                 'Instant::now() is strictly increasing (access times modelled as a counter); which page the page cache evicts is not constrained',
                 'page ids fit u32 (files below 16 TiB); offset + length fits u64 in prefetch / invalidate_range, and in read for ids without a file',
                 'sequential histories (ThreadAffinity: one operation at a time, possibly from different threads): the RwLock/Mutex discipline inside LruMap is not modelled',
                 'agreement of model and code is established on the generated histories only'],
 'level_text': 'Machine-checked Coq theorems about Gallina restatements of the LRU map (node array with prev/next links, head/tail/count, free-node stack, key table), the sharded map and the page cache '
               '(page table, invalidation tracker, eviction, clamp and read loop): for every capacity and every get/put/remove/contains/clear/len history the node array returns the same results and makes the same eviction-callback '
               'invocations as the recency list, which in turn equals the time-stamped map that evicts the entry with the oldest last access; the entry count never exceeds the capacity; a step\'s callbacks are exactly the entries that stop being '
               'retrievable; each shard of the sharded map is such an LRU on the operations routed to it, for any hash; for every page size, file, coherent cache state, offset and length a page-cache read returns exactly the bytes of the file '
               'in the range (page-straddling, beyond EOF, after eviction / reload / invalidation), every history of reads, prefetches, invalidations and in-place overwrites followed by an explicit invalidation returns the current file bytes on every read; '
               'the cached blob store over its virtual file id returns the wrapped store\'s bytes. Extension: invalidate_range drops exactly the pages holding a byte of a non-empty range (page arithmetic as written), close_file drops exactly the file\'s pages; in histories where the file is rewritten behind the cache\'s back every read that visits no rewritten-and-not-yet-invalidated page returns the current bytes, and all reads do when every rewrite is followed by a covering invalidate_range; SingleLruPageCache is its wrapped cache; for every wrapped blob store and every put/get/remove/.../prefetch/enable/disable history (multi-page blobs, shared cache with foreign traffic) the CachedBlobStore shows what the wrapped store shows and does not disturb real-file reads of a shared cache; for RoundRobin and ThreadAffinity routing each shard is an LRU on the operations sent to it (with the two recorded routing findings as refutation theorems). The models are tied to the compiled code on every run by evaluating about 1500 generated histories in Coq (vm_compute) and comparing every result, '
               'callback invocation and read digest with the implementation; a time-stamped reference LRU, the real files and a shadow map serve as a direct oracle on the code.',
 'level_note': 'Trusted: Coq kernel + vm_compute; the hand-written models (agreement with the code is checked on generated histories only); harness generators/oracle. '
               'Concurrency inside one LruMap (lock order) is not modelled; RoundRobin/ThreadAffinity routing break get-after-put across shards / threads (recorded findings, also proved as refutations on the model) while the per-shard theorems hold; three defects were repaired by fix: commits (clear leaking free nodes, short last page, unclamped reads), three more by the oracle-breadth pass (CacheBuffer::reserve leaving the data slice on the freed block, ZeroPathData total_length overflow, read_with_prefetch window overflow). The secondary entry points, presets as shipped, options, size thresholds and rare key / value types of harness/src/c17_wide.rs are checked by the direct oracle only (no model comparison).',
 'technique': 'Coq proof (simulation of the linked node array by a recency list via a representation invariant; induction over the page loop) + model/implementation differential check evaluated by vm_compute + reference-LRU / file-bytes oracle',
 'explanation': 'Unbounded Coq theorems about Gallina models of LruMap, ConcurrentLruMap and LruPageCache + differential check of the models against the compiled code + direct oracle on the code.'}
