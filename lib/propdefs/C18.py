"""Configuration of the C18 check (see lib/props.py)."""
P = {'id': 'C18',
 'level': 'proof',
 'theorems': ['conservation',
              'exactly_once',
              'priority_order',
              'no_parked_task',
              'progress',
              'drains',
              'completion_reachable',
              'parked_task_refuted',
              'executor_parks_refuted',
              'order_preserved',
              'error_surfaces',
              'reduce_sequential',
              'reduce_error_surfaces',
              'stream_prefix',
              'stream_complete',
              'collector_order',
              'parallel_map_is_map',
              'parallel_for_each_visits_once',
              'fiber_pool_bounded',
              'reduce_chunks_partition',
              'parallel_reduce_is_fold',
              'parallel_reduce_error_surfaces',
              'pipeline_error_surfaces',
              'pipeline_order_preserved',
              'process_batch_is_map',
              'two_stage_composes',
              'batch_collector_partition',
              'collector_timeout_not_early',
              'executor_conservation',
              'executor_counters',
              'executor_capacity_bound',
              'submit_admission',
              'submit_race_rejects',
              'is_idle_characterised',
              'is_idle_window_exists',
              'global_reduce_is_fold',
              'global_reduce_chunks_partition',
              'global_reduce_error_surfaces',
              'yield_loops_are_map',
              'yield_points_return',
              'batch_process_is_concat',
              'buffered_order',
              'buffered_settle_is_schedule',
              'stage_process_batch_is_map',
              'blob_batch_roundtrip',
              'store_ops',
              'shutdown_refuses',
              'yield_budget_history'],
 'trusted': ['modelled (M+S): src/concurrency/work_stealing.rs WorkStealingQueue::{push_local, pop_local, steal, balance, len} and '
             'WorkStealingExecutor::{submit, find_task, one worker_loop iteration incl. the periodic balance, total_queued, is_idle} with every queue '
             'operation one atomic step, and (ModelExec.v) the same executor with submit() split into its three critical sections for any number of '
             'submitting threads, the worker loop split into find / active_tasks += 1 / execute / total_executed += 1 / active_tasks -= 1 / balance check, '
             'and is_idle() over the real counters; src/concurrency/fiber_pool.rs (ModelFiber.v) FiberPool::spawn as a state machine over the semaphore '
             '(spawn / acquire / body / finish, bodies that return Ok, Err or panic, the statistics counters as written), parallel_map / parallel_for_each '
             '(handles awaited in index order with `?`), parallel_reduce (chunk_size = max(1, len / max(1, max_workers)), chunks(), try_join_all, final fold); '
             'the index-tagged result collection of concurrency::{parallel_map, join_all}, FiberPool::spawn_batch; concurrency::parallel_reduce (ModelGlobalPar.v: '
             'chunk_size = ceil(len / num_cpus), one task per chunk, join_all, final fold); src/concurrency/pipeline.rs (ModelPipe.v) '
             'Pipeline::process_batch (both paths, error identities, statistics as written), execute_single, execute_two_stage, execute_stream as stage '
             'processes over FIFO channels with per-item outcomes Ok / Err(e) / timeout / panic and the join loop (first error in stage order), '
             'BatchCollector::{add, flush, check_timeout} with a clock and check_timeout split into its two critical sections; '
             'src/concurrency/fiber_yield.rs + fiber_aio.rs (ModelYield.v): FiberYield::{yield_now, force_yield} (u8 budget, total_yields), '
             'YieldPoint::{new, checkpoint, yield_now}, the loops of CooperativeUtils::{run_with_yield, process_vec_yielding}, '
             'YieldingIterator::{for_each, collect} and FiberIoUtils::batch_process (chunks(max(1, batch_size)), one suspension per chunk) as traces of '
             'function calls and suspensions, and the `buffered(max(1, max_concurrent))` window of CooperativeUtils::concurrent_with_yield / '
             'FiberIoUtils::process_files_parallel as a state machine (start / complete / hand over, head-of-line blocking), then the `?` loop over the results; '
             'the stages\' own process_batch (trait default of MapStage / FilterStage / BatchMapStage, BatchMapStage with a batch function); '
             'src/concurrency/async_blob_store.rs (ModelStore.v): AsyncMemoryBlobStore::{new, put, get, remove, len, put_batch, get_batch} with '
             'next_id from 1 truncated to the u32 RecordId, the HashMap as an association list; the trait default put_batch / get_batch as the same '
             'sequence of puts / gets; WorkStealingExecutor::shutdown and the shutdown check of submit() (ModelLife.v); histories on one FiberYield / YieldPoint; BatchCollector over unit / u8 / String items (collector model of Model.v)',
             'spec-only cells (direct oracle, no mechanism model): the running executor on current-thread and multi-thread tokio runtimes, one queue under '
             'OS threads, BatchCollector with its background timeout checker on two threads; panicking stage functions in process_batch / execute_single '
             '(the panic propagates to the caller); oracle breadth (harness/src/c18_wide*.rs, no mechanism model): the queue / executor cells with '
             'ClosureTask, submit_closure and a Task with the trait\'s default methods; executor lifecycles (waves, shutdown, submissions after it); the '
             'process-wide executor (init_concurrency / global); histories of many operations on one FiberPool, one Pipeline and one blob store (presets, '
             'builders, FilterStage, abort, unit / String / byte items, file and compressed stores); big inputs around the internal limits (16 / 32 / 255 '
             'yield budget, 100 / 1000 / 10000 pipeline defaults, 4096, 2^16, the CPU count); the yield points (liveness only); FiberAio whole-file '
             'helpers as processors of process_files_parallel; spawn_blocking / Fiber / abort',
             'hook (repo commit `hook: paused WorkStealingExecutor ...`, cfg zipora_verif, add-only): verif_new_paused / verif_find_task / verif_balance / '
             'verif_queue_lens let the harness drive the real submit/find_task/balance in enumerated interleavings and see where submit put a task; '
             'without the hook that cell is skipped',
             'not modelled: tokio scheduling and timers (the FiberPool and pipeline theorems quantify over all schedules of the model steps instead), '
             'bounded channel capacities (they only remove schedules), try_lock failure on the global queue (the worker skips that step), memory orderings of '
             'the statistics counters, total_queued() as a non-atomic sum over the queue locks (it can only over-count a task that balance() moves meanwhile)'],
 'assumptions': ['each queue operation is atomic (critical sections of std mutexes); atomics are sequentially consistent',
                 'agreement of model and code is established on the generated histories only (FiberPool and pipeline: on a current-thread runtime, '
                 'where the order of execution is deterministic; tokio\'s semaphore hands out permits in FIFO order)',
                 'a task that has not run after 2 s without any progress of any task is counted as never run',
                 'BatchCollector clock cases are compared with the model only when the run was not stalled (a 12 ms margin around the 25 ms batch timeout)'],
 'level_text': 'Machine-checked Coq theorems about exact Gallina models of the work-stealing queue and executor, the fiber pool and the pipeline. '
               'Executor: for every worker count, capacity, priority/stealability mix and every interleaving of submit / pop_local / global pop / steal / '
               'balance / finish - also at the granularity of single critical sections and counter updates, with several threads racing inside submit() - '
               'queued + held + executed is exactly the multiset of accepted tasks (no loss, no duplication), queues stay in priority order and within their '
               'capacity, the statistics counters mean what they say, and - for the repaired pop_local - no task can be parked where no worker looks: from '
               'every reachable state a continuation of worker steps executes every accepted task and reaches is_idle (with refutation theorems for the '
               'pinned pop_local whose numbers, 51 of 202 tasks never run, are reproduced by the real pre-fix code); is_idle() is characterised exactly, '
               'including the window in which it is true too early. FiberPool: for every schedule of the semaphore-bounded fibers parallel_map returns map f xs '
               'in input order or Err, every body runs exactly once (also behind a failed one), never more than max_fibers bodies are in flight, the pool cannot '
               'deadlock, the chunks of parallel_reduce partition the input for every length / worker count and the chunked reduce equals the sequential fold '
               'for monoids. Pipeline: process_batch returns one result per input in order or the error of the first failing item, execute_stream delivers a '
               'prefix of the sequential result under every interleaving, returns Err whenever any stage fails, times out or panics on any item (the error of '
               'the lowest failed stage, a genuine one) and the complete result whenever it returns Ok; BatchCollector neither loses nor reorders items under any '
               'history of add / flush / timeout checks, also with concurrent checkers, and never flushes early. The models are tied to the code by replaying '
               'queue histories, hook-driven executor histories (all interleavings of small shape, with is_idle and queue-length observers), single-worker '
               'execution orders with the counters, fiber-pool histories with gated bodies (statistics and finished handles after every step), '
               'parallel_map/for_each/reduce execution orders, call traces and statistics, process_batch / execute_single / execute_stream results with error '
               'identities and statistics, BatchCollector histories against the real clock, the yielding loops driven by hand (every Poll::Pending is a suspension: the exact interleaving of '
               'function calls and suspensions) and the buffered window over gated operations (operations started after every gate), all evaluated in Coq. '
               'Yield helpers: for every function, input and interval the loops return the function applied in input order, call it exactly once per item up to '
               'the first failure, every suspension returns; batch_process hands the processor a partition of the input and concatenates in order; the buffered '
               'window emits in input order under every completion order and is never stuck. The running executor, one queue under OS '
               'threads, the collector with its background checker are decided by a counting oracle only (S-only). Blob store: get_batch(put_batch(ds)) = ds with fresh, '
               'distinct ids after every history (below 2^32 ids), tied to the code by store histories evaluated in Coq.',
 'level_note': 'Trusted: Coq kernel + vm_compute; hand-written model; atomicity of the mutex-protected queue operations; harness generators and counting oracle; '
               'tokio is not modelled.',
 'technique': 'Coq proof by induction over histories (Permutation invariants, sortedness invariant, measure argument for draining, schedule construction for '
              'reachability of completion, prefix invariants with history variables for the stream, counting invariants and a potential function for the '
              'semaphore state machine, simulation of the detailed stream model by the abstract one, refinement of Model.submit by the split submit); '
              'model/implementation differential check on operation histories by vm_compute; counting oracle on the real executor and pools',
 'explanation': 'Unbounded theorems for the queue/executor/collection/stream models; differential check of the models against the code; oracle for the running system.',
 'shard_timeout': 900}
