"""Configuration of the C18 check (see lib/props.py)."""
P = {'id': 'C18',
 'level': 'proof',
 'theorems': ['conservation',
              'exactly_once',
              'priority_order',
              'no_parked_task',
              'progress',
              'drains',
              'parked_task_refuted',
              'executor_parks_refuted',
              'order_preserved',
              'error_surfaces',
              'reduce_sequential',
              'collector_order'],
 'trusted': ['modelled (M+S): src/concurrency/work_stealing.rs WorkStealingQueue::{push_local, pop_local, steal, balance, len} and '
             'WorkStealingExecutor::{submit, find_task, one worker_loop iteration, total_queued, is_idle}, every queue operation one atomic step',
             'spec-only cells (direct oracle, no mechanism model): the running executor on tokio runtimes, FiberPool::spawn/for_each, '
             'Pipeline::execute_single/two_stage/execute_stream, fiber_yield and fiber_aio helpers, AsyncMemoryBlobStore batches',
             'not modelled: tokio scheduling and timers, the memory orderings of the statistics counters'],
 'assumptions': ['each queue operation is atomic (they are critical sections of std mutexes); atomics are sequentially consistent',
                 'agreement of model and code is established on the generated histories only'],
 'level_text': 'Machine-checked Coq theorems about an exact Gallina model of the work-stealing queue and executor.',
 'level_note': 'Trusted: Coq kernel + vm_compute; hand-written model; harness generators and counting oracle.',
 'technique': 'Coq proof by induction over histories (Permutation invariants); model/implementation differential check on operation histories by vm_compute; '
              'counting oracle on the real executor',
 'explanation': 'Unbounded theorems for the queue/executor model; oracle for the running system.',
 'shard_timeout': 900}
