"""Configuration of the C18 check (see lib/props.py)."""
P = {'id': 'C18',
 'level': 'proof',
 'theorems': ['conservation',
              'exactly_once',
              'priority_order',
              'no_parked_task',
              'progress',
              'drains',
              'completion_reachable',
              'parked_task_refuted',
              'executor_parks_refuted',
              'order_preserved',
              'error_surfaces',
              'reduce_sequential',
              'reduce_error_surfaces',
              'stream_prefix',
              'stream_complete',
              'collector_order',
              'parallel_map_is_map',
              'parallel_for_each_visits_once',
              'fiber_pool_bounded',
              'reduce_chunks_partition',
              'parallel_reduce_is_fold',
              'parallel_reduce_error_surfaces',
              'pipeline_error_surfaces',
              'pipeline_order_preserved',
              'process_batch_is_map',
              'two_stage_composes',
              'batch_collector_partition',
              'collector_timeout_not_early',
              'executor_conservation',
              'executor_counters',
              'executor_capacity_bound',
              'submit_admission',
              'submit_race_rejects',
              'is_idle_characterised',
              'is_idle_window_exists'],
 'trusted': ['modelled (M+S): src/concurrency/work_stealing.rs WorkStealingQueue::{push_local, pop_local, steal, balance, len} and '
             'WorkStealingExecutor::{submit, find_task, one worker_loop iteration incl. the periodic balance, total_queued, is_idle} with every queue '
             'operation one atomic step; the index-tagged result collection of FiberPool::{parallel_map, spawn_batch, parallel_reduce}, '
             'concurrency::{parallel_map, join_all}, Pipeline::process_batch; Pipeline::execute_stream as stage processes over FIFO channels; '
             'BatchCollector::{add, flush, check_timeout}',
             'spec-only cells (direct oracle, no mechanism model): the running executor on current-thread and multi-thread tokio runtimes, '
             'FiberPool::parallel_for_each, concurrency::parallel_reduce, Pipeline::execute_single/execute_two_stage, CooperativeUtils::*, '
             'YieldingIterator, FiberIoUtils::*, AsyncMemoryBlobStore::put_batch/get_batch; panicking stage functions',
             'hook (repo commit `hook: paused WorkStealingExecutor ...`, cfg zipora_verif, add-only): verif_new_paused / verif_find_task / verif_balance '
             'let the harness drive the real submit/find_task/balance in enumerated interleavings; without the hook that cell is skipped',
             'not modelled: tokio scheduling and timers, bounded channel capacities (they only remove schedules), try_lock failure on the global queue '
             '(the worker skips that step), memory orderings of the statistics counters, the instant between a pop and active_tasks += 1'],
 'assumptions': ['each queue operation is atomic (critical sections of std mutexes); atomics are sequentially consistent',
                 'agreement of model and code is established on the generated histories only',
                 'a task that has not run after 2 s without any progress of any task is counted as never run'],
 'level_text': 'Machine-checked Coq theorems about an exact Gallina model of the work-stealing queue and executor: for every worker count, capacity, '
               'priority/stealability mix and every interleaving of submit / pop_local / global pop / steal / balance / finish, queued + running + executed '
               'is exactly the multiset of accepted tasks (no loss, no duplication), queues stay in priority order, and - for the repaired pop_local - no task '
               'can be parked where no worker looks: from every reachable state a continuation of worker steps executes every accepted task and reaches '
               'is_idle; with refutation theorems for the pinned pop_local whose numbers (51 of 202 tasks never run) are reproduced by the real pre-fix code. '
               'Ordered collection: for every completion order parallel_map returns the sequential result, a failing item yields Err, chunked reduce equals '
               'the sequential fold for monoids, execute_stream delivers a prefix of the sequential result under every interleaving and the complete result '
               'whenever it returns Ok, BatchCollector neither loses nor reorders items. The model is tied to the code by replaying queue histories, '
               'hook-driven executor histories (all interleavings of small shape), single-worker execution orders, submissions across the 10000 global '
               'limit and collection results in Coq. The running executor, for_each and the yield/aio helpers are decided by a counting oracle only (S-only).',
 'level_note': 'Trusted: Coq kernel + vm_compute; hand-written model; atomicity of the mutex-protected queue operations; harness generators and counting oracle; '
               'tokio is not modelled.',
 'technique': 'Coq proof by induction over histories (Permutation invariants, sortedness invariant, measure argument for draining, schedule construction for '
              'reachability of completion, prefix invariants with history variables for the stream); model/implementation differential check on operation '
              'histories by vm_compute; counting oracle on the real executor and pools',
 'explanation': 'Unbounded theorems for the queue/executor/collection/stream models; differential check of the models against the code; oracle for the running system.',
 'shard_timeout': 900}
