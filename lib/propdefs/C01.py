# TEMPORARY - replaced at merge.  Stand-alone configuration of the rANS / FSE / LZ half of C01.
"""Configuration of the C01 check (see lib/props.py)."""
P = {'id': 'C01',
 'level': 'proof',
 'coq_deps': ['C02'],
 'theorems': ['rans_step_inverse', 'rans_no_overflow', 'rans_roundtrip', 'parallel_roundtrip', 'normalize_wf', 'normalize_defined', 'table_of_counts_wf', 'rans_encode_refuses', 'rans_encode_defined', 'lz_parse_decodes', 'lz_sound_chooser_roundtrip', 'lz_decode_encode', 'alverson_exact', 'fse_mul_hi_old_refuted', 'fse_core_roundtrip', 'fse_encode_refuses', 'fse_encode_defined', 'fse_single_roundtrip', 'fse_roundtrip'],
 'trusted': [],
 'assumptions': [],
 'level_text': 'under construction',
 'level_note': '',
 'technique': '',
 'explanation': ''}
