"""Configuration of the C01 check (see lib/props.py)."""
P = {'id': 'C01',
 'level': 'proof',
 'theorems': ['pack_unpack', 'huff_roundtrip', 'huff_encode_rejects', 'huff_encode_total'],
 'trusted': [],
 'assumptions': [],
 'level_text': 'wip',
 'level_note': 'wip',
 'technique': 'wip',
 'explanation': 'wip'}
