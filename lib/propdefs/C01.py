# TEMPORARY - replaced at merge.  Stand-alone configuration of the rANS / FSE / LZ half of C01 (texts are meant to be merged).
"""Configuration of the C01 check (see lib/props.py)."""
P = {'id': 'C01',
 'level': 'proof',
 'coq_deps': ['C02'],
 'theorems': ['rans_step_inverse', 'rans_no_overflow', 'rans_roundtrip', 'parallel_roundtrip', 'normalize_wf', 'normalize_defined', 'table_of_counts_wf', 'rans_encode_refuses', 'rans_encode_defined', 'lz_parse_decodes', 'lz_sound_chooser_roundtrip', 'lz_decode_encode', 'alverson_exact', 'fse_mul_hi_old_refuted', 'fse_core_roundtrip', 'fse_encode_refuses', 'fse_encode_defined', 'fse_single_roundtrip', 'fse_roundtrip'],
 'trusted': ['modelled (M+S), second half: src/entropy/rans.rs (Rans64Encoder::new/normalize_frequencies [model of coq/C02]/encode_symbol/encode/encode_single/'
             'encode_parallel, Rans64Decoder::new/decode_symbol/decode/decode_single/decode_parallel) bit-exact incl. the n-stream layout; '
             'src/entropy/dictionary.rs DictionaryCompressor::compress/decompress and OptimizedDictionaryCompressor::decompress bit-exact; '
             'src/entropy/fse.rs FseTable::init_enc_symbol/mul_hi/encode_symbol/renormalize_encode/decode_symbol/renormalize_decode, '
             'FseEncoder::compress/compress_single_internal/compress_parallel/merge_compressed_blocks, FseDecoder::decompress/decompress_single/'
             'decompress_parallel bit-exact, with the normalised table (FseTable::new, f64 entropy normaliser) as a parameter read from the real FseTable',
             'spec-only cells (direct oracle, no mechanism model): AdaptiveRans64Encoder, OptimizedDictionaryCompressor::compress (its decoder and the generic '
             'sound-chooser theorem are modelled), non-adaptive FseEncoder reusing a table, FseEncoder::with_dictionary, fse_compress/fse_zip/'
             '*_with_config convenience functions, AdaptiveParallelEncoder::encode_adaptive (rANS and FSE selections), the AVX2 histogram',
             'not modelled: the f64 normaliser of FSE (well-formedness of its output is a hypothesis of the FSE theorems), thread spawning in '
             'compress_parallel, allocation; inputs above MAX_DECOMPRESSED_SIZE (100 MiB) which the decoders refuse'],
 'assumptions': ['usize is 64 bits; tables have 256 entries; raw counts fit u32',
                 'payload length <= MAX_DECOMPRESSED_SIZE (100 MiB): the decoders refuse longer outputs, the theorems state the bound',
                 'agreement of model and code is established on the generated cases only (normalised rANS tables, rANS encoder bytes and decoder output '
                 'for 1/2/4/8 streams, all five fields of the 256 FSE encoding symbols, FSE compressed bytes and decoder output incl. block containers, '
                 'LZ token streams and decoder output)'],
 'level_text': 'Machine-checked Coq theorems about exact integer models of the rANS-64 coder (byte renormalisation, 1/2/4/8 interleaved streams), of the '
               'FSE coder of this code base (rANS with 32-bit renormalisation, Alverson reciprocal division, header, stored path, block container and its '
               'sniffing heuristic) and of the LZ dictionary coder: one encoder step is inverted by one decoder step with the state interval as invariant; '
               'decode(encode(d)) = d for every well-formed table, every payload, every stream count and every length; the three-pass normaliser keeps the '
               'table sum at 4096 and every present symbol at >= 1 slot; the reciprocal multiplication is an exact division without u64 wrap; the FSE decoder '
               'reads four bytes exactly when the encoder wrote four, including the start-up phase; every valid LZ parse decodes to the payload whatever the '
               'match chooser, and the greedy longest-match search is a sound chooser. Uncovered symbols are refused, never substituted. The models are tied '
               'to the code by evaluating generated cases in Coq against what the implementation returned (tables, encoder bytes, decoder output).',
 'level_note': 'Trusted: Coq kernel + vm_compute; hand-written models; harness generators and the round-trip oracle; the f64 FSE normaliser is a parameter '
               'of the theorems (its table is read from the real code per case).',
 'technique': 'Coq proof: induction over the payload with a state-interval invariant, b-uniqueness of the renormalisation, Euclidean-division arithmetic '
              '(lia/nia on isolated lemmas), list lemmas for the stream layout and the container; refutation by vm_compute with the witness replayed on the '
              'real code; model/implementation differential check; direct round-trip oracle over every codec, preset, stream count and training relation',
 'explanation': 'Unbounded round-trip theorems for rANS (n streams), FSE (single block and container, any normaliser) and LZ (any sound match chooser); '
                'round-trip oracle for every entry point; eight defects found and repaired (findings/C01_b.txt).'}
