"""Configuration of the C01 check (see lib/props.py)."""
P = {'id': 'C01',
 'level': 'proof',
 'theorems': ['pack_unpack', 'huff_roundtrip', 'huff_encode_rejects', 'huff_encode_total', 'gen_codes_wf', 'build_root_wf', 'ht_from_heap_wf', 'writer_write_refines', 'writer_finish_refines', 'reader_refill_refines', 'reader_peek_refines', 'reader_consume_refines', 'decode_one_symbol_refines', 'ctx_roundtrip', 'ctx_encode_rejects', 'chunks_partition', 'xn_roundtrip', 'xn_refuted_long_codes', 'xn_refuted_missing_symbol', 'ctx_refuted_fallback', 'ctx_refuted_single_leaf', 'xn_refuted_single_leaf'],
 'trusted': [],
 'assumptions': [],
 'level_text': 'wip',
 'level_note': 'wip',
 'technique': 'wip',
 'explanation': 'wip'}
