# TEMPORARY - replaced at merge.  Stand-alone configuration of the rANS / FSE / LZ half of C01.
"""Configuration of the C01 check (see lib/props.py)."""
P = {'id': 'C01',
 'level': 'proof',
 'coq_deps': ['C02'],
 'theorems': [],
 'trusted': [],
 'assumptions': [],
 'level_text': 'under construction',
 'level_note': '',
 'technique': '',
 'explanation': ''}
