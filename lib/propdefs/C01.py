"""Configuration of the C01 check (see lib/props.py): Huffman half + rANS/FSE/LZ half, merged."""
P = {'id': 'C01',
 'level': 'proof',
 'theorems': ['pack_unpack',
              'huff_roundtrip',
              'huff_encode_rejects',
              'huff_encode_total',
              'gen_codes_wf',
              'build_root_wf',
              'ht_from_heap_wf',
              'writer_write_refines',
              'writer_finish_refines',
              'reader_refill_refines',
              'reader_peek_refines',
              'reader_consume_refines',
              'decode_one_symbol_refines',
              'ctx_roundtrip',
              'ctx_encode_rejects',
              'chunks_partition',
              'xn_roundtrip',
              'xn_refuted_long_codes',
              'xn_refuted_missing_symbol',
              'ctx_refuted_fallback',
              'ctx_refuted_single_leaf',
              'xn_refuted_single_leaf',
              'rebuild_tree',
              'from_frequencies_covers',
              'from_frequencies_roundtrip',
              'merged_freqs_cover',
              'ctx_encode_total',
              'xn_encode_total',
              'ht_deserialize_serialize',
              'ht_serialized_decodes',
              'wf_table_prefix_free',
              'tree_serialized_decodes',
              'c_deserialize_serialize',
              'ctx_serialized_decodes',
              'xn_serialized_decodes',
              'ctx_new_wf',
              'ctx_new_roundtrip',
              'order2_top_contexts',
              'hm_of_permutes',
              'par_roundtrip',
              'par_is_single_lane',
              'adaptive_huffman_roundtrip',
              'rans_step_inverse',
              'rans_no_overflow',
              'rans_roundtrip',
              'parallel_roundtrip',
              'normalize_wf',
              'normalize_defined',
              'table_of_counts_wf',
              'rans_encode_refuses',
              'rans_encode_defined',
              'lz_parse_decodes',
              'lz_sound_chooser_roundtrip',
              'lz_decode_encode',
              'alverson_exact',
              'fse_mul_hi_old_refuted',
              'fse_core_roundtrip',
              'fse_encode_refuses',
              'fse_encode_defined',
              'fse_single_roundtrip',
              'fse_roundtrip'],
 'trusted': ['Huffman half (this list; the rANS / FSE / dictionary half is described in design/C01_b.md). Modelled (M+S), src/entropy/huffman.rs as written: '
             "the byte packing loop of HuffmanEncoder::encode / ContextualHuffmanEncoder::encode and the decoders' bit order; "
             'BitStreamWriter::{new,write,finish}, BitStreamReader::{new,refill,peek,consume} with their u64 accumulators; HuffmanTree as code table + '
             'decoding tree: generate_codes, the single-symbol case and the >64-bit fixed-length fallback of from_frequencies, from_frequencies_fixed_length, '
             'build_decoding_tree_from_codes, insert_code_into_tree (placeholder leaves, collision error); HuffmanEncoder::encode; HuffmanDecoder::decode '
             '(symbol emitted when the next bit is seen at a leaf, final flush, single-leaf tree, stop at output_length, Ok([]) on empty input); '
             'ContextualHuffmanEncoder::encode (orders 0/1/2, context_map lookup, tree 0 for the first symbols and unmapped contexts); '
             'ContextualHuffmanDecoder::{decode, decode_order0, decode_order1, decode_order2, decode_next_symbol}; encode_with_interleaving / encode_x1..x8 / '
             'encode_xn, build_fast_symbol_table_inner, write_code_from_tree, decode_with_interleaving / decode_x1..x8 / decode_xn, build_decode_table (as the '
             'function it tabulates), decode_one_symbol, decode_one_symbol_tree; the frequency merge of new_order1 / new_order2; HuffmanTree::serialize / '
             'deserialize and ContextualHuffmanEncoder::serialize / deserialize byte for byte with every check of the deserialisers in its order (HashMap = '
             'association list with replacing insert); HuffmanTree::from_data and ContextualHuffmanEncoder::new / new_order0 / new_order1 / new_order2 '
             '(counting loops with checked u32 arithmetic, short-input fallbacks, context HashMap in first-insertion order, merge with the order-0 baseline, '
             'stable sort / reverse / take(1024) of order 2, context_map.insert + trees.push); src/entropy/parallel.rs ParallelHuffmanEncoder::{new, train, '
             'encode} and ParallelHuffmanDecoder::{set_tree, decode} as an object with state over histories of calls, AdaptiveParallelEncoder::encode_adaptive '
             'on its Huffman arms (lane selection by size, train + encode on the member object)',
             'oracle-only cells (direct round-trip oracle on the real code, no mechanism model of their own): simd/<6 tiers> (SimdHuffmanEncoder::encode incl. '
             'the AVX2/BMI2 paths and BitBuffer::append_bits - its output bytes are nevertheless compared with the model of HuffmanEncoder::encode on the same '
             'table), bit_ops/varlen (encode/decode_variable_length_bmi2), the wide/... object-history cells',
             'not modelled: the BinaryHeap construction of the tree (a parameter: the theorems hold for every merge order, `heap_run` / `heap_any`; the '
             'harness reads the real table through HuffmanTree::get_code / serialize); the iteration order of HashMaps (a parameter: every permutation, '
             '`hm_any`); deserialize on tables that are not prefix-free (outcome depends on HashMap order; malformed input is property C15); the f64 entropy '
             'estimate that selects the algorithm in AdaptiveParallelEncoder; SIMD intrinsics; estimate_compression_ratio; thread spawning (none on these '
             'paths)',
             'modelled (M+S), second half: src/entropy/rans.rs (Rans64Encoder::new/normalize_frequencies [model of '
             'coq/C02]/encode_symbol/encode/encode_single/encode_parallel, Rans64Decoder::new/decode_symbol/decode/decode_single/decode_parallel) bit-exact '
             'incl. the n-stream layout; src/entropy/dictionary.rs DictionaryCompressor::compress/decompress and OptimizedDictionaryCompressor::decompress '
             'bit-exact; src/entropy/fse.rs FseTable::init_enc_symbol/mul_hi/encode_symbol/renormalize_encode/decode_symbol/renormalize_decode, '
             'FseEncoder::compress/compress_single_internal/compress_parallel/merge_compressed_blocks, '
             'FseDecoder::decompress/decompress_single/decompress_parallel bit-exact, with the normalised table (FseTable::new, f64 entropy normaliser) as a '
             'parameter read from the real FseTable',
             'spec-only cells (direct oracle, no mechanism model): AdaptiveRans64Encoder, OptimizedDictionaryCompressor::compress (its decoder and the generic '
             'sound-chooser theorem are modelled), non-adaptive FseEncoder reusing a table, FseEncoder::with_dictionary, fse_compress/fse_zip/*_with_config '
             'convenience functions, AdaptiveParallelEncoder::encode_adaptive (rANS and FSE selections), the AVX2 histogram',
             'not modelled: the f64 normaliser of FSE (well-formedness of its output is a hypothesis of the FSE theorems), thread spawning in '
             'compress_parallel, allocation; inputs above MAX_DECOMPRESSED_SIZE (100 MiB) which the decoders refuse'],
 'assumptions': ['usize is 64 bits; u8 symbols are the predicate b < 256 (bytes_ok)',
                 'the harness parses ContextualHuffmanEncoder::serialize() itself to obtain the context map and the code tables of a real encoder (trees are '
                 'private); that parser is trusted',
                 'agreement of model and code is established on the generated cases only: encoder output bytes (or refusal) of HuffmanEncoder / '
                 "SimdHuffmanEncoder / ContextualHuffmanEncoder::encode / encode_xN given the real tables; decoder output (or Err) on the real encoder's bytes "
                 'at the right length, at wrong lengths and on damaged bytes',
                 'training texts stay below 2^32 / 100 bytes (the checked u32 arithmetic of the constructors cannot overflow; the bound is a hypothesis of '
                 'ctx_new_wf / ctx_new_roundtrip and the model returns None = panic beyond it)',
                 'damaged serialisations in the generated cases are restricted to outcomes that do not depend on HashMap iteration order (refusals, or tables '
                 'that stay prefix-free)',
                 'crafted encoders are restricted to well-formed tables (prefix-free, non-empty codes of at most 255 bits, a one-symbol table carries the '
                 'one-bit code from_frequencies gives it); what deserialize does with other tables is property C15',
                 'usize is 64 bits; tables have 256 entries; raw counts fit u32',
                 'payload length <= MAX_DECOMPRESSED_SIZE (100 MiB): the decoders refuse longer outputs, the theorems state the bound',
                 'agreement of model and code is established on the generated cases only (normalised rANS tables, rANS encoder bytes and decoder output for '
                 '1/2/4/8 streams, all five fields of the 256 FSE encoding symbols, FSE compressed bytes and decoder output incl. block containers, LZ token '
                 'streams and decoder output)'],
 'level_text': 'Machine-checked Coq theorems, all closed under the global context, about a hand-written Gallina model of the Huffman family of '
               'src/entropy/huffman.rs, unbounded in the data, its length, the trees and the stream count: the packing loop and the u64 bit writer / reader '
               'refine a list of bits; the order-0 coder round-trips for every decoding tree and code table that agree (decidable wf_ht), and refuses - never '
               'substitutes - a symbol without a code; generate_codes and build_decoding_tree_from_codes (incl. the >64-bit fixed-length fallback) produce '
               'agreeing pairs for every tree / every prefix-free table, and rebuilding a tree from its table gives the tree back; from_frequencies -> encode '
               '-> decode is total and lossless for every order in which the heap may merge nodes; the contextual coder (orders 0/1/2) and the N-way '
               'interleaved coder round-trip for every family of well-formed trees, every N >= 1 and every length (chunk boundaries proved to partition the '
               "input; encoder and decoder proved to follow the same round-robin schedule; decode_one_symbol's table path and tree path proved equal to the "
               'cursor decoder; codes of any length); encoders whose trees cover all bytes never refuse and the interleaved loop terminates. Five refutation '
               'theorems with witnesses (replayed on the real code from corpus/C01) for the four defects repaired in the tree under verification. The model is '
               'tied to the code on every run by evaluating ~1450 generated cases in Coq against what the implementation returned, with the code tables read '
               'from the real trees. Extension: the serialised forms are inside the model - deserialize(serialize(x)) reads the same code tables, order and '
               'context map back for every table a HashMap<u8, Vec<bool>> can hold and every HashMap iteration order, and the decoders of the copy (order-0, '
               'contextual, interleaved with every N) decode what the original wrote; the counting loops of ContextualHuffmanEncoder::new are inside the model '
               '- for every training text (below 42.9 M bytes), every heap behaviour and every HashMap order the constructor returns a well-formed encoder, '
               'from two training bytes on it accepts every payload (contexts never seen in training included) and round-trips it, plain and interleaved; the '
               'order-2 cut keeps min(1024, distinct) contexts, none rarer than one it drops; the parallel front end is an object model - for every history of '
               'train / encode calls and every stream count the decoder on the text in force returns the payload (there are no lanes in this code: proved '
               'equal to one HuffmanEncoder); encode_adaptive on its Huffman arms never refuses and round-trips. ~420 further generated cases per run (ops '
               '7-13) tie these models to the code, incl. damaged serialisations. Only the SIMD encoders and bit_ops are decided by the round-trip oracle '
               'alone. || rANS / FSE / LZ half: Machine-checked Coq theorems about exact integer models of the rANS-64 coder (byte renormalisation, 1/2/4/8 '
               'interleaved streams), of the FSE coder of this code base (rANS with 32-bit renormalisation, Alverson reciprocal division, header, stored path, '
               'block container and its sniffing heuristic) and of the LZ dictionary coder: one encoder step is inverted by one decoder step with the state '
               'interval as invariant; decode(encode(d)) = d for every well-formed table, every payload, every stream count and every length; the three-pass '
               'normaliser keeps the table sum at 4096 and every present symbol at >= 1 slot; the reciprocal multiplication is an exact division without u64 '
               'wrap; the FSE decoder reads four bytes exactly when the encoder wrote four, including the start-up phase; every valid LZ parse decodes to the '
               'payload whatever the match chooser, and the greedy longest-match search is a sound chooser. Uncovered symbols are refused, never substituted. '
               'The models are tied to the code by evaluating generated cases in Coq against what the implementation returned (tables, encoder bytes, decoder '
               'output).',
 'level_note': 'Trusted: Coq kernel + vm_compute; the hand-written model; the harness (generators, the serialize() parser, the dumb round-trip oracle). The '
               'heap construction is a parameter of the theorems, not trusted. || Trusted: Coq kernel + vm_compute; hand-written models; harness generators '
               'and the round-trip oracle; the f64 FSE normaliser is a parameter of the theorems (its table is read from the real code per case).',
 'technique': 'Coq proof: bit strings as list bool with n_of_bits/bits_of_n, accumulators refined through representation predicates (wrep/rrep), induction '
              "over the data with the decoder state generalised, a lock-step simulation of the encoder's and decoder's round-robin loops with a "
              'pending-or-correct invariant on the output buffer; model/implementation differential check by vm_compute; direct round-trip oracle over every '
              'variant x training relation x boundary-biased payloads, incl. encoders built through the public deserialize from crafted tables (codes up to '
              '255 bits); Coq proof: induction over the payload with a state-interval invariant, b-uniqueness of the renormalisation, Euclidean-division '
              'arithmetic (lia/nia on isolated lemmas), list lemmas for the stream layout and the container; refutation by vm_compute with the witness '
              'replayed on the real code; model/implementation differential check; direct round-trip oracle over every codec, preset, stream count and '
              'training relation; oracle breadth: one encoder / decoder object per case driven through histories of different operations and payloads '
              '(trained, cached and reloaded models), every preset and option field, size thresholds up to 28 MB, symbol-level APIs against the block APIs',
 'explanation': 'Unbounded round-trip theorems for Huffman order-0, contextual orders 0/1/2 and interleaved x1/x2/x4/x8 over arbitrary trees, across serialize '
                '/ deserialize, from the context constructors on (every training text x every payload), and for the parallel / adaptive front ends over object '
                'histories; oracle only for SIMD. Unbounded round-trip theorems for rANS (n streams), FSE (single block and container, any normaliser) and LZ '
                '(any sound match chooser); round-trip oracle for every entry point; eight defects found and repaired (findings/C01_b.txt).',
 'coq_deps': ['C02']}
