"""Per-property configuration for ./check (theorem lists, levels, trusted base)."""

PROPS = {}

PROPS["C13"] = {
    "id": "C13",
    "level": "proof",
    "theorems": ["leb128_u64_law", "zigzag_roundtrip", "zigzag_surjective", "zigzag_varint_law",
                 "prefix_free_law", "prefix_free_signed_law", "seq_law", "delta_u64_law",
                 "delta_u64_refuted", "group_varint_refuted"],
    "trusted": ["modelled: src/io/var_int.rs (VarInt, SignedVarInt), src/io/var_int_variants.rs (all 7 strategies, single values and sequences)",
                "spec-only (oracle, no mechanism model): none yet for data_input/data_output/endian/complex_types/smart_ptr"],
    "assumptions": ["wrapping (release) arithmetic in the model; the checked profile's panics are observed on the real code by the harness",
                    "agreement of model and code is established on the generated cases only"],
    "level_text": "Machine-checked Coq theorems, for all 2^64 values / all sequences / all trailing bytes, about a Gallina restatement of the varint codecs as written (unsigned LEB128 law, zigzag bijection, prefix-free law, sequence combinator, delta law outside the recorded finding class, refutation witnesses for the two findings); the model is tied to the compiled code on every run by evaluating thousands of generated cases in Coq and comparing with the implementation, and a direct round-trip oracle runs on the implementation. Proof is the right level because the quantifier is all u64/i64 values and all sequences.",
    "level_note": "Trusted: Coq kernel + vm_compute; the hand-written model (agreement with the code is checked on generated cases only); harness generators/oracle; wrapping arithmetic in the model. Not modelled yet: DataInput/DataOutput back ends, endian, complex_types, smart_ptr, versioned fields, simd_encoding/varint.rs.",
    "technique": "Coq proof (induction over fuelled LEB128 loops, lia) + model/implementation differential check evaluated by vm_compute",
    "explanation": "Unbounded Coq theorems about a Gallina restatement of the varint codecs + differential check of that model against the compiled code + direct round-trip oracle on the code.",
}

PROPS["C20"] = {
    "id": "C20",
    "level": "proof",
    "theorems": ["mag_cmp_correct_thm", "decimal_strcmp_correct", "decimal_antisym", "decimal_trans"],
    "trusted": ["modelled (M+S): src/string/numeric_compare.rs (decimal_strcmp, realnum_strcmp and helpers) as byte-list functions",
                "spec-only cells (direct oracle against std, no mechanism model): FastStr, join*, JoinBuilder, words, SortedVecLexIterator, LineProcessor, LineSplitter, ASCII case conversion"],
    "assumptions": ["the realnum comparator is modelled and differentially checked but its value theorem is not yet proved (exhaustive oracle up to length 3/4 stands in)",
                    "agreement of model and code is established on the generated cases only"],
    "level_text": "Machine-checked Coq theorems that the decimal string comparator, as written, equals comparison of the denoted integers for all strings of any length (leading zeros, signs, signed zero), returns None exactly on invalid input, and is antisymmetric and transitive; the model (decimal and real comparators) is tied to the code by evaluating thousands of cases in Coq on every run; the remaining cells (FastStr, join/split, words, lines, lexicographic iterator, case conversion, realnum value semantics) are decided by an exhaustive/generated differential oracle against std and exact integer arithmetic, which is weaker than proof and labelled S-only in the evidence.",
    "level_note": "Trusted: Coq kernel + vm_compute; hand-written model; harness oracle (exact i128 arithmetic for numeric values, std slice/str operations). Not modelled: SIMD paths of FastStr (hash/compare), streaming iterator, SortableStrVec (shared with C10).",
    "technique": "Coq proof (digit-string induction, nia) for the decimal comparator + model/implementation differential check by vm_compute + exhaustive small-universe oracle for the other cells",
    "explanation": "Unbounded theorems for the decimal comparator; differential + exhaustive oracle for the rest.",
}

PROPS["C09"] = {
    "id": "C09",
    "level": "proof",
    "theorems": ["field_fits_thm", "min0_get_defined", "min0_get_refuses_out_of_range", "min0_set_defined",
                 "min0_set_get_same", "min0_set_get_other", "min0_get_build", "min0_push_back_fast", "min0_wide_refuted"],
    "trusted": ["modelled (M+S): src/containers/uint_vec_min0.rs (compute_uintbits, compute_mem_size, get, set/set_uint_bits single-word path, new, resize, push_back all three paths, build_from_usize) with the byte vector represented as (length, little-endian number); src/containers/zip_int_vec.rs is modelled (definitions) but only oracle-checked",
                "spec-only cells (direct oracle, no mechanism model): ZipIntVec, SortedUintVec + builder (3 presets, get/get2/get_block), IntVec<u8..u64,i8..i64> x from_slice/from_slice_bulk/from_slice_bulk_simd, UintVector build_from/push",
                "not modelled: the byte-wise slow path of set_uint_bits (reachable only for widths > 58, which is the recorded finding)"],
    "assumptions": ["usize is 64 bits", "agreement of model and code (incl. raw memory contents after every history) is established on the generated histories only"],
    "level_text": "Machine-checked Coq theorems about a bit-exact Gallina model of UintVecMin0 (the packed store under ZipIntVec and the blob-store offset tables): for every width <= 58, every index and every memory content, a field never straddles the 64-bit load window, in-range reads and writes are defined and stay inside the allocation computed by compute_mem_size, a write reads back and leaves every other element unchanged, bulk build returns every element for all sequences of any length whose range fits 58 bits, in-place push_back appends without disturbing earlier elements; refutation witness for widths above 58. The model is tied to the code by replaying generated operation histories in Coq and comparing every output and the raw memory image. The other containers (SortedUintVec, IntVec, UintVector, ZipIntVec) are decided by a boundary-biased differential oracle only, labelled S-only.",
    "level_note": "Trusted: Coq kernel + vm_compute; hand-written model; harness generators and shadow-Vec oracle. Unsafe pointer reads are modelled as index arithmetic with an explicit out-of-bounds outcome.",
    "technique": "Coq proof by bit extensionality (N.testbit) + finite sweep lifted by lemma + induction over build; model/implementation differential check on operation histories by vm_compute; differential oracle for S-only cells",
    "explanation": "Unbounded theorems for UintVecMin0; differential oracle for the other containers.",
}
