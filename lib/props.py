"""Per-property configuration for ./check: one file per property in lib/propdefs/Cxx.py defining P = {...}.
Keys: id, level (proof|translation_validation|...), theorems (names that must be in coq/Cxx/Properties.v),
trusted, assumptions, level_text, level_note, technique, explanation; optional: coq_deps (other coq dirs),
claimed (False keeps the check out of MANIFEST.json), na_reason, coq_timeout, shard_timeout, harness_timeout, consts."""
import os, glob, importlib.util

PROPS = {}
_d = os.path.join(os.path.dirname(os.path.abspath(__file__)), "propdefs")
for _f in sorted(glob.glob(os.path.join(_d, "C*.py"))):
    _s = importlib.util.spec_from_file_location("propdef_" + os.path.basename(_f)[:-3], _f)
    _m = importlib.util.module_from_spec(_s)
    _s.loader.exec_module(_m)
    PROPS[_m.P["id"]] = _m.P
