#!/bin/sh
# Build the framework from files on disk only (offline): Coq theories and the Rust harness.
set -e
cd "$(dirname "$0")"
mkdir -p work evidence replays
python3 tools/extract_consts.py all || true
(cd coq && coq_makefile -f _CoqProject -o Makefile >/dev/null && timeout 3600 make -j16 >../work/setup_coq.log 2>&1) || { tail -30 work/setup_coq.log; exit 1; }
(cd harness && cp /repo/Cargo.lock Cargo.lock && CARGO_NET_OFFLINE=true timeout 3600 cargo build --offline >../work/setup_cargo.log 2>&1) || { tail -30 work/setup_cargo.log; exit 1; }
echo setup ok
