#!/bin/sh
# Build the framework from files on disk only (offline): Coq theories and the Rust harness.
# Every ./check rebuilds its own targets against /repo's current tree; this only warms the caches.
cd "$(dirname "$0")"
mkdir -p work evidence replays
python3 tools/extract_consts.py all || true
python3 tools/gen_coqproject.py
(cd coq && timeout 5400 make -k -j16 >../work/setup_coq.log 2>&1) || { echo "warning: some Coq files did not build (each check reports its own)"; tail -5 work/setup_coq.log; }
(cd harness && cp /repo/Cargo.lock Cargo.lock && CARGO_NET_OFFLINE=true timeout 3600 cargo build --offline >../work/setup_cargo.log 2>&1) || { tail -30 work/setup_cargo.log; exit 1; }
echo setup ok
