#!/usr/bin/env python3
"""Regenerate MANIFEST.json from lib/props.py (keeps it valid at all times)."""
import json, os, sys
ROOT = os.path.dirname(os.path.dirname(os.path.abspath(__file__)))
sys.path.insert(0, os.path.join(ROOT, "lib"))
from props import PROPS
base = json.load(open("/root/.vp/BASELINE.json"))
allp = [json.loads(l)["id"] for l in open(os.path.join(ROOT, "properties.jsonl"))]
hooks_commits = []
hf = os.path.join(ROOT, "tools", "hook_commits.txt")
if os.path.exists(hf):
    hooks_commits = [l.split()[0] for l in open(hf) if l.strip() and not l.startswith("#")]
hold = {}
hf2 = os.path.join(ROOT, "lib", "unclaimed.txt")
if os.path.exists(hf2):
    for l in open(hf2):
        if l.strip() and not l.startswith("#"):
            k, _, why = l.strip().partition(" ")
            hold[k] = why
for k, why in hold.items():
    if k in PROPS:
        PROPS[k] = dict(PROPS[k], claimed=False, na_reason=why)
checks = []
for pid in allp:
    if pid not in PROPS or not PROPS[pid].get("claimed", True):
        continue
    c = PROPS[pid]
    checks.append({
        "property_id": pid,
        "quick_cmd": "cd /verif && ./check %s --tier quick" % pid,
        "thorough_cmd": "cd /verif && ./check %s --tier thorough" % pid,
        "evidence_file": "/verif/evidence/%s.json" % pid,
        "replay_cmd_template": "cd /verif && ./check %s --replay {path}" % pid,
        "engine": "coq+zv",
        "level_claimed": {"category": c["level"], "text": c["level_text"], "design_ref": c.get("design_ref", "DESIGN.md section 4, " + pid)},
        "level_note": c["level_note"],
        "technique": c["technique"],
    })
na = []
for pid in allp:
    if pid in PROPS and PROPS[pid].get("claimed", True):
        continue
    reason = PROPS.get(pid, {}).get("na_reason", "no check is registered yet: the Coq model and correspondence harness for this property are not built (build order in DESIGN.md section 7); the technique itself applies")
    na.append({"property_id": pid, "reason": reason})
served = [c["property_id"] for c in checks]
m = {
    "version": 1,
    "setup_cmd": "cd /verif && ./setup.sh",
    "hooks": {"guard": "--cfg zipora_verif",
              "enable": "RUSTFLAGS=\"--cfg zipora_verif\" (set in /verif/harness/.cargo/config.toml; the harness crate path-depends on /repo's working tree)",
              "baseline_off_cmd": base["cmd"], "source_commits": hooks_commits, "add_only": True},
    "engines": [
        {"name": "coq", "path": "/verif/coq", "serves_properties": served,
         "kind_free_text": "Coq 8.16.1 development: hand-written Gallina mechanism models and unbounded theorems, one directory per property"},
        {"name": "zv", "path": "/verif/harness", "serves_properties": served,
         "kind_free_text": "Rust correspondence harness built against /repo's working tree on every check: runs the real code, a direct oracle of the property, and emits case files that coqc evaluates (vm_compute) against the model"}],
    "checks": checks,
    "notes": "See DESIGN.md. Technique family: machine-checked proof in Coq; hand-written model tied to the code by a correspondence check on every run. ./check <id> prints KNOWN-FINDING lines for findings listed in findings/Cxx.txt and VIOLATION lines otherwise.",
    "not_applicable": na,
}
json.dump(m, open(os.path.join(ROOT, "MANIFEST.json"), "w"), indent=1)
try:
    import jsonschema
    jsonschema.validate(m, json.load(open("/root/.vp/MANIFEST.schema.json")))
    print("MANIFEST.json valid; claimed:", " ".join(served))
except ImportError:
    print("MANIFEST.json written (jsonschema not available to validate); claimed:", " ".join(served))
