#!/usr/bin/env python3
"""usage: validate_evidence.py Cxx...  -- validates evidence/Cxx.json against the evidence schema."""
import json, sys, os, jsonschema
ROOT = os.path.dirname(os.path.dirname(os.path.abspath(__file__)))
schema = json.load(open("/root/.vp/EVIDENCE.schema.json"))
rc = 0
for pid in sys.argv[1:]:
    try:
        ev = json.load(open(os.path.join(ROOT, "evidence", pid + ".json")))
        jsonschema.validate(ev, schema)
        c = ev["coverage"]
        print(pid, "ok level=%s obligations=%s discharged=%s evaluations=%s distinct=%s violations=%s wall=%ss" % (
            ev["level"], c.get("obligations"), c.get("discharged"), c.get("evaluations"), c.get("distinct_nontrivial"), ev.get("violations"), ev["wall_s"]))
    except Exception as e:
        print(pid, "INVALID:", str(e)[:300]); rc = 1
sys.exit(rc)
