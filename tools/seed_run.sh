#!/bin/bash
# usage: seed_run.sh <dir with 1/ 2/ 3/> <Cxx> <lib test filter...>   each step holds the global lock (uses /tmp/wt/confirm and /repo)
D=$1; ID=$2; shift 2
L=/tmp/seed_pipeline.lock
for k in $(ls $D | grep -E '^[0-9]+$'); do
  [ -s $D/$k/confirm.json ] || flock $L /verif/tools/confirm_seeded.sh $D/$k "$@" > $D/$k/confirm.json 2>$D/$k/confirm.err
  grep -q 'check exit' $D/$k/try.log 2>/dev/null || flock $L /verif/tools/try_seeded.sh $D/$k/patch.diff $ID quick > $D/$k/try.log 2>&1
done
echo done > $D/pipeline.done
