#!/bin/bash
# usage: seed_run.sh <dir with 1/ 2/ 3/> <Cxx> <lib test filter...>
# confirm steps hold /tmp/confirm.lock (scratch worktree /tmp/wt/confirm); try steps hold /tmp/seed_pipeline.lock (/repo + /verif)
D=$1; ID=$2; shift 2
for k in $(ls $D | grep -E '^[0-9]+$'); do
  [ -s $D/$k/confirm.json ] || flock /tmp/confirm.lock /verif/tools/confirm_seeded.sh $D/$k "$@" > $D/$k/confirm.json 2>$D/$k/confirm.err
done &
for k in $(ls $D | grep -E '^[0-9]+$'); do
  grep -q 'check exit' $D/$k/try.log 2>/dev/null || flock /tmp/seed_pipeline.lock /verif/tools/try_seeded.sh $D/$k/patch.diff $ID quick > $D/$k/try.log 2>&1
done
wait
echo done > $D/pipeline.done
