#!/bin/bash
# usage: try_seeded.sh <patch.diff> <Cxx> [tier]   -- applies the patch to /repo, runs the check, reverts.
# Holds /tmp/seed_pipeline.lock while /repo is modified (run_checks.sh and `vp check` requests take the same lock).
set -u
[ "${TRY_LOCKED:-}" = 1 ] || { export TRY_LOCKED=1; exec flock /tmp/seed_pipeline.lock "$0" "$@"; }
P=$1; ID=$2; TIER=${3:-quick}
cd /repo && git diff --quiet || { echo "/repo not clean"; exit 2; }
git apply $P || { echo "patch does not apply"; exit 3; }
# the evidence file of a run against a deliberately broken tree must not replace the real one
cp /verif/evidence/$ID.json /tmp/evidence_$ID.keep 2>/dev/null
cd /verif && ./check $ID --tier $TIER; rc=$?
cp /verif/evidence/$ID.json /tmp/evidence_$ID.seeded 2>/dev/null; cp /tmp/evidence_$ID.keep /verif/evidence/$ID.json 2>/dev/null
cd /repo && git checkout -- .
echo "check exit=$rc"
