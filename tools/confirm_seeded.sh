#!/bin/bash
# usage: confirm_seeded.sh <src dir with patch.diff demo.rs> <lib test filter...>
# Confirms in a scratch worktree (/tmp/wt/confirm): patch applies, demo fails with it and passes
# without it, and the given existing lib tests pass with it.  Prints a JSON summary.
set -u
SRC=$1; shift
WT=/tmp/wt/confirm
export CARGO_TARGET_DIR=$WT/target CARGO_NET_OFFLINE=true
if [ ! -d $WT ]; then git -C /repo worktree add -q --detach $WT HEAD; fi
cd $WT && git checkout -q --detach $(git -C /repo rev-parse HEAD) 2>/dev/null; git checkout -q -- . ; git clean -fdq -e target
cp $SRC/demo.rs tests/zz_seeded_demo.rs
applies=false; demo_with=skip; demo_without=skip; lib_with=skip
timeout 1500 cargo test --offline --test zz_seeded_demo >/tmp/wt/confirm_without.log 2>&1 && demo_without=pass || demo_without=fail
if git apply --check $SRC/patch.diff 2>/dev/null; then
  applies=true
  git apply $SRC/patch.diff
  timeout 1500 cargo test --offline --test zz_seeded_demo >/tmp/wt/confirm_with.log 2>&1 && demo_with=pass || demo_with=fail
  if [ $# -gt 0 ]; then
    timeout 2400 cargo test --offline --lib -- "$@" --skip performance >/tmp/wt/confirm_lib.log 2>&1 && lib_with=pass || lib_with=fail
    libsum=$(grep "^test result" /tmp/wt/confirm_lib.log | head -1)
  fi
fi
git checkout -q -- . ; git clean -fdq -e target
echo "{\"applies\": $applies, \"demo_without_patch\": \"$demo_without\", \"demo_with_patch\": \"$demo_with\", \"existing_lib_tests_with_patch\": \"$lib_with\", \"lib_filter\": \"$*\", \"lib_summary\": \"${libsum:-}\", \"repo_head\": \"$(git -C /repo rev-parse --short HEAD)\"}"
