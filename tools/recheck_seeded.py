#!/usr/bin/env python3
"""usage: recheck_seeded.py <seeded id>... [--note "what was strengthened"]
Re-runs the registered quick check against recorded seeded changes (apply to /repo under the pipeline lock, ./check, revert)
and records the outcome in seeded/<id>/meta.json ("recheck"); a change that was missed at first and is caught now gets
`caught_after`. Never run while /repo has uncommitted changes."""
import sys, os, json, subprocess, fcntl, re, shutil
ROOT = os.path.dirname(os.path.dirname(os.path.abspath(__file__)))
args = sys.argv[1:]
note = ""
if "--note" in args:
    i = args.index("--note"); note = args[i + 1]; args = args[:i] + args[i + 2:]
lock = open("/tmp/seed_pipeline.lock", "w"); fcntl.flock(lock, fcntl.LOCK_EX)
head = subprocess.run(["git", "-C", ROOT, "rev-parse", "--short", "HEAD"], stdout=subprocess.PIPE, text=True).stdout.strip()
for sid in args:
    d = os.path.join(ROOT, "seeded", sid)
    m = json.load(open(os.path.join(d, "meta.json")))
    pid = m["property"]
    if subprocess.run(["git", "-C", "/repo", "diff", "--quiet"]).returncode != 0:
        print("/repo not clean"); sys.exit(2)
    subprocess.run(["git", "-C", "/repo", "apply", os.path.join(d, "patch.diff")], check=True)
    ev = os.path.join(ROOT, "evidence", pid + ".json")
    keep = open(ev).read() if os.path.exists(ev) else None   # evidence of a run on a broken tree must not replace the real one
    try:
        p = subprocess.run([os.path.join(ROOT, "check"), pid, "--tier", "quick"], stdout=subprocess.PIPE, stderr=subprocess.STDOUT, text=True, cwd=ROOT)
    finally:
        subprocess.run(["git", "-C", "/repo", "checkout", "--", "."])
        if keep is not None:
            open(ev, "w").write(keep)
    viol = [l for l in p.stdout.splitlines() if l.startswith("VIOLATION")]
    summ = [l for l in p.stdout.splitlines() if re.match(r"C\d+ (quick|thorough):", l)]
    m["recheck"] = {"verif_commit": head, "detected": bool(viol), "violation_line": viol[0] if viol else None, "summary_line": summ[-1] if summ else None}
    if viol:
        mm = re.search(r"replay=(\S+)", viol[0])
        if mm and os.path.exists(mm.group(1)):
            shutil.copy(mm.group(1), os.path.join(d, "replay.json"))
    if viol and not m["check_result"]["detected"]:
        m["caught_after"] = "caught after strengthening the check (%s): %s" % (note or "see design notes", viol[0])
    json.dump(m, open(os.path.join(d, "meta.json"), "w"), indent=1)
    print(sid, "detected" if viol else "MISSED", summ[-1] if summ else "")
