#!/bin/bash
# usage: merge_agent.sh Cxx  -- cherry-pick fix:/hook: commits of repo branch agent-Cxx into /repo main, merge verif branch agent-Cxx
set -u
[ "${MERGE_LOCKED:-}" = 1 ] || { export MERGE_LOCKED=1; exec flock /tmp/seed_pipeline.lock "$0" "$@"; }
ID=$1
cd /repo || exit 1
git diff --quiet || { echo "/repo not clean"; exit 2; }
for c in $(git rev-list --reverse main..agent-$ID); do
  subj=$(git log -1 --format=%s $c)
  if git log main --format=%s | grep -qxF "$subj"; then echo "skip (already in main): $subj"; continue; fi
  case "$subj" in
    fix:*|hook:*) if git cherry-pick $c >/dev/null 2>&1; then echo "picked: $subj";
       elif git diff --quiet && git diff --cached --quiet; then git cherry-pick --skip; echo "skip (empty, already applied): $subj";
       else echo "CONFLICT cherry-picking $c: $subj"; git cherry-pick --abort; exit 3; fi ;;
    *) echo "SKIPPED (not fix:/hook:): $c $subj" ;;
  esac
done
cd /verif || exit 1
git merge --no-edit agent-$ID 2>&1 | tail -3
if git status --short | grep -q '^UU evidence/'; then git checkout --theirs evidence/ && git add evidence && git commit -q --no-edit && echo 'resolved evidence conflict (theirs)'; fi
python3 /verif/tools/remap_fix_hashes.py
