#!/bin/bash
# usage: run_checks.sh [--tier t] Cxx...   runs checks sequentially, each under the global lock; prints verdict lines
T=quick; if [ "$1" = "--tier" ]; then T=$2; shift 2; fi
for p in "$@"; do
  s=$(date +%s)
  out=$(flock /tmp/seed_pipeline.lock /verif/check $p --tier $T 2>&1); rc=$?
  echo "$p rc=$rc $(( $(date +%s) - s ))s | $(echo "$out" | grep -c '^KNOWN-FINDING') known | $(echo "$out" | grep '^VIOLATION' | head -2 | tr '\n' ' ') | $(echo "$out" | tail -1)"
done
