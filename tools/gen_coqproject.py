#!/usr/bin/env python3
"""Regenerate coq/_CoqProject from the directories present (one logical path ZV.<dir> per directory,
every .v file listed), and the Makefile when the project changed.  Cases files are never listed."""
import os, glob, subprocess, sys
ROOT = os.path.dirname(os.path.dirname(os.path.abspath(__file__)))
COQ = os.path.join(ROOT, "coq")
dirs = sorted(d for d in os.listdir(COQ) if os.path.isdir(os.path.join(COQ, d)) and glob.glob(os.path.join(COQ, d, "*.v")))
lines = []
for d in dirs:
    lines.append("-Q %s ZV.%s" % (d, "Common" if d == "common" else "Gen" if d == "gen" else d))
for d in dirs:
    for f in sorted(glob.glob(os.path.join(COQ, d, "*.v"))):
        lines.append("%s/%s" % (d, os.path.basename(f)))
txt = "\n".join(lines) + "\n"
p = os.path.join(COQ, "_CoqProject")
old = open(p).read() if os.path.exists(p) else ""
if old != txt or not os.path.exists(os.path.join(COQ, "Makefile")):
    open(p, "w").write(txt)
    subprocess.run(["coq_makefile", "-f", "_CoqProject", "-o", "Makefile"], cwd=COQ, check=True, stdout=subprocess.DEVNULL)
    print("regenerated _CoqProject (%d files)" % (len(lines) - len(dirs)))
