#!/bin/bash
# usage: spawn_worktree.sh Cxx  -- creates /root/agents/Cxx/{verif,repo} development worktrees (branches agent-Cxx)
set -eu
ID=$1; D=/root/agents/$ID
mkdir -p $D
[ -d $D/repo ] || git -C /repo worktree add -q -b agent-$ID $D/repo HEAD
[ -d $D/verif ] || git -C /verif worktree add -q -b agent-$ID $D/verif HEAD
cd $D/verif && git update-index --skip-worktree harness/Cargo.toml
sed -i "s#zipora = { path = \"[^\"]*\" }#zipora = { path = \"$D/repo\" }#" harness/Cargo.toml
cp /repo/Cargo.lock harness/Cargo.lock
echo "export ZV_REPO=$D/repo" > $D/env.sh
echo "$D ready"
