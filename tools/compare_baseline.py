#!/usr/bin/env python3
"""usage: compare_baseline.py <cargo test log>  -- lists BASELINE.json stable_pass tests that are not `ok` in the log
(log from: cargo test --workspace --no-fail-fast --offline, guard off)."""
import json, re, sys
b = json.load(open('/root/.vp/BASELINE.json'))
sp = set(b['stable_pass'])
cur = None; res = {}
for line in open(sys.argv[1], errors='replace'):
    m = re.match(r'\s+Running (?:unittests )?(\S+) ', line)
    if m:
        p = m.group(1)
        cur = 'lib' if p.startswith('src/') else re.sub(r'\.rs$', '', p.split('/')[-1]); continue
    if re.match(r'\s+Doc-tests', line): cur = 'doc'; continue
    m = re.match(r'^test (\S+)(?: - should panic)? \.\.\. (ok|FAILED|ignored)', line)
    if m and cur and cur != 'doc':
        res['zipora::' + (m.group(1) if cur == 'lib' else cur + '::' + m.group(1))] = m.group(2)
miss = sorted(t for t in sp if res.get(t) != 'ok')
print("tests seen: %d; baseline stable_pass: %d; not ok now: %d" % (len(res), len(sp), len(miss)))
for t in miss: print("  ", t, res.get(t))
sys.exit(1 if miss else 0)
