#!/bin/bash
# usage: seed_pipeline.sh <dir with 1/ 2/ 3/> <Cxx> <lib test filter>   (serialised by a lock: uses /tmp/wt/confirm and /repo)
D=$1; ID=$2; F=$3
exec 9>/tmp/seed_pipeline.lock; flock 9
for k in $(ls $D | grep -E '^[0-9]+$'); do
  [ -s $D/$k/confirm.json ] || /verif/tools/confirm_seeded.sh $D/$k $F > $D/$k/confirm.json 2>$D/$k/confirm.err
  grep -q 'check exit' $D/$k/try.log 2>/dev/null || /verif/tools/try_seeded.sh $D/$k/patch.diff $ID quick > $D/$k/try.log 2>&1
done
echo done > $D/pipeline.done
