#!/usr/bin/env python3
"""usage: record_seeded.py <src dir (patch.diff demo.rs notes.md confirm.json try.log)> <Cxx> <seeded id> "<needs>"
Copies a confirmed seeded change into /verif/seeded/<id>/ and writes meta.json."""
import sys, os, json, shutil, re, subprocess
src, pid, sid, needs = sys.argv[1:5]
ROOT = os.path.dirname(os.path.dirname(os.path.abspath(__file__)))
dst = os.path.join(ROOT, "seeded", sid)
os.makedirs(dst, exist_ok=True)
for f in ("patch.diff", "demo.rs", "notes.md"):
    shutil.copy(os.path.join(src, f), os.path.join(dst, f))
conf = json.load(open(os.path.join(src, "confirm.json")))
log = open(os.path.join(src, "try.log")).read()
viol = [l for l in log.splitlines() if l.startswith("VIOLATION")]
summ = [l for l in log.splitlines() if re.match(r"C\d+ (quick|thorough):", l)]
meta = {
    "property": pid,
    "breaks": open(os.path.join(src, "notes.md")).read().strip().splitlines()[0][:300],
    "needs_to_manifest": needs,
    "confirmed": {
        "how": "tools/confirm_seeded.sh in a scratch worktree of /repo: demo (tests/zz_seeded_demo.rs) passes without the patch and fails with it; the listed existing lib tests pass with the patch",
        **conf},
    "check_result": {
        "command": "tools/try_seeded.sh patch.diff %s quick (git -C /repo apply; ./check %s --tier quick; git -C /repo checkout -- .)" % (pid, pid),
        "detected": bool(viol), "violation_line": viol[0] if viol else None, "summary_line": summ[-1] if summ else None},
}
json.dump(meta, open(os.path.join(dst, "meta.json"), "w"), indent=1)
print(sid, "detected" if viol else "MISSED", conf)
