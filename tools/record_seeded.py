#!/usr/bin/env python3
"""usage: record_seeded.py <src dir (patch.diff demo.rs notes.md confirm.json try.log)> <Cxx> <seeded id>
Copies a confirmed seeded change into /verif/seeded/<id>/ and writes meta.json (which property it breaks, what it needs
in order to manifest, what was run and what the check said)."""
import sys, os, json, shutil, re
src, pid, sid = sys.argv[1:4]
ROOT = os.path.dirname(os.path.dirname(os.path.abspath(__file__)))
conf = json.load(open(os.path.join(src, "confirm.json")))
if not conf.get("confirmed"):
    print(sid, "not confirmed, not recorded:", {k: conf.get(k) for k in ("applies", "demo_without_patch", "demo_with_patch", "existing_tests_with_patch")})
    sys.exit(1)
dst = os.path.join(ROOT, "seeded", sid)
os.makedirs(dst, exist_ok=True)
for f in ("patch.diff", "demo.rs", "notes.md"):
    shutil.copy(os.path.join(src, f), os.path.join(dst, f))
notes = open(os.path.join(src, "notes.md")).read().strip()
lines = [l for l in notes.splitlines() if l.strip()]
needs = ""
m = re.search(r"(?is)(needed? (?:for it )?to manifest|what is needed|trigger|manifest)[^\n]*\n(.*?)(\n\s*\n|\n#|$)", notes)
if m:
    needs = (m.group(0)).strip()[:700]
log = open(os.path.join(src, "try.log")).read() if os.path.exists(os.path.join(src, "try.log")) else ""
viol = [l for l in log.splitlines() if l.startswith("VIOLATION")]
summ = [l for l in log.splitlines() if re.match(r"C\d+ (quick|thorough):", l)]
replay = None
if viol:
    mm = re.search(r"replay=(\S+)", viol[0])
    if mm and os.path.exists(mm.group(1)) and os.path.exists(os.path.join(src, "replay.json")):
        replay = "replay.json"
        shutil.copy(os.path.join(src, "replay.json"), os.path.join(dst, "replay.json"))
meta = {
    "property": pid,
    "breaks": lines[0].lstrip("# ").strip()[:400] if lines else "",
    "needs_to_manifest": needs or "see notes.md",
    "origin": "written by a sub-agent that was given only the property record and a scratch worktree of the repository (nothing from /verif)",
    "confirmed": dict(conf, how="tools/confirm_seeded.py in the scratch worktree /tmp/wt/confirm: demo (tests/zz_seeded_demo.rs) passes on the pristine tree and fails with the patch; the whole baseline suite (cargo nextest command of BASELINE.json) still passes every stable_pass test with the patch"),
    "check_result": {
        "command": "tools/try_seeded.sh patch.diff %s quick  (git -C /repo apply; ./check %s --tier quick; git -C /repo checkout -- .)" % (pid, pid),
        "detected": bool(viol), "violation_line": viol[0] if viol else None, "summary_line": summ[-1] if summ else None,
        "replay_copy": replay},
}
json.dump(meta, open(os.path.join(dst, "meta.json"), "w"), indent=1)
print(sid, "detected" if viol else "MISSED")
