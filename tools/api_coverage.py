#!/usr/bin/env python3
"""usage: api_coverage.py [Cxx ...]
For every property: the `pub fn`s of its anchor files (properties.jsonl) that no harness source of that property mentions
(`.name(` / `::name(` / `name(`), i.e. public entry points the oracle never calls.  A rough audit (names only, no types):
constructors, accessors and Debug-style helpers are filtered by a small stop list; the output is a to-do list for widening
the oracles, not a verdict."""
import json, re, sys, os, glob
ROOT = os.path.dirname(os.path.dirname(os.path.abspath(__file__)))
STOP = set("new default fmt clone drop eq ne hash from into as_ref deref name len is_empty stats config capacity with_config "
           "clear_stats reset_stats memory_usage description to_string source kind".split())
want = set(sys.argv[1:])
tot = 0
for l in open(os.path.join(ROOT, "properties.jsonl")):
    p = json.loads(l)
    pid = p["id"]
    if want and pid not in want: continue
    hs = "".join(open(f).read() for f in glob.glob(os.path.join(ROOT, "harness", "src", pid.lower() + "*.rs")))
    out = []
    for f in p["anchors"]["files"]:
        path = os.path.join("/repo", f)
        if not os.path.isfile(path): continue
        src = open(path).read()
        # drop test modules
        src = re.split(r"#\[cfg\(test\)\]", src)[0]
        names = sorted(set(re.findall(r"pub fn ([a-z_][a-z0-9_]*)", src)))
        miss = [n for n in names if n not in STOP and not n.startswith(("verif_", "with_", "is_", "get_stats", "as_")) and not re.search(r"\b%s\s*(::<[^>]*>)?\(" % re.escape(n), hs)]
        if miss: out.append((f, len(names), miss))
    n = sum(len(m) for _, _, m in out); tot += n
    print("== %s: %d public functions of the anchor files never named in harness/src/%s*.rs" % (pid, n, pid.lower()))
    for f, k, miss in out:
        print("   %s (%d pub fn): %s" % (f, k, ", ".join(miss)))
print("total", tot)
