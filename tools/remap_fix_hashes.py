#!/usr/bin/env python3
"""After cherry-picking fix:/hook: commits of agent branches into /repo main the commit hashes change.
Rewrites every 7-hex hash that names a commit of an agent-* branch of /repo (and is not on main) to the hash of the
commit with the same subject on main, in findings/, design/, corpus/, lib/propdefs/.  Then lists `fixed:` lines whose
hash is not an ancestor of /repo HEAD."""
import subprocess, re, glob, os, sys
ROOT = os.path.dirname(os.path.dirname(os.path.abspath(__file__)))
def git(*a): return subprocess.run(["git", "-C", "/repo"] + list(a), stdout=subprocess.PIPE, text=True).stdout
main = {}
for l in git("log", "main", "--format=%h %s").splitlines():
    h, s = l.split(" ", 1); main.setdefault(s, h)
mainh = set(main.values())
m = {}
for br in git("for-each-ref", "--format=%(refname:short)", "refs/heads/agent-*").split():
    for l in git("log", "main.." + br, "--format=%h %s").splitlines():
        h, s = l.split(" ", 1)
        if s in main and h not in mainh: m[h] = main[s]
n = 0
files = sum([glob.glob(os.path.join(ROOT, p)) for p in ("findings/*.txt", "design/*.md", "corpus/*/*.json", "lib/propdefs/*.py")], [])
for f in files:
    s = open(f).read()
    s2 = re.sub(r"\b[0-9a-f]{7}\b", lambda mo: m.get(mo.group(0), mo.group(0)), s)
    if s2 != s: open(f, "w").write(s2); n += 1
print("remapped %d hashes known, %d files changed" % (len(m), n))
bad = 0
for f in sorted(glob.glob(os.path.join(ROOT, "findings/*.txt"))):
    for line in open(f):
        mo = re.match(r"fixed:\s+property=\w+\s+(\w+)", line)
        if mo and subprocess.run(["git", "-C", "/repo", "merge-base", "--is-ancestor", mo.group(1), "HEAD"], stderr=subprocess.DEVNULL).returncode != 0:
            print("NOT AN ANCESTOR of /repo HEAD:", os.path.basename(f), line.strip()[:120]); bad += 1
sys.exit(1 if bad else 0)
