#!/usr/bin/env python3
"""usage: confirm_seeded.py <src dir>...      (each with patch.diff and demo.rs; writes <src dir>/confirm.json)

Confirms seeded property-breaking changes in the scratch worktree /tmp/wt/confirm (own target dir, never /repo):
  1. on the pristine tree (HEAD of /repo) every demo, copied to tests/zz_seeded_demo_<k>.rs, must PASS;
  2. per change: `git apply patch.diff`, then the whole baseline suite (the cargo nextest command of
     /root/.vp/BASELINE.json) plus the demo in one run: the demo must FAIL, and every test of BASELINE.json's
     stable_pass list must still pass.
Serialised by /tmp/confirm.lock.  Nothing here is used by a registered check.
"""
import sys, os, json, subprocess, fcntl, re, shutil, time
import xml.etree.ElementTree as ET

WT = os.environ.get("CONFIRM_WT", "/tmp/wt/confirm")   # a second pipeline may use another scratch worktree
ENV = dict(os.environ, CARGO_TARGET_DIR=WT + "/target", CARGO_NET_OFFLINE="true")
JUNIT = WT + "/target/nextest/pb/junit.xml"
NEXTEST = ["cargo", "nextest", "run", "--workspace", "--no-fail-fast", "--tool-config-file", "pb:/w/lib/nextest.toml",
           "--profile", "pb", "--test-threads", "8", "--offline"]


def sh(cmd, timeout=7200, **kw):
    try:
        p = subprocess.run(cmd, cwd=WT, env=ENV, stdout=subprocess.PIPE, stderr=subprocess.STDOUT, text=True,
                           errors="replace", timeout=timeout, **kw)
        return p.returncode, p.stdout
    except subprocess.TimeoutExpired as e:
        return 124, (e.stdout or b"").decode(errors="replace") if isinstance(e.stdout, bytes) else (e.stdout or "")


def clean():
    sh(["git", "checkout", "-q", "--", "."])
    sh(["git", "clean", "-fdq", "-e", "target"])


IDS = {}


def junit():
    passed, failed = set(), set()
    if not os.path.exists(JUNIT):
        return None, None
    for tc in ET.parse(JUNIT).getroot().iter("testcase"):
        tid = (tc.get("classname") or "") + "::" + (tc.get("name") or "")
        IDS[tid] = (tc.get("classname") or "", tc.get("name") or "")
        bad = tc.find("failure") is not None or tc.find("error") is not None
        (failed if bad else passed).add(tid)
    return passed - failed, failed


def rerun_alone(tid):
    """A baseline test that failed in the loaded full run (several are wall-clock comparisons) is re-run alone, twice at most."""
    if tid not in IDS:
        return False
    cls, name = IDS[tid]
    for _ in range(2):
        rc, out = sh(["cargo", "nextest", "run", "--workspace", "--offline", "--tool-config-file", "pb:/w/lib/nextest.toml",
                      "-E", "binary_id(=%s) & test(=%s)" % (cls, name)], timeout=1800)
        if rc == 0 and " 1 passed" in out:
            return True
    return False


def main():
    srcs = [os.path.abspath(s) for s in sys.argv[1:]]
    lock = open("/tmp/confirm.lock" if WT == "/tmp/wt/confirm" else "/tmp/confirm_%s.lock" % os.path.basename(WT), "w")
    fcntl.flock(lock, fcntl.LOCK_EX)
    head = subprocess.run(["git", "-C", "/repo", "rev-parse", "HEAD"], stdout=subprocess.PIPE, text=True).stdout.strip()
    if not os.path.isdir(WT):
        os.makedirs("/tmp/wt", exist_ok=True)
        subprocess.run(["git", "-C", "/repo", "worktree", "add", "-q", "--detach", WT, "HEAD"], check=True)
    sh(["git", "checkout", "-q", "--detach", head])
    clean()
    base = set(json.load(open("/root/.vp/BASELINE.json"))["stable_pass"])
    # 1. demos on the pristine tree
    res = {}
    for k, s in enumerate(srcs):
        shutil.copy(os.path.join(s, "demo.rs"), os.path.join(WT, "tests", "zz_seeded_demo_%d.rs" % k))
    for k, s in enumerate(srcs):
        rc, out = sh(["cargo", "test", "--offline", "--test", "zz_seeded_demo_%d" % k], timeout=3600)
        res[s] = {"demo_without_patch": "pass" if rc == 0 else "fail"}
        if rc != 0:
            res[s]["demo_without_patch_output"] = out[-1500:]
    clean()
    # 2. per change: full suite + demo with the patch
    for s in srcs:
        r = res[s]
        r["repo_head"] = head[:7]
        rc, out = sh(["git", "apply", "--check", os.path.join(s, "patch.diff")])
        r["applies"] = rc == 0
        touched = re.findall(r"^\+\+\+ b/(\S+)", open(os.path.join(s, "patch.diff")).read(), re.M)
        r["files"] = touched
        r["only_src"] = all(t.startswith("src/") for t in touched)
        if rc == 0 and r["demo_without_patch"] == "pass":
            sh(["git", "apply", os.path.join(s, "patch.diff")])
            shutil.copy(os.path.join(s, "demo.rs"), os.path.join(WT, "tests", "zz_seeded_demo.rs"))
            if os.path.exists(JUNIT):
                os.remove(JUNIT)
            t0 = time.time()
            rc, out = sh(NEXTEST, timeout=7200)
            passed, failed = junit()
            if passed is None:
                r.update(compiles=False, demo_with_patch="skip", existing_tests_with_patch="skip",
                         build_output=out[-2000:])
            else:
                demo_f = [t for t in failed if "zz_seeded_demo" in t]
                demo_p = [t for t in passed if "zz_seeded_demo" in t]
                miss = sorted(base - passed)
                flaky = [t for t in miss if len(miss) <= 12 and rerun_alone(t)]
                miss = [t for t in miss if t not in flaky]
                passed |= set(flaky)
                if flaky:
                    r["passed_when_rerun_alone"] = flaky
                r.update(compiles=True,
                         demo_with_patch="fail" if demo_f else ("pass" if demo_p else "not-run"),
                         demo_tests_failing=sorted(demo_f),
                         existing_tests_with_patch="pass" if not miss else "fail",
                         existing_tests_summary="cargo nextest (BASELINE.json command): %d of %d baseline stable_pass tests pass with the patch%s"
                         % (len(base & passed), len(base), "" if not miss else "; not passing: " + ", ".join(miss[:8])),
                         suite_wall_s=round(time.time() - t0))
            clean()
        r["confirmed"] = bool(r.get("applies") and r.get("only_src") and r.get("compiles") and r["demo_without_patch"] == "pass"
                              and r.get("demo_with_patch") == "fail" and r.get("existing_tests_with_patch") == "pass")
        json.dump(r, open(os.path.join(s, "confirm.json"), "w"), indent=1)
        print(s, "CONFIRMED" if r["confirmed"] else "REJECTED", {k: v for k, v in r.items() if k in
              ("applies", "demo_without_patch", "demo_with_patch", "existing_tests_with_patch", "existing_tests_summary")}, flush=True)


if __name__ == "__main__":
    main()
