#!/bin/bash
# regenerates tools/hook_commits.txt from /repo's history (commits whose subject starts with "hook:")
git -C /repo log --reverse --format='%h %s' | grep -E '^[0-9a-f]+ hook:' > /verif/tools/hook_commits.txt
