#!/bin/bash
# usage: seed_process.sh Cxx   -- confirm every /tmp/seeded/Cxx/<k>, try the confirmed ones against ./check Cxx, record them
ID=$1; BASE=${2:-/tmp/seeded}; TAG=${3:-}; D=$BASE/$ID
dirs=$(ls -d $D/[0-9]* 2>/dev/null)
todo=""; for d in $dirs; do [ -s $d/confirm.json ] || todo="$todo $d"; done
[ -n "$todo" ] && python3 /verif/tools/confirm_seeded.py $todo
for d in $dirs; do
  k=$(basename $d)
  python3 -c "import json,sys; sys.exit(0 if json.load(open('$d/confirm.json')).get('confirmed') else 1)" || { echo "$ID-$k rejected"; continue; }
  if ! grep -q 'check exit' $d/try.log 2>/dev/null; then
    /verif/tools/try_seeded.sh $d/patch.diff $ID quick > $d/try.log 2>&1
    r=$(grep -o 'replay=[^ ]*' $d/try.log | head -1 | cut -d= -f2); [ -n "$r" ] && [ -f "$r" ] && cp $r $d/replay.json
  fi
  python3 /verif/tools/record_seeded.py $d $ID $ID-$TAG$k
done
